import SieveModel.Model.Factory
/-!
# The requirement list the factory keeps covers every extension its construction relies on

`Cfg.strictWith L` is the same construction with every extension check switched on against the list `L`
(`get_command_instance(..., checkexists=True)`, `check_next_arg(..., check_extension=True)`): what a
parser that has loaded exactly `L` insists on when it meets the same commands and arguments.
`createFilter_sim`: if the construction succeeds and leaves the requirement list `r`, then the strict
construction against any `L ⊇ r` (that also contains what was loaded globally during the call) succeeds
with the same tree.  The facts about the table this rests on are the decidable `TableOK`.
-/
namespace Factory
open Args

def Cfg.strictWith (cfg : Cfg) (L : List Bytes) : Cfg := { cfg with strict := some L }

@[simp] theorem strictWith_loaded (cfg : Cfg) (L : List Bytes) : (cfg.strictWith L).loaded = L := rfl
@[simp] theorem strictWith_check (cfg : Cfg) (L : List Bytes) (b : Bool) : (cfg.strictWith L).check b = true := rfl
@[simp] theorem strictWith_T (cfg : Cfg) (L : List Bytes) : (cfg.strictWith L).T = cfg.T := rfl
@[simp] theorem strictWith_matchExt (cfg : Cfg) (L : List Bytes) : (cfg.strictWith L).matchExt = cfg.matchExt := rfl
@[simp] theorem strictWith_argExt (cfg : Cfg) (L : List Bytes) : (cfg.strictWith L).argExt = cfg.argExt := rfl
theorem loaded_of_plain (cfg : Cfg) (hs : cfg.strict = none) : cfg.loaded = cfg.gl := by simp [Cfg.loaded, hs]
theorem check_of_plain (cfg : Cfg) (hs : cfg.strict = none) (b : Bool) : cfg.check b = b := by simp [Cfg.check, hs]

/-! ## the argument interpreter under stricter checks -/

theorem extMissing_mono (e : Option Bytes) (ld L : List Bytes) (hsub : ∀ x ∈ ld, x ∈ L)
    (h : extMissing e ld = false) : extMissing e L = false := by
  cases e with
  | none => rfl
  | some x =>
    simp only [extMissing, Bool.not_eq_eq_eq_not, Bool.not_false, decide_eq_true_eq] at h ⊢
    exact hsub x h

theorem vv_sim (a : ArgDef) (v : AVal) (ld L : List Bytes) (ce : Bool) (b : Bool)
    (h : validValue a v ld ce = .ok b)
    (hx : (ce = true ∧ ∀ e ∈ ld, e ∈ L) ∨
          (∀ raw e, v = .str raw → extLookup a.extValues (B.lower raw) = some e → e ∈ L)) :
    validValue a v L true = .ok b := by
  unfold validValue at h ⊢
  by_cases h0 : (a.values.isNone && a.extValues.isEmpty) = true
  · simp only [h0, if_true] at h ⊢; exact h
  · simp only [h0] at h ⊢
    cases v with
    | str raw =>
      simp only at h ⊢
      by_cases h1 : inValues a.values (B.lower raw) = true
      · simp only [h1, if_true] at h ⊢; exact h
      · simp only [h1] at h ⊢
        cases hl : extLookup a.extValues (B.lower raw) with
        | none => rw [hl] at h; exact h
        | some ext =>
          rw [hl] at h
          simp only at h ⊢
          have hin : ext ∈ L := by
            rcases hx with ⟨hce, hsub⟩ | hx
            · subst hce
              by_cases hm : ext ∈ ld
              · exact hsub ext hm
              · simp [hm] at h
            · exact hx raw ext rfl hl
          by_cases hc : (ce && !decide (ext ∈ ld)) = true
          · simp [hc] at h
          · simp only [hc] at h
            simp only [hin, decide_true, Bool.not_true, Bool.and_false, Bool.false_eq_true, if_false]
            exact h
    | strs l => simp at h
    | test n => simp at h

theorem scan_sim (cmd : Bytes) (ld L : List Bytes) (ce add : Bool) (t : ArgType) (v : AVal) (st : CState) :
    ∀ (defs : List ArgDef) (pos : Nat) (r : CState × Placement),
    scan cmd ld ce add t v st defs pos = .ok r →
    (∀ a ∈ defs, (validType t a.types = true ∨ t ∈ a.types) → ∀ b, validValue a v ld ce = .ok b → validValue a v L true = .ok b) →
    (∀ a ∈ defs, a.required = false → t ∈ a.types → validValue a v ld ce = .ok true →
        (ce = true → extMissing a.extension ld = false) → extMissing a.extension L = false) →
    scan cmd L true add t v st defs pos = .ok r := by
  intro defs
  induction defs with
  | nil => intro pos r h _ _; simpa [scan] using h
  | cons d rest ih =>
    intro pos r h hV hE
    have hVr : ∀ a ∈ rest, (validType t a.types = true ∨ t ∈ a.types) → ∀ b, validValue a v ld ce = .ok b → validValue a v L true = .ok b :=
      fun a ha => hV a (List.mem_cons_of_mem _ ha)
    have hEr : ∀ a ∈ rest, a.required = false → t ∈ a.types → validValue a v ld ce = .ok true →
        (ce = true → extMissing a.extension ld = false) → extMissing a.extension L = false :=
      fun a ha => hE a (List.mem_cons_of_mem _ ha)
    have hd : d ∈ d :: rest := List.mem_cons_self
    unfold scan at h ⊢
    by_cases hreq : d.required = true
    · simp only [hreq, if_true] at h ⊢
      by_cases htl : (d.types == [.testlist]) = true
      · simp only [htl, if_true] at h ⊢; exact h
      · simp only [htl] at h ⊢
        by_cases hvt : validType t d.types = true
        · simp only [hvt, Bool.not_true] at h ⊢
          cases hvv : validValue d v ld ce with
          | error e => rw [hvv] at h; simp at h
          | ok b => rw [hvv] at h; rw [hV d hd (Or.inl hvt) b hvv]; exact h
        · simp [hvt] at h
    · have hopt : d.required = false := by simpa using hreq
      simp only [hopt] at h ⊢
      by_cases hin : t ∈ d.types
      · simp only [hin, decide_true, if_true] at h ⊢
        cases hvv : validValue d v ld ce with
        | error e => rw [hvv] at h; simp at h
        | ok b =>
          rw [hvv] at h
          rw [hV d hd (Or.inr hin) b hvv]
          simp only at h ⊢
          by_cases hc : (b && (decide (ArgType.tag ∈ d.types) || !assocHas st.arguments d.name)) = true
          · rw [if_pos hc] at h ⊢
            have hb : b = true := by
              simp only [Bool.and_eq_true] at hc; exact hc.1
            subst hb
            unfold takeOptional at h ⊢
            by_cases hm : (ce && extMissing d.extension ld) = true
            · simp [hm] at h
            · have hmf : extMissing d.extension L = false := by
                apply hE d hd hopt hin hvv
                intro hce
                subst hce
                simpa using hm
              simp only [hm] at h
              simp only [hmf, Bool.and_false]
              exact h
          · rw [if_neg hc] at h ⊢
            exact ih (pos + 1) r h hVr hEr
      · simp only [hin, decide_false] at h ⊢
        exact ih (pos + 1) r h hVr hEr

theorem cna_sim (d : CmdDef) (ld L : List Bytes) (st : CState) (t : ArgType) (v : AVal) (add ce : Bool)
    (r : Option (CState × Placement))
    (h : checkNextArg d ld st t v add ce = .ok r)
    (hV : ∀ a ∈ d.args, (validType t a.types = true ∨ t ∈ a.types) → ∀ b, validValue a v ld ce = .ok b → validValue a v L true = .ok b)
    (hE : ∀ a ∈ d.args, a.required = false → t ∈ a.types → validValue a v ld ce = .ok true →
        (ce = true → extMissing a.extension ld = false) → extMissing a.extension L = false) :
    checkNextArg d L st t v add true = .ok r := by
  unfold checkNextArg at h ⊢
  by_cases h1 : d.args.isEmpty = true
  · simp only [h1, if_true] at h ⊢; exact h
  · simp only [h1] at h ⊢
    by_cases h2 : isComplete d.variableArgs d.args st (some (t, v)) = true
    · simp only [h2, if_true] at h ⊢; exact h
    · simp only [h2] at h ⊢
      cases hp : pendingExtra st with
      | some cex => rw [hp] at h; exact h
      | none =>
        rw [hp] at h
        simp only at h ⊢
        cases hs : scan d.name ld ce add t v st (d.args.drop st.nextargpos) st.nextargpos with
        | error e => rw [hs] at h; simp at h
        | ok r' =>
          rw [hs] at h
          have := scan_sim d.name ld L ce add t v st _ _ r' hs
            (fun a ha => hV a (List.mem_of_mem_drop ha)) (fun a ha => hE a (List.mem_of_mem_drop ha))
          rw [this]
          exact h

theorem arg_d (cfg : Cfg) (c c' : Cmd) (t : ArgType) (v : AVal) (ce : Bool) (h : c.arg cfg t v ce = .ok c') :
    c'.d = c.d := by
  unfold Cmd.arg at h
  split at h
  · simp at h
  · simp at h; rw [← h]
  · simp at h; rw [← h]

/-- one `check_next_arg` of the construction, re-done with every check on -/
theorem arg_sim (cfg : Cfg) (hs : cfg.strict = none) (c c' : Cmd) (t : ArgType) (v : AVal) (ce : Bool) (L : List Bytes)
    (h : c.arg cfg t v ce = .ok c')
    (hV : ∀ a ∈ c.d.args, (validType t a.types = true ∨ t ∈ a.types) → ∀ b, validValue a v cfg.gl ce = .ok b → validValue a v L true = .ok b)
    (hE : ∀ a ∈ c.d.args, a.required = false → t ∈ a.types → validValue a v cfg.gl ce = .ok true →
        (ce = true → extMissing a.extension cfg.gl = false) → extMissing a.extension L = false) :
    c.arg (cfg.strictWith L) t v ce = .ok c' := by
  unfold Cmd.arg at h ⊢
  rw [loaded_of_plain cfg hs, check_of_plain cfg hs] at h
  simp only [strictWith_loaded, strictWith_check]
  cases hc : checkNextArg c.d cfg.gl c.st t v true ce with
  | error e => rw [hc] at h; simp at h
  | ok r =>
    rw [hc] at h
    rw [cna_sim c.d cfg.gl L c.st t v true ce r hc hV hE]
    exact h

/-- a call that already checks extensions: the list may only grow -/
theorem arg_sim_checked (cfg : Cfg) (hs : cfg.strict = none) (c c' : Cmd) (t : ArgType) (v : AVal) (L : List Bytes)
    (hsub : ∀ x ∈ cfg.gl, x ∈ L) (h : c.arg cfg t v true = .ok c') : c.arg (cfg.strictWith L) t v true = .ok c' := by
  apply arg_sim cfg hs c c' t v true L h
  · intro a _ _ b hb
    exact vv_sim a v cfg.gl L true b hb (Or.inl ⟨rfl, hsub⟩)
  · intro a _ _ _ _ hm
    exact extMissing_mono _ _ _ hsub (hm rfl)

theorem newCmd_lookup (cfg : Cfg) (name : Bytes) (ck : Bool) (c : Cmd) (h : newCmd cfg name ck = .ok c) :
    cfg.T.lookup name = some c.d ∧ c.st = {} ∧ c.children = [] := by
  unfold newCmd Machine.getCommand at h
  cases hl : cfg.T.lookup name with
  | none => rw [hl] at h; simp at h
  | some d =>
    rw [hl] at h
    simp only at h
    by_cases hm : (cfg.check ck && extMissing d.extension cfg.loaded) = true
    · simp [hm] at h
    · simp [hm] at h; subst h; exact ⟨rfl, rfl, rfl⟩

theorem newCmd_sim (cfg : Cfg) (hs : cfg.strict = none) (name : Bytes) (ck : Bool) (c : Cmd) (L : List Bytes)
    (h : newCmd cfg name ck = .ok c) (hsub : ∀ x ∈ cfg.gl, x ∈ L)
    (hext : ck = false → ∀ e, c.d.extension = some e → e ∈ L) : newCmd (cfg.strictWith L) name ck = .ok c := by
  unfold newCmd Machine.getCommand at h ⊢
  rw [loaded_of_plain cfg hs, check_of_plain cfg hs] at h
  simp only [strictWith_loaded, strictWith_check, strictWith_T]
  cases hl : cfg.T.lookup name with
  | none => rw [hl] at h; simp at h
  | some d =>
    rw [hl] at h
    simp only at h ⊢
    by_cases hm : (ck && extMissing d.extension cfg.gl) = true
    · simp [hm] at h
    · simp only [hm] at h
      have hc : c.d = d := by simp at h; rw [← h]
      have : extMissing d.extension L = false := by
        cases ck with
        | true => exact extMissing_mono _ _ _ hsub (by simpa using hm)
        | false =>
          cases he : d.extension with
          | none => rfl
          | some e =>
            have := hext rfl e (by rw [hc]; exact he)
            simp [extMissing, this]
      simp only [this, Bool.and_false]
      exact h

/-! ## requirement list -/

theorem subset_require (reqs : List Bytes) (e : Bytes) : ∀ x ∈ reqs, x ∈ require reqs e := by
  intro x hx
  unfold require Machine.addExt
  split
  · exact hx
  · exact List.mem_append_left _ hx

theorem mem_require_self (reqs : List Bytes) (e : Bytes) (he : B.stripC 34 e = e) : e ∈ require reqs e := by
  unfold require Machine.addExt
  rw [he]
  split
  · rename_i h; simpa using h
  · simp

theorem subset_requireOpt (reqs : List Bytes) (o : Option Bytes) : ∀ x ∈ reqs, x ∈ requireOpt reqs o := by
  cases o with
  | none => intro x hx; exact hx
  | some e => exact subset_require reqs e

/-! ## table facts -/

/-- every pair of `l` is a pair of the dictionary `dict` -/
def pairsIn (l dict : List (Bytes × Bytes)) : Bool := l.all fun p => extLookup dict p.1 == some p.2

/-- slots of a test that receives match tags: no slot-level extension; value extensions are those of `match_type` -/
def testSlotsOK (cfg : Cfg) (d : CmdDef) : Bool :=
  d.args.all fun a => a.extension.isNone && pairsIn a.extValues cfg.matchExt

/-- slots of a command used as an action: value extensions only on pure tag slots and as `check_if_arg_is_extension`
    maps them; a slot-level extension sits on a pure tag slot whose tags are mapped to that very extension -/
def actSlotsOK (cfg : Cfg) (d : CmdDef) : Bool :=
  d.args.all fun a => (a.extValues.isEmpty || a.types == [.tag]) && pairsIn a.extValues cfg.argExt &&
    (match a.extension with
     | none => true
     | some e => a.types == [.tag] && a.extValues.isEmpty && (match a.values with
        | some vs => vs.all fun x => extLookup cfg.argExt x == some e
        | none => false))

def quoteFree (e : Bytes) : Bool := B.stripC 34 e == e

/-- the test classes the factory builds by name (all but `true` / `false` / the match-type test) -/
def matchNames : List Bytes := [sb "header", sb "envelope", sb "address", sb "body", sb "currentdate", sb "size", sb "exists"]

structure TableOK (cfg : Cfg) : Prop where
  tests : ∀ n ∈ matchNames, ∀ d, cfg.T.lookup n = some d → testSlotsOK cfg d = true
  acts : ∀ d ∈ cfg.T, d.kind ≠ .test → actSlotsOK cfg d = true
  names : ∀ d ∈ cfg.T, ∀ e, d.extension = some e → quoteFree e = true
  matchNamesOK : ∀ p ∈ cfg.matchExt, quoteFree p.2 = true
  matchNonEmpty : ∀ p ∈ cfg.matchExt, p.2 ≠ []
  argNames : ∀ p ∈ cfg.argExt, quoteFree p.2 = true
  envelope : ∀ d, cfg.T.lookup (sb "envelope") = some d → d.extension = none ∨ d.extension = some (sb "envelope")
  address : ∀ d, cfg.T.lookup (sb "address") = some d → d.extension = none

/-- `TableOK` as a computation (evaluated by the kernel on the table regenerated from `/repo`) -/
def tableOK (cfg : Cfg) : Bool :=
  matchNames.all (fun n => (cfg.T.lookup n).all (testSlotsOK cfg)) &&
  cfg.T.all (fun d => d.kind == .test || actSlotsOK cfg d) &&
  cfg.T.all (fun d => d.extension.all quoteFree) &&
  cfg.matchExt.all (fun p => quoteFree p.2 && !p.2.isEmpty) &&
  cfg.argExt.all (fun p => quoteFree p.2) &&
  (cfg.T.lookup (sb "envelope")).all (fun d => d.extension.isNone || d.extension == some (sb "envelope")) &&
  (cfg.T.lookup (sb "address")).all (fun d => d.extension.isNone)

theorem tableOK_sound (cfg : Cfg) (h : tableOK cfg = true) : TableOK cfg := by
  simp only [tableOK, Bool.and_eq_true, List.all_eq_true, Option.all_eq_true_iff_get, Bool.or_eq_true, beq_iff_eq,
    Bool.not_eq_true', Option.isNone_iff_eq_none] at h
  obtain ⟨⟨⟨⟨⟨⟨h1, h2⟩, h3⟩, h4⟩, h5⟩, h6⟩, h7⟩ := h
  refine ⟨?_, ?_, ?_, ?_, ?_, ?_, ?_, ?_⟩
  · intro n hn d hl
    have := h1 n hn
    rw [hl] at this
    simpa using this
  · intro d hd hk
    rcases h2 d hd with h | h
    · exact absurd h hk
    · exact h
  · intro d hd e he
    have := h3 d hd
    rw [he] at this
    simpa using this
  · intro p hp; exact (h4 p hp).1
  · intro p hp hemp
    have := (h4 p hp).2
    simp [hemp] at this
  · intro p hp; exact h5 p hp
  · intro d hl
    rw [hl] at h6
    simpa using h6
  · intro d hl
    rw [hl] at h7
    simpa using h7

theorem lookup_mem (T : Table) (n : Bytes) (d : CmdDef) (h : T.lookup n = some d) : d ∈ T := by
  unfold Table.lookup Table.findKey at h
  exact List.mem_of_find?_eq_some h

theorem extLookup_mem (l : List (Bytes × Bytes)) (k e : Bytes) (h : extLookup l k = some e) : ∃ p ∈ l, p.2 = e := by
  unfold extLookup at h
  cases hf : l.find? (fun p => p.1 == k) with
  | none => rw [hf] at h; simp at h
  | some p =>
    rw [hf] at h
    simp at h
    exact ⟨p, List.mem_of_find?_eq_some hf, h⟩

theorem extLookup_key (l : List (Bytes × Bytes)) (k e : Bytes) (h : extLookup l k = some e) : (k, e) ∈ l := by
  unfold extLookup at h
  cases hf : l.find? (fun p => p.1 == k) with
  | none => rw [hf] at h; simp at h
  | some p =>
    rw [hf] at h
    simp at h
    have hm := List.mem_of_find?_eq_some hf
    have hk := List.find?_some hf
    simp only [beq_iff_eq] at hk
    have : p = (k, e) := by cases p; simp_all
    rw [← this]; exact hm

theorem extLookup_pairsIn (l dict : List (Bytes × Bytes)) (k e : Bytes) (hp : pairsIn l dict = true)
    (h : extLookup l k = some e) : extLookup dict k = some e := by
  have hm := extLookup_key l k e h
  simp only [pairsIn, List.all_eq_true, beq_iff_eq] at hp
  exact hp (k, e) hm

/-! ## steps -/

def StepOK (cfg : Cfg) (d : CmdDef) : Step → Prop
  | .matchTag _ => testSlotsOK cfg d = true
  | _ => True

theorem runStep_sim (cfg : Cfg) (hs : cfg.strict = none) (hT : TableOK cfg) (reqs : List Bytes) (c c' : Cmd) (s : Step)
    (r : List Bytes) (h : runStep cfg reqs c s = (r, .ok c')) (hok : StepOK cfg c.d s) :
    (∀ x ∈ reqs, x ∈ r) ∧ c'.d = c.d ∧
    ∀ L, (∀ x ∈ r, x ∈ L) → (∀ x ∈ cfg.gl, x ∈ L) → runStep (cfg.strictWith L) reqs c s = (r, .ok c') := by
  cases s with
  | fail e => simp [runStep] at h
  | arg t v =>
    simp only [runStep, Prod.mk.injEq] at h
    obtain ⟨rfl, h⟩ := h
    refine ⟨fun x hx => hx, arg_d cfg c c' t v true h, ?_⟩
    intro L _ hgl
    simp only [runStep, Prod.mk.injEq, true_and]
    exact arg_sim_checked cfg hs c c' t v L hgl h
  | matchTag tag =>
    simp only [runStep, Prod.mk.injEq] at h
    obtain ⟨hr, h⟩ := h
    refine ⟨by rw [← hr]; exact subset_requireOpt _ _, arg_d cfg c c' _ _ false h, ?_⟩
    intro L hL hgl
    have hme : matchTagExt (cfg.strictWith L) tag = matchTagExt cfg tag := rfl
    simp only [runStep, hme, hr, Prod.mk.injEq, true_and]
    have hslots : ∀ a ∈ c.d.args, a.extension = none ∧ pairsIn a.extValues cfg.matchExt = true := by
      intro a ha
      have := hok
      simp only [StepOK, testSlotsOK, List.all_eq_true, Bool.and_eq_true, Option.isNone_iff_eq_none] at this
      exact this a ha
    apply arg_sim cfg hs c c' .tag (.str tag) false L h
    · intro a ha _ b hb
      apply vv_sim a _ cfg.gl L false b hb
      right
      intro raw e hraw hl
      injection hraw with hraw
      subst hraw
      have hl' := extLookup_pairsIn _ _ _ _ (hslots a ha).2 hl
      obtain ⟨p, hp, hpe⟩ := extLookup_mem _ _ _ hl'
      have hq := hT.matchNamesOK p hp
      rw [hpe] at hq
      have hne : e.isEmpty = false := by
        cases hem : e.isEmpty with
        | false => rfl
        | true =>
          have : e = [] := by simpa using hem
          exact absurd (by rw [hpe]; exact this) (hT.matchNonEmpty p hp)
      apply hL
      rw [← hr]
      unfold matchTagExt
      rw [hl']
      simp only [hne, Bool.false_eq_true, if_false, requireOpt]
      exact mem_require_self _ _ (by simpa [quoteFree] using hq)
    · intro a ha _ _ _ _
      rw [(hslots a ha).1]; rfl

/-- one argument of an action, re-done with every check on -/
theorem runAct_sim (cfg : Cfg) (hs : cfg.strict = none) (hT : TableOK cfg) (reqs : List Bytes) (c c' : Cmd) (v : Val)
    (r : List Bytes) (h : runAct cfg reqs c v = (r, .ok c')) (hok : actSlotsOK cfg c.d = true) :
    (∀ x ∈ reqs, x ∈ r) ∧ c'.d = c.d ∧
    ∀ L, (∀ x ∈ r, x ∈ L) → (∀ x ∈ cfg.gl, x ∈ L) → runAct (cfg.strictWith L) reqs c v = (r, .ok c') := by
    simp only [runAct, Prod.mk.injEq] at h
    obtain ⟨hr, h⟩ := h
    refine ⟨by rw [← hr]; exact subset_requireOpt _ _, arg_d cfg c c' _ _ false h, ?_⟩
    intro L hL hgl
    have hae : argExt (cfg.strictWith L) v = argExt cfg v := rfl
    simp only [runAct, hae, hr, Prod.mk.injEq, true_and]
    have hslots : ∀ a ∈ c.d.args, (a.extValues = [] ∨ a.types = [.tag]) ∧ pairsIn a.extValues cfg.argExt = true ∧
        (∀ e, a.extension = some e →
          a.types = [.tag] ∧ a.extValues = [] ∧ ∃ vs, a.values = some vs ∧ ∀ x ∈ vs, extLookup cfg.argExt x = some e) := by
      intro a ha
      have := hok
      simp only [actSlotsOK, List.all_eq_true, Bool.and_eq_true, Bool.or_eq_true, List.isEmpty_iff, beq_iff_eq] at this
      obtain ⟨⟨h0, h1⟩, h2⟩ := this a ha
      refine ⟨h0, h1, ?_⟩
      intro e he
      rw [he] at h2
      simp only [Bool.and_eq_true, beq_iff_eq, List.isEmpty_iff] at h2
      refine ⟨h2.1.1, h2.1.2, ?_⟩
      cases hv : a.values with
      | none => rw [hv] at h2; simp at h2
      | some vs =>
        rw [hv] at h2
        refine ⟨vs, rfl, ?_⟩
        intro x hx
        have := h2.2
        simp only [List.all_eq_true, beq_iff_eq] at this
        exact this x hx
    -- a value is handed over as a tag only if it is a `str` that starts with a colon
    have htagcall : (actCall v).1 = .tag → ∃ b, v = .s b ∧ actCall v = (.tag, .str b) := by
      intro htag
      cases v with
      | n k => simp [actCall] at htag
      | l items => simp [actCall] at htag
      | s b =>
        refine ⟨b, rfl, ?_⟩
        simp only [actCall] at htag ⊢
        by_cases hsw : B.startsWith b [58] = true
        · simp [hsw]
        · simp [hsw] at htag
    apply arg_sim cfg hs c c' _ _ false L h
    · intro a ha hcompat b hb
      apply vv_sim a _ cfg.gl L false b hb
      right
      intro raw e hraw hl
      rcases (hslots a ha).1 with h0 | h0
      · rw [h0] at hl; simp [extLookup] at hl
      · -- a pure tag slot: the value was handed over as a tag, so it is the `str` itself
        have htag : (actCall v).1 = .tag := by
          rw [h0] at hcompat
          rcases hcompat with hc | hc
          · simp only [validType, List.mem_singleton, Bool.or_eq_true, decide_eq_true_eq, Bool.and_eq_true, beq_iff_eq] at hc
            rcases hc with hc | ⟨_, hc⟩
            · exact hc
            · cases hc
          · simpa using hc
        obtain ⟨b0, hv0, hcall⟩ := htagcall htag
        rw [hcall] at hraw
        injection hraw with hraw
        subst hraw
        have hl' := extLookup_pairsIn _ _ _ _ (hslots a ha).2.1 hl
        obtain ⟨p, hp, hpe⟩ := extLookup_mem _ _ _ hl'
        have hq := hT.argNames p hp
        rw [hpe] at hq
        apply hL
        rw [← hr, hv0]
        simp only [argExt, hl', requireOpt]
        exact mem_require_self _ _ (by simpa [quoteFree] using hq)
    · intro a ha _ hty hvv _
      cases he : a.extension with
      | none => rfl
      | some e =>
        obtain ⟨htypes, hnoext, vs, hvs, hall⟩ := (hslots a ha).2.2 e he
        rw [htypes] at hty
        have htag : (actCall v).1 = .tag := by simpa using hty
        obtain ⟨b, hv0, hcall⟩ := htagcall htag
        rw [hcall] at hvv
        simp only at hvv
        have hin : B.lower b ∈ vs := by
          unfold validValue at hvv
          rw [hvs, hnoext] at hvv
          simp only [Option.isNone_some, Bool.false_and, Bool.false_eq_true, if_false, inValues, extLookup,
            List.find?_nil, Option.map_none] at hvv
          by_cases hm : B.lower b ∈ vs
          · exact hm
          · simp [hm] at hvv
        have hreq : e ∈ r := by
          rw [← hr, hv0]
          simp only [argExt, hall _ hin, requireOpt]
          obtain ⟨p, hp, hpe⟩ := extLookup_mem _ _ _ (hall _ hin)
          have hq := hT.argNames p hp
          rw [hpe] at hq
          exact mem_require_self _ _ (by simpa [quoteFree] using hq)
        simp [extMissing, hL e hreq]

theorem runSteps_sim (cfg : Cfg) (hs : cfg.strict = none) (hT : TableOK cfg) :
    ∀ (steps : List Step) (reqs : List Bytes) (c c' : Cmd) (r : List Bytes),
    runSteps cfg reqs c steps = (r, .ok c') → (∀ s ∈ steps, StepOK cfg c.d s) →
    (∀ x ∈ reqs, x ∈ r) ∧ c'.d = c.d ∧
    ∀ L, (∀ x ∈ r, x ∈ L) → (∀ x ∈ cfg.gl, x ∈ L) → runSteps (cfg.strictWith L) reqs c steps = (r, .ok c') := by
  intro steps
  induction steps with
  | nil =>
    intro reqs c c' r h _
    simp only [runSteps, Prod.mk.injEq, Except.ok.injEq] at h
    obtain ⟨rfl, rfl⟩ := h
    exact ⟨fun x hx => hx, rfl, fun L _ _ => rfl⟩
  | cons s rest ih =>
    intro reqs c c' r h hok
    unfold runSteps at h
    cases hst : runStep cfg reqs c s with
    | mk r1 res =>
      rw [hst] at h
      cases res with
      | error e => simp at h
      | ok c1 =>
        simp only at h
        obtain ⟨h1, hd1, hsim1⟩ := runStep_sim cfg hs hT reqs c c1 s r1 hst (hok s List.mem_cons_self)
        obtain ⟨h2, hd2, hsim2⟩ := ih r1 c1 c' r h (fun s' hs' => by rw [hd1]; exact hok s' (List.mem_cons_of_mem _ hs'))
        refine ⟨fun x hx => h2 x (h1 x hx), hd2.trans hd1, fun L hL hgl => ?_⟩
        unfold runSteps
        rw [hsim1 L (fun x hx => hL x (h2 x hx)) hgl]
        exact hsim2 L hL hgl

theorem runActs_sim (cfg : Cfg) (hs : cfg.strict = none) (hT : TableOK cfg) :
    ∀ (acts : List Val) (reqs : List Bytes) (c c' : Cmd) (r : List Bytes),
    runActs cfg reqs c acts = (r, .ok c') → (acts ≠ [] → actSlotsOK cfg c.d = true) →
    (∀ x ∈ reqs, x ∈ r) ∧ c'.d = c.d ∧
    ∀ L, (∀ x ∈ r, x ∈ L) → (∀ x ∈ cfg.gl, x ∈ L) → runActs (cfg.strictWith L) reqs c acts = (r, .ok c') := by
  intro acts
  induction acts with
  | nil =>
    intro reqs c c' r h _
    simp only [runActs, Prod.mk.injEq, Except.ok.injEq] at h
    obtain ⟨rfl, rfl⟩ := h
    exact ⟨fun x hx => hx, rfl, fun L _ _ => rfl⟩
  | cons v rest ih =>
    intro reqs c c' r h hok
    have hslots := hok (by simp)
    unfold runActs at h
    cases hst : runAct cfg reqs c v with
    | mk r1 res =>
      rw [hst] at h
      cases res with
      | error e => simp at h
      | ok c1 =>
        simp only at h
        obtain ⟨h1, hd1, hsim1⟩ := runAct_sim cfg hs hT reqs c c1 v r1 hst hslots
        obtain ⟨h2, hd2, hsim2⟩ := ih r1 c1 c' r h (fun _ => by rw [hd1]; exact hslots)
        refine ⟨fun x hx => h2 x (h1 x hx), hd2.trans hd1, fun L hL hgl => ?_⟩
        unfold runActs
        rw [hsim1 L (fun x hx => hL x (h2 x hx)) hgl]
        exact hsim2 L hL hgl

/-! ## plans -/

def coverOK (d : CmdDef) : Cover → Prop
  | .lit e => (d.extension = none ∨ d.extension = some e) ∧ quoteFree e = true
  | .nothing => d.extension = none
  | _ => True

def PlanOK (cfg : Cfg) (p : Plan) : Prop :=
  ∀ d, cfg.T.lookup p.name = some d →
    coverOK d p.cover ∧ (∀ s ∈ p.steps, StepOK cfg d s) ∧ (p.acts ≠ [] → actSlotsOK cfg d = true)

theorem runPlan_sim (cfg : Cfg) (hs : cfg.strict = none) (hT : TableOK cfg) (reqs : List Bytes) (p : Plan)
    (r : List Bytes) (c : Cmd) (h : runPlan cfg reqs p = (r, .ok c)) (hp : PlanOK cfg p) :
    (∀ x ∈ reqs, x ∈ r) ∧
    ∀ L, (∀ x ∈ r, x ∈ L) → (∀ x ∈ cfg.gl, x ∈ L) → runPlan (cfg.strictWith L) reqs p = (r, .ok c) := by
  unfold runPlan at h
  cases hn : newCmd cfg p.name (p.cover == .checked) with
  | error e => rw [hn] at h; simp at h
  | ok cmd =>
    rw [hn] at h
    simp only at h
    obtain ⟨hlk, _, _⟩ := newCmd_lookup cfg _ _ cmd hn
    obtain ⟨hcov, hsteps, hacts⟩ := hp cmd.d hlk
    have hmem : cmd.d ∈ cfg.T := lookup_mem _ _ _ hlk
    cases hc : coverReqs reqs cmd.d p.cover with
    | mk r0 res =>
      rw [hc] at h
      cases res with
      | error e => simp at h
      | ok u =>
        simp only at h
        cases hrs : runSteps cfg r0 cmd p.steps with
        | mk r1 res1 =>
          rw [hrs] at h
          cases res1 with
          | error e => simp [Out.andThen] at h
          | ok c1 =>
            simp only [Out.andThen] at h
            obtain ⟨h1, hd1, hsim1⟩ := runSteps_sim cfg hs hT p.steps r0 cmd c1 r1 hrs hsteps
            obtain ⟨h2, _, hsim2⟩ := runActs_sim cfg hs hT p.acts r1 c1 c r h (fun hne => by rw [hd1]; exact hacts hne)
            -- what the cover step did
            have hcover : (∀ x ∈ reqs, x ∈ r0) ∧
                ((p.cover == .checked) = false → ∀ e, cmd.d.extension = some e → e ∈ r0) := by
              cases hcv : p.cover with
              | checked =>
                rw [hcv] at hc
                simp only [coverReqs, Prod.mk.injEq] at hc
                exact ⟨fun x hx => by rw [← hc.1]; exact hx, by intro hne; simp at hne⟩
              | nothing =>
                rw [hcv] at hc hcov
                simp only [coverReqs, Prod.mk.injEq] at hc
                refine ⟨fun x hx => by rw [← hc.1]; exact hx, ?_⟩
                intro _ e he
                simp only [coverOK] at hcov
                rw [hcov] at he; cases he
              | lit e0 =>
                rw [hcv] at hc hcov
                simp only [coverReqs, Prod.mk.injEq] at hc
                refine ⟨fun x hx => by rw [← hc.1]; exact subset_require _ _ x hx, ?_⟩
                intro _ e he
                simp only [coverOK] at hcov
                rcases hcov.1 with h0 | h0
                · rw [h0] at he; cases he
                · rw [h0] at he
                  injection he with he
                  subst he
                  rw [← hc.1]
                  exact mem_require_self _ _ (by simpa [quoteFree] using hcov.2)
              | ownIfAny =>
                rw [hcv] at hc
                simp only [coverReqs, Prod.mk.injEq] at hc
                refine ⟨fun x hx => by rw [← hc.1]; exact subset_requireOpt _ _ x hx, ?_⟩
                intro _ e he
                rw [← hc.1, he]
                simp only [requireOpt]
                exact mem_require_self _ _ (by simpa [quoteFree] using hT.names cmd.d hmem e he)
              | own =>
                rw [hcv] at hc
                simp only [coverReqs] at hc
                cases hx : cmd.d.extension with
                | none => rw [hx] at hc; simp at hc
                | some e0 =>
                  rw [hx] at hc
                  simp only [Prod.mk.injEq] at hc
                  refine ⟨fun x hx' => by rw [← hc.1]; exact subset_require _ _ x hx', ?_⟩
                  intro _ e he
                  injection he with he
                  subst he
                  rw [← hc.1]
                  exact mem_require_self _ _ (by simpa [quoteFree] using hT.names cmd.d hmem e0 hx)
            refine ⟨fun x hx => h2 x (h1 x (hcover.1 x hx)), fun L hL hgl => ?_⟩
            unfold runPlan
            rw [newCmd_sim cfg hs _ _ cmd L hn hgl
              (fun hck e he => hL e (h2 e (h1 e (hcover.2 (by simpa using hck) e he))))]
            simp only [hc]
            rw [hsim1 L (fun x hx => hL x (h2 x hx)) hgl]
            simp only [Out.andThen]
            exact hsim2 L hL hgl

theorem planOK_test (cfg : Cfg) (hT : TableOK cfg) (p : Plan) (hn : p.name ∈ matchNames) (ha : p.acts = [])
    (hcov : ∀ d, cfg.T.lookup p.name = some d → coverOK d p.cover) : PlanOK cfg p := by
  intro d hl
  refine ⟨hcov d hl, ?_, by intro h; exact absurd ha h⟩
  intro s _
  cases s with
  | matchTag t => exact hT.tests p.name hn d hl
  | arg t v => trivial
  | fail e => trivial

theorem planFor_ok (cfg : Cfg) (hT : TableOK cfg) (c : List Val) (c0 : Val) (neg0 : Bool) (k : CondKind) (p : Plan)
    (neg : Bool) (h : planFor c c0 neg0 k = .ok (p, neg)) : PlanOK cfg p := by
  cases k with
  | truefalse =>
    simp only [planFor] at h
    cases hs : strOf c0 with
    | error e => rw [hs] at h; simp [Except.map] at h
    | ok nm =>
      rw [hs] at h
      simp only [Except.map, Except.ok.injEq, Prod.mk.injEq] at h
      obtain ⟨rfl, _⟩ := h
      intro d _
      exact ⟨trivial, by intro s hs'; simp at hs', by intro hne; simp at hne⟩
  | size =>
    simp only [planFor, Except.ok.injEq, Prod.mk.injEq] at h
    obtain ⟨rfl, _⟩ := h
    exact planOK_test cfg hT _ (by simp [matchNames]) rfl (fun _ _ => trivial)
  | exists_ =>
    simp only [planFor, Except.ok.injEq, Prod.mk.injEq] at h
    obtain ⟨rfl, _⟩ := h
    exact planOK_test cfg hT _ (by simp [matchNames]) rfl (fun _ _ => trivial)
  | envelope =>
    simp only [planFor, Except.ok.injEq, Prod.mk.injEq] at h
    obtain ⟨rfl, _⟩ := h
    exact planOK_test cfg hT _ (by simp [matchNames]) rfl (fun d hl => ⟨hT.envelope d hl, by decide⟩)
  | address =>
    simp only [planFor, Except.ok.injEq, Prod.mk.injEq] at h
    obtain ⟨rfl, _⟩ := h
    exact planOK_test cfg hT _ (by simp [matchNames]) rfl (fun d hl => hT.address d hl)
  | body =>
    simp only [planFor, Except.ok.injEq, Prod.mk.injEq] at h
    obtain ⟨rfl, _⟩ := h
    exact planOK_test cfg hT _ (by simp [matchNames]) rfl (fun _ _ => trivial)
  | currentdate =>
    simp only [planFor, Except.ok.injEq, Prod.mk.injEq] at h
    obtain ⟨rfl, _⟩ := h
    exact planOK_test cfg hT _ (by simp [matchNames]) rfl (fun _ _ => trivial)
  | header =>
    simp only [planFor] at h
    cases hs : (do strOf (← idx c 1) : Except Err Bytes) with
    | error e => rw [hs] at h; simp [Except.map] at h
    | ok t1 =>
      rw [hs] at h
      simp only [Except.map, Except.ok.injEq] at h
      split at h
      · simp only [Prod.mk.injEq] at h
        obtain ⟨rfl, _⟩ := h
        exact planOK_test cfg hT _ (by simp [headerPlan, matchNames]) rfl (fun _ _ => trivial)
      · simp only [Prod.mk.injEq] at h
        obtain ⟨rfl, _⟩ := h
        exact planOK_test cfg hT _ (by simp [headerPlan, matchNames]) rfl (fun _ _ => trivial)

theorem condPlan_ok (cfg : Cfg) (hT : TableOK cfg) (c : List Val) (p : Plan) (neg : Bool)
    (h : condPlan c = .ok (p, neg)) : PlanOK cfg p := by
  cases c with
  | nil => simp [condPlan] at h
  | cons c0 rest =>
    cases c0 with
    | n k => simp [condPlan] at h
    | l items => exact planFor_ok cfg hT (Val.l items :: rest) (Val.l items) false (kindOf none) p neg h
    | s b =>
      exact planFor_ok cfg hT (Val.s b :: rest) (Val.s b) (B.startsWith b (sb "not"))
        (kindOf (some (if B.startsWith b (sb "not") then dropNotFirst b else b))) p neg h

/-- an action names a control or an action (not a test) -/
def ActOK (cfg : Cfg) (act : List Val) : Prop :=
  ∀ name, act.head? = some (.s name) → ∀ d, cfg.T.lookup name = some d → d.kind ≠ .test

theorem actionPlan_ok (cfg : Cfg) (hT : TableOK cfg) (act : List Val) (p : Plan) (ha : ActOK cfg act)
    (h : actionPlan act = .ok p) : PlanOK cfg p := by
  unfold actionPlan at h
  split at h
  · simp at h
  · rename_i a0 args
    cases hs : strOf a0 with
    | error e => rw [hs] at h; simp [Except.map] at h
    | ok name =>
      rw [hs] at h
      simp only [Except.map, Except.ok.injEq] at h
      subst h
      have ha0 : a0 = .s name := by
        cases a0 <;> simp [strOf] at hs
        rw [hs]
      intro d hl
      refine ⟨trivial, by intro s hs'; simp at hs', fun _ => ?_⟩
      exact hT.acts d (lookup_mem _ _ _ hl) (ha name (by simp [ha0]) d hl)

/-! ## the construction -/

theorem buildCond_sim (cfg : Cfg) (hs : cfg.strict = none) (hT : TableOK cfg) (reqs : List Bytes) (c : List Val)
    (r : List Bytes) (n : Node) (h : buildCond cfg reqs c = (r, .ok n)) :
    (∀ x ∈ reqs, x ∈ r) ∧
    ∀ L, (∀ x ∈ r, x ∈ L) → (∀ x ∈ cfg.gl, x ∈ L) → buildCond (cfg.strictWith L) reqs c = (r, .ok n) := by
  unfold buildCond at h
  cases hp : condPlan c with
  | error e => rw [hp] at h; simp at h
  | ok pn =>
    obtain ⟨plan, neg⟩ := pn
    rw [hp] at h
    simp only at h
    cases hr : runPlan cfg reqs plan with
    | mk r1 res =>
      rw [hr] at h
      cases res with
      | error e => simp [Out.andThen] at h
      | ok cmd =>
        simp only [Out.andThen] at h
        obtain ⟨h1, hsim⟩ := runPlan_sim cfg hs hT reqs plan r1 cmd hr (condPlan_ok cfg hT c plan neg hp)
        cases neg with
        | false =>
          simp only [Bool.false_eq_true, if_false, Prod.mk.injEq, Except.ok.injEq] at h
          obtain ⟨rfl, rfl⟩ := h
          refine ⟨h1, fun L hL hgl => ?_⟩
          unfold buildCond
          simp only [hp, hsim L hL hgl, Out.andThen, Bool.false_eq_true, if_false]
        | true =>
          simp only [if_true] at h
          cases hn : newCmd cfg (sb "not") with
          | error e => rw [hn] at h; simp at h
          | ok nc =>
            rw [hn] at h
            simp only [Prod.mk.injEq] at h
            obtain ⟨rfl, h⟩ := h
            cases ha : nc.arg cfg .test (.test cmd.node) with
            | error e => rw [ha] at h; simp [Except.map] at h
            | ok nc' =>
              rw [ha] at h
              simp only [Except.map, Except.ok.injEq] at h
              subst h
              refine ⟨h1, fun L hL hgl => ?_⟩
              unfold buildCond
              simp only [hp, hsim L hL hgl, Out.andThen, if_true]
              rw [newCmd_sim cfg hs _ _ nc L hn hgl (by intro hck; simp at hck)]
              simp only [arg_sim_checked cfg hs nc nc' _ _ L hgl ha, Except.map]

theorem buildConds_sim (cfg : Cfg) (hs : cfg.strict = none) (hT : TableOK cfg) :
    ∀ (conds : List (List Val)) (reqs : List Bytes) (mt mt' : Cmd) (r : List Bytes),
    buildConds cfg reqs mt conds = (r, .ok mt') →
    (∀ x ∈ reqs, x ∈ r) ∧
    ∀ L, (∀ x ∈ r, x ∈ L) → (∀ x ∈ cfg.gl, x ∈ L) → buildConds (cfg.strictWith L) reqs mt conds = (r, .ok mt') := by
  intro conds
  induction conds with
  | nil =>
    intro reqs mt mt' r h
    simp only [buildConds, Prod.mk.injEq, Except.ok.injEq] at h
    obtain ⟨rfl, rfl⟩ := h
    exact ⟨fun x hx => hx, fun L _ _ => rfl⟩
  | cons c rest ih =>
    intro reqs mt mt' r h
    unfold buildConds at h
    cases hc : buildCond cfg reqs c with
    | mk r1 res =>
      rw [hc] at h
      cases res with
      | error e => simp [Out.andThen] at h
      | ok n =>
        simp only [Out.andThen] at h
        obtain ⟨h1, hsim1⟩ := buildCond_sim cfg hs hT reqs c r1 n hc
        cases ha : mt.arg cfg .test (.test n) with
        | error e => rw [ha] at h; simp at h
        | ok mt1 =>
          rw [ha] at h
          simp only at h
          obtain ⟨h2, hsim2⟩ := ih r1 mt1 mt' r h
          refine ⟨fun x hx => h2 x (h1 x hx), fun L hL hgl => ?_⟩
          unfold buildConds
          simp only [hsim1 L (fun x hx => hL x (h2 x hx)) hgl, Out.andThen,
            arg_sim_checked cfg hs mt mt1 _ _ L hgl ha]
          exact hsim2 L hL hgl

theorem buildAction_sim (cfg : Cfg) (hs : cfg.strict = none) (hT : TableOK cfg) (reqs : List Bytes) (act : List Val)
    (ha : ActOK cfg act) (r : List Bytes) (n : Node) (h : buildAction cfg reqs act = (r, .ok n)) :
    (∀ x ∈ reqs, x ∈ r) ∧
    ∀ L, (∀ x ∈ r, x ∈ L) → (∀ x ∈ cfg.gl, x ∈ L) → buildAction (cfg.strictWith L) reqs act = (r, .ok n) := by
  unfold buildAction at h
  cases hp : actionPlan act with
  | error e => rw [hp] at h; simp at h
  | ok plan =>
    rw [hp] at h
    simp only at h
    cases hr : runPlan cfg reqs plan with
    | mk r1 res =>
      rw [hr] at h
      cases res with
      | error e => simp [Out.andThen] at h
      | ok cmd =>
        simp only [Out.andThen, Prod.mk.injEq, Except.ok.injEq] at h
        obtain ⟨rfl, rfl⟩ := h
        obtain ⟨h1, hsim⟩ := runPlan_sim cfg hs hT reqs plan r1 cmd hr (actionPlan_ok cfg hT act plan ha hp)
        refine ⟨h1, fun L hL hgl => ?_⟩
        unfold buildAction
        simp only [hp, hsim L hL hgl, Out.andThen]

theorem buildActions_sim (cfg : Cfg) (hs : cfg.strict = none) (hT : TableOK cfg) :
    ∀ (acts : List (List Val)) (reqs : List Bytes) (ifc ifc' : Cmd) (r : List Bytes),
    (∀ a ∈ acts, ActOK cfg a) → buildActions cfg reqs ifc acts = (r, .ok ifc') →
    (∀ x ∈ reqs, x ∈ r) ∧
    ∀ L, (∀ x ∈ r, x ∈ L) → (∀ x ∈ cfg.gl, x ∈ L) → buildActions (cfg.strictWith L) reqs ifc acts = (r, .ok ifc') := by
  intro acts
  induction acts with
  | nil =>
    intro reqs ifc ifc' r _ h
    simp only [buildActions, Prod.mk.injEq, Except.ok.injEq] at h
    obtain ⟨rfl, rfl⟩ := h
    exact ⟨fun x hx => hx, fun L _ _ => rfl⟩
  | cons a rest ih =>
    intro reqs ifc ifc' r hok h
    unfold buildActions at h
    cases hc : buildAction cfg reqs a with
    | mk r1 res =>
      rw [hc] at h
      cases res with
      | error e => simp [Out.andThen] at h
      | ok n =>
        simp only [Out.andThen] at h
        obtain ⟨h1, hsim1⟩ := buildAction_sim cfg hs hT reqs a (hok a List.mem_cons_self) r1 n hc
        obtain ⟨h2, hsim2⟩ := ih r1 _ ifc' r (fun x hx => hok x (List.mem_cons_of_mem _ hx)) h
        refine ⟨fun x hx => h2 x (h1 x hx), fun L hL hgl => ?_⟩
        unfold buildActions
        simp only [hsim1 L (fun x hx => hL x (h2 x hx)) hgl, Out.andThen]
        exact hsim2 L hL hgl

/-- **the requirement list covers the construction**: re-doing `__create_filter` with every extension check on,
    against any list that contains the requirement list it produced (and what was loaded globally), gives the same tree -/
theorem createFilter_sim (cfg : Cfg) (hs : cfg.strict = none) (hT : TableOK cfg) (reqs : List Bytes)
    (conds acts : List (List Val)) (mtype : Bytes) (hacts : ∀ a ∈ acts, ActOK cfg a) (r : List Bytes) (n : Node)
    (h : createFilter cfg reqs conds acts mtype = (r, .ok n)) :
    (∀ x ∈ reqs, x ∈ r) ∧
    ∀ L, (∀ x ∈ r, x ∈ L) → (∀ x ∈ cfg.gl, x ∈ L) →
      createFilter (cfg.strictWith L) reqs conds acts mtype = (r, .ok n) := by
  unfold createFilter at h
  cases hi : newCmd cfg (sb "if") with
  | error e => rw [hi] at h; simp at h
  | ok ifc =>
    rw [hi] at h
    simp only at h
    cases hm : newCmd cfg mtype with
    | error e => rw [hm] at h; simp at h
    | ok mt =>
      rw [hm] at h
      simp only at h
      cases hc : buildConds cfg reqs mt conds with
      | mk r1 res =>
        rw [hc] at h
        cases res with
        | error e => simp [Out.andThen] at h
        | ok mt' =>
          simp only [Out.andThen] at h
          obtain ⟨h1, hsim1⟩ := buildConds_sim cfg hs hT conds reqs mt mt' r1 hc
          cases ha : ifc.arg cfg .test (.test mt'.node) with
          | error e => rw [ha] at h; simp at h
          | ok ifc1 =>
            rw [ha] at h
            simp only at h
            cases hb : buildActions cfg r1 ifc1 acts with
            | mk r2 res2 =>
              rw [hb] at h
              cases res2 with
              | error e => simp at h
              | ok ifc2 =>
                simp only [Prod.mk.injEq, Except.ok.injEq] at h
                obtain ⟨rfl, rfl⟩ := h
                obtain ⟨h2, hsim2⟩ := buildActions_sim cfg hs hT acts r1 ifc1 ifc2 r2 hacts hb
                refine ⟨fun x hx => h2 x (h1 x hx), fun L hL hgl => ?_⟩
                unfold createFilter
                rw [newCmd_sim cfg hs _ _ ifc L hi hgl (by intro hck; simp at hck),
                  newCmd_sim cfg hs _ _ mt L hm hgl (by intro hck; simp at hck)]
                simp only [hsim1 L (fun x hx => hL x (h2 x hx)) hgl, Out.andThen,
                  arg_sim_checked cfg hs ifc ifc1 _ _ L hgl ha, hsim2 L hL hgl]

end Factory
