import SieveModel.Lemmas.ArgsSafe
import SieveModel.Lemmas.Machine
/-!
# Table conditions and the machine invariant behind "parse never raises, never hangs" (C02)

`cmdSafe` is a decidable condition on one command definition; `TableSafe T` asks it of every
definition.  It is discharged for the live table by evaluation in `Props/C02.lean`.
-/
namespace Safe
open Machine Args ArgsSafe

def TableSafe (T : Table) : Prop := ∀ d ∈ T, cmdSafe d = true

instance (T : Table) : Decidable (TableSafe T) := by unfold TableSafe; infer_instance

end Safe

namespace Safe
open Machine Args ArgsSafe

theorem requiredCount_cons (d : ArgDef) (rest : List ArgDef) :
    requiredCount (d :: rest) = (if d.required then 1 else 0) + requiredCount rest := by
  unfold requiredCount
  by_cases h : d.required = true <;> simp [List.filter_cons, h] <;> omega

theorem requiredCount_append (a b : List ArgDef) : requiredCount (a ++ b) = requiredCount a + requiredCount b := by
  unfold requiredCount; simp [List.filter_append]

/-- what a successful slot scan did -/
inductive ScanHit (ld : List Bytes) (ce add : Bool) (t : ArgType) (v : AVal) (st : CState) (pos : Nat)
    (pre : List ArgDef) (a : ArgDef) (st' : CState) (pl : Placement) : Prop where
  | testlistAdd (hr : a.required = true) (ht : a.types = [.testlist]) (htt : t = .test) (hadd : add = true)
      (args : List Arg) (happ : appendTest st.arguments a.name v = .ok args)
      (hst : st' = { st with arguments := args }) (hpl : pl = .elem a.name)
  | testlistSkip (hr : a.required = true) (ht : a.types = [.testlist]) (htt : t = .test) (hadd : add = false)
      (hst : st' = st) (hpl : pl = .nowhere)
  | required (hr : a.required = true) (ht : a.types ≠ [.testlist]) (hv : validType t a.types = true)
      (hres : (st', pl) = takeRequired add v st a (pos + pre.length)) (hval : validValue a v ld ce = .ok true)
  | optional (hr : a.required = false) (ht : t ∈ a.types) (hres : takeOptional ld ce add v st a = .ok (st', pl))
      (hval : validValue a v ld ce = .ok true)

theorem scan_cases (cmd : Bytes) (ld : List Bytes) (ce add : Bool) (t : ArgType) (v : AVal) (st : CState) :
    ∀ (defs : List ArgDef) (pos : Nat) (st' : CState) (pl : Placement),
    scan cmd ld ce add t v st defs pos = .ok (st', pl) →
    (st' = st ∧ pl = .nowhere ∧ requiredCount defs = 0) ∨
    ∃ pre a post, defs = pre ++ a :: post ∧ requiredCount pre = 0 ∧ ScanHit ld ce add t v st pos pre a st' pl := by
  intro defs
  induction defs with
  | nil =>
    intro pos st' pl h
    simp [scan] at h
    exact Or.inl ⟨h.1.symm, h.2.symm, rfl⟩
  | cons d rest ih =>
    intro pos st' pl h
    have recur : scan cmd ld ce add t v st rest (pos + 1) = .ok (st', pl) → d.required = false →
        (st' = st ∧ pl = .nowhere ∧ requiredCount (d :: rest) = 0) ∨
        ∃ pre a post, d :: rest = pre ++ a :: post ∧ requiredCount pre = 0 ∧ ScanHit ld ce add t v st pos pre a st' pl := by
      intro hrec hopt
      rcases ih (pos + 1) st' pl hrec with ⟨h1, h2, h3⟩ | ⟨pre, a, post, hd, hp, hit⟩
      · exact Or.inl ⟨h1, h2, by rw [requiredCount_cons]; simp [hopt, h3]⟩
      · refine Or.inr ⟨d :: pre, a, post, by simp [hd], by rw [requiredCount_cons]; simp [hopt, hp], ?_⟩
        have hlen : pos + 1 + pre.length = pos + (d :: pre).length := by simp; omega
        cases hit with
        | testlistAdd hr ht htt hadd args happ hst hpl => exact .testlistAdd hr ht htt hadd args happ hst hpl
        | testlistSkip hr ht htt hadd hst hpl => exact .testlistSkip hr ht htt hadd hst hpl
        | required hr ht hv hres hval => exact .required hr ht hv (by rw [← hlen]; exact hres) hval
        | optional hr ht hres hval => exact .optional hr ht hres hval
    unfold scan at h
    by_cases hreq : d.required = true
    · simp only [hreq, if_true] at h
      by_cases htl : (d.types == [.testlist]) = true
      · simp only [htl, if_true] at h
        have htl' : d.types = [.testlist] := by simpa using htl
        by_cases htest : (t != .test) = true
        · simp [htest] at h
        · have htt : t = .test := by simpa using htest
          simp only [htest, if_false] at h
          refine Or.inr ⟨[], d, rest, rfl, rfl, ?_⟩
          cases add with
          | true =>
            simp only [if_true] at h
            cases happ : appendTest st.arguments d.name v with
            | error e => rw [happ] at h; simp at h
            | ok args =>
              rw [happ] at h
              simp at h
              exact .testlistAdd hreq htl' htt rfl args happ h.1.symm h.2.symm
          | false =>
            simp at h
            exact .testlistSkip hreq htl' htt rfl h.1.symm h.2.symm
      · simp only [htl, if_false] at h
        have htl' : d.types ≠ [.testlist] := by simpa using htl
        by_cases hvt : validType t d.types = true
        · simp only [hvt, Bool.not_true, if_false] at h
          cases hvv : validValue d v ld ce with
          | error e => rw [hvv] at h; simp at h
          | ok b =>
            rw [hvv] at h
            cases b with
            | false => simp at h
            | true =>
              simp at h
              exact Or.inr ⟨[], d, rest, rfl, rfl, .required hreq htl' hvt (by simp [h]) hvv⟩
        · simp [hvt] at h
    · have hopt : d.required = false := by simpa using hreq
      simp only [hopt, Bool.false_eq_true, if_false] at h
      by_cases hin : t ∈ d.types
      · simp only [hin, decide_true, if_true] at h
        cases hvv : validValue d v ld ce with
        | error e => rw [hvv] at h; simp at h
        | ok b =>
          rw [hvv] at h
          simp only at h
          by_cases hc : (b && (decide (ArgType.tag ∈ d.types) || !assocHas st.arguments d.name)) = true
          · rw [if_pos hc] at h
            have hb : b = true := by
              simp only [Bool.and_eq_true] at hc; exact hc.1
            subst hb
            exact Or.inr ⟨[], d, rest, rfl, rfl, .optional hopt hin h hvv⟩
          · rw [if_neg hc] at h
            exact recur h hopt
      · simp only [hin, decide_false, if_false] at h
        exact recur h hopt

end Safe

namespace Safe
open Machine Args ArgsSafe

/-- per-frame invariant of the argument interpreter's state -/
structure StOK (d : CmdDef) (st : CState) : Prop where
  args : ArgsOK d st
  cur : ∀ c, st.curarg = some c → c ∈ d.args
  cnt : st.rargsCnt + requiredCount (d.args.drop st.nextargpos) = requiredCount d.args
        ∨ (st.rargsCnt = requiredCount d.args ∧ d.variableArgs = false)
  var : d.variableArgs = true → st.rargsCnt = 0 ∧ st.nextargpos = 0

theorem StOK.init (d : CmdDef) : StOK d {} := by
  refine ⟨?_, ?_, ?_, ?_⟩
  · intro _ x hx; simp at hx
  · intro c h; simp at h
  · left; simp
  · intro _; simp

theorem pendingOk_of_none (st : CState) (a : Option (ArgType × AVal)) (h : pendingExtra st = none) :
    pendingOk st a = true := by
  unfold pendingExtra at h
  unfold pendingOk
  cases hc : st.curarg with
  | none => simp
  | some c =>
    rw [hc] at h
    simp only at h ⊢
    cases he : c.extra with
    | none => simp
    | some e => rw [he] at h; simp at h

theorem incomplete_of (d : CmdDef) (st : CState) (a : Option (ArgType × AVal))
    (hn : isComplete d.variableArgs d.args st a = false) (hp : pendingExtra st = none) :
    d.variableArgs = true ∨ st.rargsCnt ≠ requiredCount d.args := by
  unfold isComplete at hn
  by_cases hv : d.variableArgs = true
  · exact Or.inl hv
  · right
    simp only [hv, Bool.false_eq_true, if_false, pendingOk_of_none st a hp, Bool.true_and] at hn
    simpa using hn

/-- unpack the conjuncts of `cmdSafe` -/
theorem cmdSafe_def (d : CmdDef) (h : cmdSafe d = true) : defSafe d = true := by
  simp only [cmdSafe, Bool.and_eq_true] at h; exact h.1.1.1.1.1.1

theorem cmdSafe_var_iff (d : CmdDef) (h : cmdSafe d = true) :
    d.variableArgs = d.args.any (fun a => a.types == [.testlist]) := by
  simp only [cmdSafe, Bool.and_eq_true] at h; simpa using h.1.1.1.1.1.2

theorem cmdSafe_var (d : CmdDef) (h : cmdSafe d = true) (hv : d.variableArgs = true) :
    d.kind = .test ∧ d.expectedFirst = some [.left_parenthesis] := by
  simp only [cmdSafe, Bool.and_eq_true] at h
  have := h.1.1.1.1.2
  simpa [hv] using this

theorem cmdSafe_host (d : CmdDef) (h : cmdSafe d = true) (hh : isHost d = true) :
    ∃ a, d.args = [a] ∧ hostSlotOK a = true ∧ d.kind ≠ .action ∧ d.nonDet = false ∧ d.special = .none := by
  simp only [cmdSafe, Bool.and_eq_true] at h
  have := h.1.1.1.2
  simp only [hh, Bool.not_true, Bool.false_or, Bool.and_eq_true] at this
  obtain ⟨⟨⟨⟨hlen, hall⟩, hk⟩, hnd⟩, hsp⟩ := this
  cases hargs : d.args with
  | nil => simp [hargs] at hlen
  | cons a rest =>
    cases rest with
    | cons b r => simp [hargs] at hlen
    | nil =>
      refine ⟨a, rfl, by simpa [hargs] using hall, by simpa using hk, by simpa using hnd, by simpa using hsp⟩

theorem cmdSafe_nondet (d : CmdDef) (h : cmdSafe d = true) (hn : d.nonDet = true ∨ d.special = .hasflag) :
    d.kind = .test ∧ requiredCount d.args = 1 := by
  simp only [cmdSafe, Bool.and_eq_true] at h
  have := h.1.1.2
  rcases hn with hn | hn <;> simpa [hn] using this

theorem cmdSafe_block (d : CmdDef) (h : cmdSafe d = true) (hc : d.acceptChildren = true) (hk : d.kind ≠ .test) :
    d.kind = .control ∧ (d.args = [] ∨ isHost d = true) := by
  simp only [cmdSafe, Bool.and_eq_true] at h
  have := h.1.2
  simp only [hc, Bool.not_true, Bool.false_or, Bool.or_eq_true, Bool.and_eq_true] at this
  rcases this with h1 | ⟨h1, h2⟩
  · exact absurd (by simpa using h1) hk
  · exact ⟨by simpa using h1, by simpa using h2⟩

theorem cmdSafe_extra (d : CmdDef) (h : cmdSafe d = true) (a : ArgDef) (ha : a ∈ d.args) : extraNoTest a = true := by
  simp only [cmdSafe, Bool.and_eq_true, List.all_eq_true] at h
  exact h.2 a ha

end Safe

namespace Safe
open Machine Args ArgsSafe

theorem checkNextArg_cases (d : CmdDef) (ld : List Bytes) (st : CState) (t : ArgType) (v : AVal) (add ce : Bool)
    (st' : CState) (pl : Placement) (h : checkNextArg d ld st t v add ce = .ok (some (st', pl))) :
    isComplete d.variableArgs d.args st (some (t, v)) = false ∧
    ((∃ c e, pendingExtra st = some (c, e) ∧ extraAccepts e t v = true ∧
        st' = { st with extraArgs := setArg add st.extraArgs (v.toArg c.name), curarg := none } ∧
        pl = (if add then .extra c.name else .nowhere)) ∨
     (pendingExtra st = none ∧
        scan d.name ld ce add t v st (d.args.drop st.nextargpos) st.nextargpos = .ok (st', pl))) := by
  unfold checkNextArg at h
  by_cases h1 : d.args.isEmpty = true
  · simp [h1] at h
  · simp only [h1, Bool.false_eq_true, if_false] at h
    by_cases h2 : isComplete d.variableArgs d.args st (some (t, v)) = true
    · simp [h2] at h
    · simp only [h2, Bool.false_eq_true, if_false] at h
      refine ⟨by simpa using h2, ?_⟩
      cases hp : pendingExtra st with
      | some ce' =>
        obtain ⟨c, e⟩ := ce'
        rw [hp] at h
        simp only at h
        by_cases h3 : extraAccepts e t v = true
        · simp only [h3, if_true, Except.ok.injEq, Option.some.injEq, Prod.mk.injEq] at h
          exact Or.inl ⟨c, e, rfl, h3, h.1.symm, h.2.symm⟩
        · simp [h3] at h
      | none =>
        rw [hp] at h
        simp only at h
        right
        refine ⟨rfl, ?_⟩
        cases hs : scan d.name ld ce add t v st (d.args.drop st.nextargpos) st.nextargpos with
        | error e => rw [hs] at h; simp at h
        | ok r =>
          rw [hs] at h
          simp only [Except.ok.injEq, Option.some.injEq] at h
          rw [h]

theorem drop_of_split {α} (l : List α) (n : Nat) (pre : List α) (a : α) (post : List α)
    (h : l.drop n = pre ++ a :: post) : l.drop (n + pre.length + 1) = post := by
  have : l.drop (n + pre.length + 1) = (l.drop n).drop (pre.length + 1) := by
    rw [List.drop_drop, Nat.add_assoc]
  rw [this, h]
  simp

/-- `check_next_arg` keeps the per-frame invariant -/
theorem checkNextArg_StOK (d : CmdDef) (hd : cmdSafe d = true) (ld : List Bytes) (st : CState) (t : ArgType)
    (v : AVal) (add ce : Bool) (hok : StOK d st) (hc : Consistent t v) (st' : CState) (pl : Placement)
    (h : checkNextArg d ld st t v add ce = .ok (some (st', pl))) : StOK d st' := by
  have hargs := (checkNextArg_safe d (cmdSafe_def d hd) ld st t v add ce hok.args hc).2 st' pl h
  obtain ⟨hnc, hcase⟩ := checkNextArg_cases d ld st t v add ce st' pl h
  rcases hcase with ⟨c, e, hp, _, hst, _⟩ | ⟨hp, hs⟩
  · subst hst
    exact ⟨hargs, by intro c h; simp at h, hok.cnt, hok.var⟩
  · rcases scan_cases d.name ld ce add t v st _ _ st' pl hs with ⟨h1, _, _⟩ | ⟨pre, a, post, hsplit, hpre, hit⟩
    · subst h1; exact hok
    · have hmem : a ∈ d.args := List.mem_of_mem_drop (by rw [hsplit]; simp)
      cases hit with
      | testlistAdd hr ht htt hadd args happ hst hpl =>
        subst hst; exact ⟨hargs, hok.cur, hok.cnt, hok.var⟩
      | testlistSkip hr ht htt hadd hst hpl => subst hst; exact hok
      | required hr ht hv hres =>
        simp only [takeRequired, Prod.mk.injEq] at hres
        obtain ⟨hst, _⟩ := hres
        subst hst
        refine ⟨hargs, ?_, ?_, ?_⟩
        · intro c hc'; simp at hc'; subst hc'; exact hmem
        · -- counting
          rcases incomplete_of d st _ hnc hp with hv' | hne
          · -- variable-args definitions have a single testlist slot: this branch is impossible
            exfalso
            have hany : d.args.any (fun a => a.types == [.testlist]) = true := by rw [← cmdSafe_var_iff d hd]; exact hv'
            obtain ⟨a', ha', hat, _⟩ := single_testlist d (cmdSafe_def d hd) hany
            rw [ha'] at hmem
            simp at hmem
            subst hmem
            exact ht hat
          · left
            rcases hok.cnt with hcnt | ⟨hcnt, _⟩
            · simp only
              rw [drop_of_split d.args st.nextargpos pre a post hsplit]
              rw [hsplit, requiredCount_append, requiredCount_cons, hpre] at hcnt
              simp [hr] at hcnt
              omega
            · exact absurd hcnt hne
        · intro hv'
          exfalso
          have hany : d.args.any (fun a => a.types == [.testlist]) = true := by rw [← cmdSafe_var_iff d hd]; exact hv'
          obtain ⟨a', ha', hat, _⟩ := single_testlist d (cmdSafe_def d hd) hany
          rw [ha'] at hmem
          simp at hmem
          subst hmem
          exact ht hat
      | optional hr ht hres =>
        unfold takeOptional at hres
        split at hres
        · simp at hres
        · split at hres
          · simp at hres
          · simp only [Except.ok.injEq, Prod.mk.injEq] at hres
            obtain ⟨hst, _⟩ := hres
            subst hst
            refine ⟨hargs, ?_, hok.cnt, hok.var⟩
            intro c hc'
            simp only at hc'
            split at hc'
            · simp at hc'; subst hc'; exact hmem
            · exact hok.cur c hc'

end Safe

namespace Safe
open Machine Args ArgsSafe

theorem pendingExtra_some (st : CState) (c : ArgDef) (e : ExtraDef) (h : pendingExtra st = some (c, e)) :
    st.curarg = some c ∧ c.extra = some e := by
  unfold pendingExtra at h
  cases hc : st.curarg with
  | none => rw [hc] at h; simp at h
  | some c' =>
    rw [hc] at h
    simp only at h
    cases he : c'.extra with
    | none => rw [he] at h; simp at h
    | some e' =>
      rw [he] at h
      simp only [Option.some.injEq, Prod.mk.injEq] at h
      obtain ⟨rfl, rfl⟩ := h
      exact ⟨rfl, he⟩

theorem var_single (d : CmdDef) (hd : cmdSafe d = true) (hv : d.variableArgs = true) :
    ∃ a, d.args = [a] ∧ a.types = [.testlist] ∧ a.required = true := by
  have hany : d.args.any (fun a => a.types == [.testlist]) = true := by rw [← cmdSafe_var_iff d hd]; exact hv
  exact single_testlist d (cmdSafe_def d hd) hany

/-- an incomplete command always has a required slot ahead: the slot loop never falls off the end -/
theorem no_fallthrough (d : CmdDef) (hd : cmdSafe d = true) (st : CState) (hok : StOK d st)
    (a : Option (ArgType × AVal)) (hnc : isComplete d.variableArgs d.args st a = false)
    (hp : pendingExtra st = none) : requiredCount (d.args.drop st.nextargpos) ≠ 0 := by
  intro h0
  rcases incomplete_of d st a hnc hp with hv | hne
  · obtain ⟨a', ha', _, hr⟩ := var_single d hd hv
    have := (hok.var hv).2
    rw [this, ha'] at h0
    simp [requiredCount, hr] at h0
  · rcases hok.cnt with hc | ⟨hc, _⟩
    · rw [h0] at hc; exact hne (by omega)
    · exact hne hc

def plOK (d : CmdDef) (pl : Placement) : Prop :=
  d.variableArgs = true → pl = .nowhere ∨ ∃ k, pl = .elem k

theorem host_slot_eq (d : CmdDef) (hd : cmdSafe d = true) (a : ArgDef) (ha : a ∈ d.args) (hs : isHostSlot a = true) :
    d.args = [a] ∧ hostSlotOK a = true ∧ d.kind ≠ .action ∧ d.nonDet = false ∧ d.special = .none := by
  have hh : isHost d = true := by
    simp only [isHost, List.any_eq_true]; exact ⟨a, ha, hs⟩
  obtain ⟨a0, h0, hok0, hk, hn, hsp⟩ := cmdSafe_host d hd hh
  rw [h0] at ha
  simp at ha
  subst ha
  exact ⟨h0, hok0, hk, hn, hsp⟩

/-- a command that accepts a test is a host; a single-test host is complete afterwards -/
theorem test_accept_host (d : CmdDef) (hd : cmdSafe d = true) (ld : List Bytes) (st : CState) (v : AVal)
    (add ce : Bool) (hok : StOK d st) (st' : CState) (pl : Placement)
    (h : checkNextArg d ld st .test v add ce = .ok (some (st', pl))) :
    isHost d = true ∧ (d.variableArgs = true ∨ isComplete d.variableArgs d.args st' none = true) ∧ plOK d pl := by
  obtain ⟨hnc, hcase⟩ := checkNextArg_cases d ld st .test v add ce st' pl h
  rcases hcase with ⟨c, e, hp, hacc, _, _⟩ | ⟨hp, hs⟩
  · exfalso
    obtain ⟨hcur, hce⟩ := pendingExtra_some st c e hp
    have hmem := hok.cur c hcur
    have := cmdSafe_extra d hd c hmem
    simp only [extraNoTest, hce, Bool.and_eq_true, Bool.not_eq_true', decide_eq_false_iff_not] at this
    simp only [extraAccepts, atypeIn, Bool.and_eq_true, Bool.or_eq_true, decide_eq_true_eq] at hacc
    rcases hacc.1 with h1 | h1
    · exact this.1 h1
    · simp at h1
  · rcases scan_cases d.name ld ce add .test v st _ _ st' pl hs with ⟨_, _, h0⟩ | ⟨pre, a, post, hsplit, hpre, hit⟩
    · exact absurd h0 (no_fallthrough d hd st hok _ hnc hp)
    · have hmem : a ∈ d.args := List.mem_of_mem_drop (by rw [hsplit]; simp)
      have tl_case : a.types = [.testlist] →
          isHost d = true ∧ d.variableArgs = true := by
        intro ht
        have hs' : isHostSlot a = true := by simp [isHostSlot, ht]
        refine ⟨by simp only [isHost, List.any_eq_true]; exact ⟨a, hmem, hs'⟩, ?_⟩
        rw [cmdSafe_var_iff d hd]
        simp only [List.any_eq_true]
        exact ⟨a, hmem, by simp [ht]⟩
      cases hit with
      | testlistAdd hr ht htt hadd args happ hst hpl =>
        obtain ⟨h1, h2⟩ := tl_case ht
        exact ⟨h1, Or.inl h2, fun _ => Or.inr ⟨a.name, hpl⟩⟩
      | testlistSkip hr ht htt hadd hst hpl =>
        obtain ⟨h1, h2⟩ := tl_case ht
        exact ⟨h1, Or.inl h2, fun _ => Or.inl hpl⟩
      | required hr ht hv hres =>
        have hin : ArgType.test ∈ a.types := by
          simp only [validType, Bool.or_eq_true, decide_eq_true_eq, Bool.and_eq_true] at hv
          rcases hv with h1 | h1
          · exact h1
          · simp at h1
        have hs' : isHostSlot a = true := by simp [isHostSlot, hin]
        obtain ⟨hargs, hslot, _, _, _⟩ := host_slot_eq d hd a hmem hs'
        simp only [hostSlotOK, Bool.and_eq_true, Bool.or_eq_true, beq_iff_eq] at hslot
        have htypes : a.types = [.test] := by
          rcases hslot.1.1.1.2 with h1 | h1
          · exact h1
          · exact absurd h1 ht
        have hnv : d.variableArgs = false := by
          rw [cmdSafe_var_iff d hd, hargs]
          simp [htypes]
        simp only [takeRequired, Prod.mk.injEq] at hres
        obtain ⟨hst, _⟩ := hres
        refine ⟨by simp only [isHost, List.any_eq_true]; exact ⟨a, hmem, hs'⟩, Or.inr ?_, fun hv' => by rw [hnv] at hv'; simp at hv'⟩
        have hcnt0 : st.rargsCnt = 0 := by
          rcases incomplete_of d st _ hnc hp with hv' | hne
          · rw [hnv] at hv'; simp at hv'
          · rcases hok.cnt with hc | ⟨hc, _⟩
            · rw [hargs] at hc hne
              simp only [requiredCount_cons, hr, if_true] at hc hne
              simp [requiredCount] at hc hne
              omega
            · exact absurd hc hne
        subst hst
        simp only [isComplete, hnv, Bool.false_eq_true, if_false, pendingOk, Bool.and_eq_true]
        have hex : a.extra = none := by simpa using hslot.1.1.2
        simp only [hex, true_and]
        rw [hargs, hcnt0]
        simp [requiredCount, hr]
      | optional hr ht hres =>
        exfalso
        have hs' : isHostSlot a = true := by simp [isHostSlot, ht]
        obtain ⟨_, hslot, _, _, _⟩ := host_slot_eq d hd a hmem hs'
        simp only [hostSlotOK, Bool.and_eq_true] at hslot
        rw [hr] at hslot
        simp at hslot

/-- a command that takes tests accepts nothing else -/
theorem host_rejects_scalar (d : CmdDef) (hd : cmdSafe d = true) (hh : isHost d = true) (ld : List Bytes)
    (st : CState) (t : ArgType) (v : AVal) (add ce : Bool) (hok : StOK d st) (ht : t ≠ .test)
    (st' : CState) (pl : Placement) : checkNextArg d ld st t v add ce ≠ .ok (some (st', pl)) := by
  intro h
  obtain ⟨a0, hargs, hslot0, _, _, _⟩ := cmdSafe_host d hd hh
  obtain ⟨hnc, hcase⟩ := checkNextArg_cases d ld st t v add ce st' pl h
  simp only [hostSlotOK, Bool.and_eq_true, Bool.or_eq_true, beq_iff_eq] at hslot0
  rcases hcase with ⟨c, e, hp, _, _, _⟩ | ⟨hp, hs⟩
  · obtain ⟨hcur, hce⟩ := pendingExtra_some st c e hp
    have hmem := hok.cur c hcur
    rw [hargs] at hmem
    simp at hmem
    subst hmem
    have : c.extra = none := by simpa using hslot0.1.1.2
    rw [this] at hce
    simp at hce
  · rcases scan_cases d.name ld ce add t v st _ _ st' pl hs with ⟨_, _, h0⟩ | ⟨pre, a, post, hsplit, hpre, hit⟩
    · exact absurd h0 (no_fallthrough d hd st hok _ hnc hp)
    · have hmem : a ∈ d.args := List.mem_of_mem_drop (by rw [hsplit]; simp)
      rw [hargs] at hmem
      simp at hmem
      subst hmem
      cases hit with
      | testlistAdd hr _ htt _ _ _ _ _ => exact ht htt
      | testlistSkip hr _ htt _ _ _ => exact ht htt
      | required hr hnt hv hres =>
        have htypes : a.types = [.test] := by
          rcases hslot0.1.1.1.2 with h1 | h1
          · exact h1
          · exact absurd h1 hnt
        simp only [validType, htypes, Bool.or_eq_true, decide_eq_true_eq, Bool.and_eq_true, List.mem_singleton] at hv
        rcases hv with h1 | h1
        · exact ht h1
        · simp at h1
      | optional hr _ _ =>
        rw [hr] at hslot0
        simp at hslot0

end Safe
