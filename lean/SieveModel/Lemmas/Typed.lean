import SieveModel.Lemmas.TokThread
import SieveModel.Lemmas.Printable
/-!
# Every argument of an accepted tree is a token of the script, of a kind its slot admits

`NodeT TokP T n`: in the tree below `n`, every node's definition was looked up for an identifier token; every scalar
argument is the text of a string / multi-line / number / tag token, stored under the name of a slot of the node's
definition whose types admit that kind of token (`__is_valid_type`); every list argument sits in a slot that admits
string lists; every tag parameter is such a token text stored under a slot whose `extra_arg` admits its type.
`accepted_tree_typed`: the result of an accepted parse is a forest of such nodes, `TokP` being "is a token of the
lexed script".  Table condition (decidable): the two slots `reassign_arguments` moves a value between have the same types.
-/
namespace Typed
open Machine Args ArgsSafe TokThread

/-- `raw` is the text of a scalar token, offered under the argument type `t` of its kind -/
def TokArg (TokP : Tok → Prop) (raw : Bytes) (t : ArgType) : Prop :=
  ∃ tok, TokP tok ∧ tok.text = raw ∧
    (((tok.kind = .string ∨ tok.kind = .multiline) ∧ t = .string) ∨ (tok.kind = .number ∧ t = .number) ∨
      (tok.kind = .tag ∧ t = .tag))

/-- the value set of a slot admits the text (case-insensitively), or the slot has no value set -/
def valueIn (a : ArgDef) (raw : Bytes) : Prop :=
  (a.values.isNone = true ∧ a.extValues.isEmpty = true) ∨ inValues a.values (B.lower raw) = true ∨
    (extLookup a.extValues (B.lower raw)).isSome = true

/-- a recorded argument sits in a slot of the definition that admits its kind and its value -/
def ArgT (TokP : Tok → Prop) (d : CmdDef) : Arg → Prop
  | .str k raw => ∃ a ∈ d.args, a.name = k ∧ valueIn a raw ∧ ∃ t, TokArg TokP raw t ∧ validType t a.types = true
  | .strs k l => (∃ a ∈ d.args, a.name = k ∧ validType .stringlist a.types = true ∧
      a.values.isNone = true ∧ a.extValues.isEmpty = true) ∧ ItemsP TokP l
  | _ => True

/-- the value list of a tag parameter admits the text exactly, or there is none -/
def paramIn (e : ExtraDef) (raw : Bytes) : Prop :=
  match e.values with
  | none => True
  | some vs => raw ∈ vs

/-- a recorded tag parameter sits under a slot whose `extra_arg` admits its kind and its value -/
def ExtraT (TokP : Tok → Prop) (d : CmdDef) : Arg → Prop
  | .str k raw => ∃ c ∈ d.args, c.name = k ∧ ∃ e, c.extra = some e ∧ paramIn e raw ∧ ∃ t, TokArg TokP raw t ∧ atypeIn t e = true
  | .strs k l => (∃ c ∈ d.args, c.name = k ∧ ∃ e, c.extra = some e ∧ e.values = none ∧ atypeIn .stringlist e = true) ∧
      ItemsP TokP l
  | _ => True

inductive NodeT (TokP : Tok → Prop) (T : Table) : Node → Prop
  | mk (name : Bytes) (args extra : List Arg) (children : List Node) (comments : List Bytes) (d : CmdDef)
      (hnamed : Named TokP T d) (hname : d.name = name)
      (hargs : ∀ a ∈ args, ArgT TokP d a)
      (hextra : ∀ a ∈ extra, ExtraT TokP d a)
      (hkids : ∀ c ∈ children, NodeT TokP T c)
      (htest : ∀ k n, Arg.test k n ∈ args ++ extra → NodeT TokP T n)
      (htests : ∀ k l, Arg.tests k l ∈ args ++ extra → ∀ n ∈ l, NodeT TokP T n) :
      NodeT TokP T (.mk name args extra children comments)

/-- test-valued arguments hold well-typed trees -/
def SubT (TokP : Tok → Prop) (T : Table) : Arg → Prop
  | .test _ n => NodeT TokP T n
  | .tests _ l => ∀ n ∈ l, NodeT TokP T n
  | _ => True

structure FrameT (TokP : Tok → Prop) (T : Table) (f : Frame) : Prop where
  named : Named TokP T f.d
  cur : ∀ c, f.st.curarg = some c → c ∈ f.d.args
  args : ∀ a ∈ f.st.arguments, ArgT TokP f.d a ∧ SubT TokP T a
  extra : ∀ a ∈ f.st.extraArgs, ExtraT TokP f.d a ∧ SubT TokP T a
  kids : ∀ c ∈ f.children, NodeT TokP T c

theorem FrameT.node {TokP : Tok → Prop} {T : Table} {f : Frame} (h : FrameT TokP T f) (c : List Bytes) :
    NodeT TokP T (Frame.toNode f c) := by
  unfold Frame.toNode
  have hall : ∀ a ∈ f.st.arguments ++ f.st.extraArgs, SubT TokP T a := by
    intro a ha
    simp only [List.mem_append] at ha
    rcases ha with ha | ha
    · exact (h.args a ha).2
    · exact (h.extra a ha).2
  refine .mk _ _ _ _ _ f.d h.named rfl (fun a ha => (h.args a ha).1) (fun a ha => (h.extra a ha).1) h.kids ?_ ?_
  · intro k n hm; exact hall _ hm
  · intro k l hm; exact hall _ hm

theorem FrameT.fresh {TokP : Tok → Prop} {T : Table} (d : CmdDef) (hn : Named TokP T d) (a : Attach) :
    FrameT TokP T { d := d, attach := a } :=
  ⟨hn, by intro c h; simp at h, by intro x hx; simp at hx, by intro x hx; simp at hx, by intro x hx; simp at hx⟩

theorem validType_of_mem (t : ArgType) (ts : List ArgType) (h : t ∈ ts) : validType t ts = true := by
  simp [validType, h]

/-- where an accepted value ends up, with the slot that took it -/
theorem cna_slots (d : CmdDef) (ld : List Bytes) (st : CState) (t : ArgType) (v : AVal) (add ce : Bool)
    (st' : CState) (pl : Placement) (hcur : ∀ c, st.curarg = some c → c ∈ d.args)
    (h : checkNextArg d ld st t v add ce = .ok (some (st', pl))) :
    (∀ x ∈ st'.arguments, x ∈ st.arguments ∨ (∃ a ∈ d.args, x = v.toArg a.name ∧ validType t a.types = true ∧ validValue a v ld ce = .ok true) ∨
        (∃ k ts n, v = .test n ∧ x = .tests k ts ∧ ∀ m ∈ ts, m = n ∨ ∃ k' ts', Arg.tests k' ts' ∈ st.arguments ∧ m ∈ ts')) ∧
    (∀ x ∈ st'.extraArgs, x ∈ st.extraArgs ∨
        ∃ c ∈ d.args, ∃ e, c.extra = some e ∧ extraAccepts e t v = true ∧ x = v.toArg c.name) ∧
    (∀ c, st'.curarg = some c → c ∈ d.args) := by
  obtain ⟨_, hc⟩ := Safe.checkNextArg_cases d ld st t v add ce st' pl h
  rcases hc with ⟨c, e, hp, hacc, hst, _⟩ | ⟨_, hscan⟩
  · subst hst
    obtain ⟨hc1, hc2⟩ := Safe.pendingExtra_some st c e hp
    refine ⟨fun x hx => Or.inl hx, ?_, by intro c' hc'; simp at hc'⟩
    intro x hx
    rcases Printable.mem_setArg add _ _ x hx with h1 | h1
    · exact Or.inl h1
    · right
      exact ⟨c, hcur c hc1, e, hc2, hacc, h1⟩
  · rcases Safe.scan_cases d.name ld ce add t v st _ _ st' pl hscan with ⟨h1, _, _⟩ | ⟨pre, a, post, hsplit, _, hit⟩
    · subst h1; exact ⟨fun x hx => Or.inl hx, fun x hx => Or.inl hx, hcur⟩
    · have ha : a ∈ d.args := List.mem_of_mem_drop (by rw [hsplit]; simp)
      cases hit with
      | testlistAdd hr ht htt hadd args happ hst hpl =>
        subst hst
        refine ⟨?_, fun x hx => Or.inl hx, hcur⟩
        cases v with
        | str b => simp [appendTest] at happ
        | strs l => simp [appendTest] at happ
        | test n =>
          simp only [appendTest] at happ
          split at happ
          · rename_i k' ts hget
            simp at happ
            subst happ
            intro x hx
            rcases Printable.mem_assocSet _ _ x hx with h1 | h1
            · exact Or.inl h1
            · right; right
              refine ⟨a.name, ts ++ [n], n, rfl, h1, ?_⟩
              intro m hm
              simp only [List.mem_append, List.mem_singleton] at hm
              rcases hm with hm | hm
              · right
                exact ⟨k', ts, by unfold assocGet at hget; exact List.mem_of_find?_eq_some hget, hm⟩
              · exact Or.inl hm
          · simp at happ
          · simp at happ
            subst happ
            intro x hx
            simp only [List.mem_append, List.mem_singleton] at hx
            rcases hx with h1 | h1
            · exact Or.inl h1
            · right; right
              exact ⟨a.name, [n], n, rfl, h1, by intro m hm; simp at hm; exact Or.inl hm⟩
      | testlistSkip hr ht htt hadd hst hpl => subst hst; exact ⟨fun x hx => Or.inl hx, fun x hx => Or.inl hx, hcur⟩
      | required hr ht hvt hres hval =>
        unfold takeRequired at hres
        simp only [Prod.mk.injEq] at hres
        rw [hres.1]
        refine ⟨?_, fun x hx => Or.inl hx, by intro c hc; simp at hc; rw [← hc]; exact ha⟩
        intro x hx
        rcases Printable.mem_setArg add _ _ x hx with h1 | h1
        · exact Or.inl h1
        · exact Or.inr (Or.inl ⟨a, ha, h1, hvt, hval⟩)
      | optional hr ht hres hval =>
        unfold takeOptional at hres
        split at hres
        · simp at hres
        · split at hres
          · simp at hres
          · rename_i w hw
            simp only [Except.ok.injEq, Prod.mk.injEq] at hres
            rw [← hres.1]
            refine ⟨?_, fun x hx => Or.inl hx, ?_⟩
            · intro x hx
              rcases Printable.mem_setArg add _ _ x hx with h1 | h1
              · exact Or.inl h1
              · exact Or.inr (Or.inl ⟨a, ha, h1, validType_of_mem t a.types ht, hval⟩)
            · intro c hc
              simp only at hc
              split at hc
              · simp at hc; rw [← hc]; exact ha
              · exact hcur c hc

theorem valueIn_of_valid (a : ArgDef) (raw : Bytes) (ld : List Bytes) (ce : Bool)
    (h : validValue a (.str raw) ld ce = .ok true) : valueIn a raw := by
  unfold validValue at h
  by_cases h0 : (a.values.isNone && a.extValues.isEmpty) = true
  · left; simpa using h0
  · simp only [h0] at h
    by_cases h1 : inValues a.values (B.lower raw) = true
    · exact Or.inr (Or.inl h1)
    · simp only [h1] at h
      cases hl : extLookup a.extValues (B.lower raw) with
      | none => rw [hl] at h; simp at h
      | some e => exact Or.inr (Or.inr (by rw [hl]; rfl))

theorem novalues_of_valid_list (a : ArgDef) (l : List Bytes) (ld : List Bytes) (ce : Bool)
    (h : validValue a (.strs l) ld ce = .ok true) : a.values.isNone = true ∧ a.extValues.isEmpty = true := by
  unfold validValue at h
  by_cases h0 : (a.values.isNone && a.extValues.isEmpty) = true
  · simpa using h0
  · simp [h0] at h

theorem paramIn_of_accepts (e : ExtraDef) (t : ArgType) (raw : Bytes) (h : extraAccepts e t (.str raw) = true) :
    paramIn e raw ∧ atypeIn t e = true := by
  simp only [extraAccepts, Bool.and_eq_true] at h
  refine ⟨?_, h.1⟩
  unfold paramIn
  cases hv : e.values with
  | none => trivial
  | some vs =>
    have := h.2
    rw [hv] at this
    simpa [valIn] using this

theorem paramList_of_accepts (e : ExtraDef) (t : ArgType) (l : List Bytes) (h : extraAccepts e t (.strs l) = true) :
    e.values = none ∧ atypeIn t e = true := by
  simp only [extraAccepts, Bool.and_eq_true] at h
  refine ⟨?_, h.1⟩
  cases hv : e.values with
  | none => rfl
  | some vs =>
    have := h.2
    rw [hv] at this
    simp [valIn] at this

/-- the slots `reassign_arguments` moves a value between carry the same types -/
def reassignOK (d : CmdDef) : Bool :=
  d.special != .hasflag ||
    (match d.args.find? (fun a => a.name == "variable-list"), d.args.find? (fun a => a.name == "list-of-flags") with
     | some a, some b => a.types == b.types && d.args.all (fun x => x.name != "variable-list" || x.types == a.types) &&
         b.values.isNone && b.extValues.isEmpty
     | _, _ => false)

def TableT (T : Table) : Prop := ∀ d ∈ T, reassignOK d = true
instance (T : Table) : Decidable (TableT T) := by unfold TableT; infer_instance

theorem named_mem {TokP : Tok → Prop} {T : Table} {d : CmdDef} (h : Named TokP T d) : d ∈ T := by
  obtain ⟨tok, _, _, hl⟩ := h
  unfold Table.lookup Table.findKey at hl
  exact List.mem_of_find?_eq_some hl

theorem subT_rekey (TokP : Tok → Prop) (T : Table) (k : String) (a : Arg) (h : SubT TokP T a) : SubT TokP T (a.rekey k) := by
  cases a <;> simpa [Arg.rekey, SubT] using h

theorem closed {TokP : Tok → Prop} {T : Table} (hT : TableT T) :
    Closed TokP T (FrameT TokP T) (fun _ _ _ => True) (fun _ _ _ => True) (fun res => ∀ n ∈ res, NodeT TokP T n) where
  nil := by intro n hn; simp at hn
  pushTop := fun d _ hn _ _ _ _ => ⟨FrameT.fresh d hn .top, trivial⟩
  pushChild := fun d _ hn _ _ _ _ _ => ⟨FrameT.fresh d hn .child, trivial⟩
  pushTest := by
    intro d hd hn f ld st' pl hf hk hcna
    have hph : NodeT TokP T (.mk d.name [] [] [] []) :=
      .mk _ _ _ _ _ d hn rfl (by intro a ha; simp at ha) (by intro a ha; simp at ha) (by intro a ha; simp at ha)
        (by intro k n h; simp at h) (by intro k l h; simp at h)
    obtain ⟨h1, h2, h3⟩ := cna_slots f.d ld f.st .test _ true true st' pl hf.cur hcna
    refine ⟨⟨hf.named, h3, ?_, ?_, hf.kids⟩, FrameT.fresh d hn _, trivial⟩
    · intro x hx
      rcases h1 x hx with h | ⟨a, _, rfl, _, _⟩ | ⟨k, ts, n, hv, rfl, hts⟩
      · exact hf.args x h
      · exact ⟨trivial, hph⟩
      · injection hv with hv
        subst hv
        refine ⟨trivial, ?_⟩
        intro m hm
        rcases hts m hm with rfl | ⟨k', ts', hmem, hm'⟩
        · exact hph
        · exact (hf.args _ hmem).2 m hm'
    · intro x hx
      rcases h2 x hx with h | ⟨c, _, e, _, _, rfl⟩
      · exact hf.extra x h
      · exact ⟨trivial, hph⟩
  value := by
    intro f ld t v st' pl hf hoff hcna
    obtain ⟨h1, h2, h3⟩ := cna_slots f.d ld f.st t v true true st' pl hf.cur hcna
    refine ⟨hf.named, h3, ?_, ?_, hf.kids⟩
    · intro x hx
      rcases h1 x hx with h | ⟨a, ha, rfl, hvt, hval⟩ | ⟨k, ts, n, hv, _, _⟩
      · exact hf.args x h
      · rcases hoff with ⟨tok, htok, rfl, hk⟩ | ⟨rfl, l, rfl, hitems⟩
        · exact ⟨⟨a, ha, rfl, valueIn_of_valid a _ _ _ hval, t, ⟨tok, htok, rfl, hk⟩, hvt⟩, trivial⟩
        · exact ⟨⟨⟨a, ha, rfl, hvt, novalues_of_valid_list a l _ _ hval⟩, hitems⟩, trivial⟩
      · rcases hoff with ⟨tok, _, hv', _⟩ | ⟨_, l, hv', _⟩ <;> rw [hv'] at hv <;> cases hv
    · intro x hx
      rcases h2 x hx with h | ⟨c, hc, e, hce, hat, rfl⟩
      · exact hf.extra x h
      · rcases hoff with ⟨tok, htok, rfl, hk⟩ | ⟨rfl, l, rfl, hitems⟩
        · obtain ⟨hp1, hp2⟩ := paramIn_of_accepts e t _ hat
          exact ⟨⟨c, hc, rfl, e, hce, hp1, t, ⟨tok, htok, rfl, hk⟩, hp2⟩, trivial⟩
        · obtain ⟨hp1, hp2⟩ := paramList_of_accepts e _ l hat
          exact ⟨⟨⟨c, hc, rfl, e, hce, hp1, hp2⟩, hitems⟩, trivial⟩
  dry := by
    intro f ld n st' pl hf hcna
    -- nothing is stored when `add` is off; the pending slot stays a slot of the definition
    obtain ⟨h1, h2, h3⟩ := cna_slots f.d ld f.st .test (.test n) false true st' pl hf.cur hcna
    have hsame : st'.arguments = f.st.arguments ∧ st'.extraArgs = f.st.extraArgs := by
      obtain ⟨_, hc⟩ := Safe.checkNextArg_cases f.d ld f.st .test (.test n) false true st' pl hcna
      rcases hc with ⟨c, e, _, _, hst, _⟩ | ⟨_, hscan⟩
      · subst hst; exact ⟨rfl, by simp [setArg]⟩
      · rcases Safe.scan_cases f.d.name ld true false .test (.test n) f.st _ _ st' pl hscan with ⟨h1, _, _⟩ | ⟨pre, a, post, _, _, hit⟩
        · subst h1; exact ⟨rfl, rfl⟩
        · cases hit with
          | testlistAdd hr ht htt hadd args happ hst hpl => cases hadd
          | testlistSkip hr ht htt hadd hst hpl => subst hst; exact ⟨rfl, rfl⟩
          | required hr ht hvt hres =>
            unfold takeRequired at hres
            simp only [Prod.mk.injEq] at hres
            rw [hres.1]; exact ⟨by simp [setArg], rfl⟩
          | optional hr ht hres =>
            unfold takeOptional at hres
            split at hres
            · simp at hres
            · split at hres
              · simp at hres
              · simp only [Except.ok.injEq, Prod.mk.injEq] at hres
                rw [← hres.1]; exact ⟨by simp [setArg], rfl⟩
    exact ⟨hf.named, h3, by rw [hsame.1]; exact hf.args, by rw [hsame.2]; exact hf.extra, hf.kids⟩
  plug := by
    intro p f hp hf _
    have hnode : NodeT TokP T (Frame.toNode f) := hf.node []
    unfold plug
    split
    · exact hp
    · refine ⟨hp.named, hp.cur, hp.args, hp.extra, ?_⟩
      intro c hc
      simp only [List.mem_append, List.mem_singleton] at hc
      rcases hc with hc | rfl
      · exact hp.kids c hc
      · exact hnode
    · exact hp
    · refine ⟨hp.named, hp.cur, ?_, hp.extra, hp.kids⟩
      intro a ha
      rcases Printable.mem_assocSet _ _ a ha with h1 | h1
      · exact hp.args a h1
      · rw [h1]; exact ⟨trivial, hnode⟩
    · refine ⟨hp.named, hp.cur, hp.args, ?_, hp.kids⟩
      intro a ha
      rcases Printable.mem_assocSet _ _ a ha with h1 | h1
      · exact hp.extra a h1
      · rw [h1]; exact ⟨trivial, hnode⟩
    · split
      · rename_i k' ts hget
        have hmem : Arg.tests k' ts ∈ p.st.arguments := by
          unfold assocGet at hget
          exact List.mem_of_find?_eq_some hget
        refine ⟨hp.named, hp.cur, ?_, hp.extra, hp.kids⟩
        intro a ha
        rcases Printable.mem_assocSet _ _ a ha with h1 | h1
        · exact hp.args a h1
        · rw [h1]
          refine ⟨trivial, ?_⟩
          intro n hn
          rcases Printable.mem_replaceLast ts _ n hn with h2 | h2
          · exact (hp.args _ hmem).2 n h2
          · rw [h2]; exact hnode
      · exact hp
  reassign := by
    intro f f' hf h
    unfold Machine.reassign at h
    split at h
    · rename_i hsp
      split at h
      · rename_i a hget
        split at h
        · simp at h
        · simp at h
          subst h
          have hmem : a ∈ f.st.arguments := by
            unfold assocGet at hget
            exact List.mem_of_find?_eq_some hget
          have hkey : a.key = "variable-list" := by
            unfold assocGet at hget
            have := List.find?_some hget
            simpa using this
          have hro := hT f.d (named_mem hf.named)
          simp only [reassignOK, hsp, bne_self_eq_false, Bool.false_or] at hro
          refine ⟨hf.named, hf.cur, ?_, hf.extra, hf.kids⟩
          intro x hx
          simp only [List.mem_append, List.mem_singleton] at hx
          rcases hx with hx | rfl
          · unfold assocErase at hx
            exact hf.args x (List.mem_filter.mp hx).1
          · obtain ⟨ht, hs⟩ := hf.args a hmem
            refine ⟨?_, subT_rekey TokP T _ a hs⟩
            -- the slot that held the value and the slot it moves to have the same types
            cases hv : f.d.args.find? (fun a => a.name == "variable-list") with
            | none => rw [hv] at hro; simp at hro
            | some va =>
              cases hl : f.d.args.find? (fun a => a.name == "list-of-flags") with
              | none => rw [hv, hl] at hro; simp at hro
              | some lf =>
                rw [hv, hl] at hro
                simp only [Bool.and_eq_true, beq_iff_eq, List.all_eq_true, Bool.or_eq_true, bne_iff_ne, ne_eq] at hro
                have hlfmem : lf ∈ f.d.args := List.mem_of_find?_eq_some hl
                have hlfname : lf.name = "list-of-flags" := by
                  have := List.find?_some hl
                  simpa using this
                obtain ⟨⟨⟨hro1, hro2⟩, hro3⟩, hro4⟩ := hro
                have htypes : ∀ s ∈ f.d.args, s.name = a.key → s.types = lf.types := by
                  intro s hs hsn
                  rcases hro2 s hs with h1 | h1
                  · exact absurd (hsn.trans hkey) h1
                  · rw [h1, hro1]
                have hfree : lf.values.isNone = true ∧ lf.extValues.isEmpty = true := ⟨by simpa using hro3, by simpa using hro4⟩
                cases a with
                | str k raw =>
                  obtain ⟨s, hs, hsn, _, t, htok, hvt⟩ := ht
                  exact ⟨lf, hlfmem, hlfname, Or.inl hfree, t, htok, by rw [← htypes s hs hsn]; exact hvt⟩
                | strs k l =>
                  obtain ⟨⟨s, hs, hsn, hvt, _⟩, hitems⟩ := ht
                  exact ⟨⟨lf, hlfmem, hlfname, by rw [← htypes s hs hsn]; exact hvt, hfree⟩, hitems⟩
                | test k n => trivial
                | tests k l => trivial
      · simp at h
    · simp at h
  record := by
    intro f res c hf _ hres n hn
    simp only [List.mem_append, List.mem_singleton] at hn
    rcases hn with hn | rfl
    · exact hres n hn
    · exact hf.node c

/-- **every argument of an accepted tree is a token of the script, in a slot that admits its kind** -/
theorem accepted_tree_typed {T : Table} (hT : TableT T) (text : Bytes) (prev : PState) (r : List Node)
    (h : parse T text prev = .accept r) :
    ∃ lr, Lex.lex text = some lr ∧ ∀ n ∈ r, NodeT (fun tok => tok ∈ lr.toks) T n := by
  cases hl : Lex.lex text with
  | none => unfold parse at h; rw [hl] at h; simp at h
  | some lr =>
    refine ⟨lr, rfl, ?_⟩
    exact TokThread.accepted_result (closed (TokP := fun tok => tok ∈ lr.toks) hT) text prev r
      (by intro lr' hl' tok htok; rw [hl] at hl'; injection hl' with hl'; subst hl'; exact htok) h

end Typed
