import SieveModel.Lemmas.ClientState
/-!
# What `connect`'s authentication step puts on the wire (T-AUTH-WIRE)

`sendCommand_writes`: one exchange writes its command line and its extra lines, in order, on the current
channel, whatever the reply.  `authenticate_writes`: `__authenticate` writes nothing when no mechanism is
selected, and otherwise exactly the lines of ONE mechanism — the selected one — once.
-/
namespace Client
open Reader

theorem write_writes (c : Client) (b : Bytes) : (write c b).writes = c.writes ++ [(c.tls, b)] := rfl
theorem write_tls (c : Client) (b : Bytes) : (write c b).tls = c.tls := rfl

theorem foldl_write_writes (ls : List Bytes) (c : Client) :
    (ls.foldl (fun acc l => write acc (l ++ CRLF)) c).writes = c.writes ++ ls.map (fun l => (c.tls, l ++ CRLF)) ∧
    (ls.foldl (fun acc l => write acc (l ++ CRLF)) c).tls = c.tls := by
  induction ls generalizing c with
  | nil => simp
  | cons l rest ih =>
    obtain ⟨h1, h2⟩ := ih (write c (l ++ CRLF))
    simp only [List.foldl_cons, h1, h2, write_writes, write_tls, List.map_cons, List.append_assoc, List.singleton_append]
    exact ⟨trivial, trivial⟩

theorem awaitReply_writes (c : Client) (n : Option Nat) : (awaitReply c n).2.writes = c.writes := by
  unfold awaitReply
  cases readResponse n c.r <;> rfl

/-- **one exchange writes its command line and its extra lines, in order, and nothing else** -/
theorem sendCommand_writes (c : Client) (name : Bytes) (args : List WArg) (extra : List Bytes) (n : Option Nat)
    (hc : c.connected = true) :
    (sendCommand c name args extra n).2.writes =
      c.writes ++ ((commandBytes name args) :: extra.map (· ++ CRLF)).map (fun b => (c.tls, b)) := by
  unfold sendCommand afterWrites
  simp only [hc, Bool.not_true, Bool.false_eq_true, if_false, awaitReply_writes]
  obtain ⟨h1, _⟩ := foldl_write_writes extra (write c (commandBytes name args))
  rw [h1, write_writes, write_tls]
  simp [List.map_map, Function.comp]

/-- the lines a mechanism's exchange consists of, as `__authenticate` writes them -/
def authLines (mech login password authz : Bytes) : List Bytes :=
  if mech == sb "PLAIN" then
    [commandBytes (sb "AUTHENTICATE") [.str (sb "PLAIN"), .str (plainPayload login password authz)]]
  else if mech == sb "LOGIN" then
    [commandBytes (sb "AUTHENTICATE") [.str (sb "LOGIN")],
     ([34] ++ Base64.encode login ++ [34]) ++ CRLF, ([34] ++ Base64.encode password ++ [34]) ++ CRLF]
  else if mech == sb "OAUTHBEARER" then
    [commandBytes (sb "AUTHENTICATE") [.str (sb "OAUTHBEARER"), .str (oauthPayload login password)]]
  else
    [commandBytes (sb "AUTHENTICATE") [.str (sb "DIGEST-MD5")]]

theorem okOf_writes' (x : Res Reply) : (okOf x).2.writes = x.2.writes := by rw [okOf_snd]

theorem authWith_writes (c : Client) (mech login password authz : Bytes) (hc : c.connected = true) :
    (authWith c mech login password authz).2.writes =
      c.writes ++ (authLines mech login password authz).map (fun b => (c.tls, b)) := by
  unfold authWith authLines
  split
  · rw [okOf_writes', sendCommand_writes c _ _ _ _ hc]; simp
  · split
    · rw [okOf_writes', sendCommand_writes c _ _ _ _ hc]; simp
    · split
      · rw [okOf_writes', sendCommand_writes c _ _ _ _ hc]; simp
      · have h := sendCommand_writes c (sb "AUTHENTICATE") [.str (sb "DIGEST-MD5")] [] (some 1) hc
        revert h
        generalize sendCommand c (sb "AUTHENTICATE") [.str (sb "DIGEST-MD5")] [] (some 1) = x
        intro h
        obtain ⟨v, c1⟩ := x
        cases v <;> simpa using h

/-- **`__authenticate` writes the lines of exactly one mechanism — the selected one — once; nothing when none is
    selected** -/
theorem authenticate_writes (c : Client) (login password authz : Bytes) (authmech : Option Bytes) (hc : c.connected = true) :
    (authenticate c login password authz authmech).2.writes =
      c.writes ++ (match capGet c (sb "SASL") with
        | none => []
        | some v =>
          match selectMech authmech (splitWs (v.getD [])) with
          | none => []
          | some m => (authLines m login password authz).map (fun b => (c.tls, b))) := by
  unfold authenticate
  cases capGet c (sb "SASL") with
  | none => simp
  | some v =>
    simp only
    unfold finishAuth
    cases selectMech authmech (splitWs (v.getD [])) with
    | none => simp [setErrmsg]
    | some m =>
      simp only
      have h := authWith_writes c m login password authz hc
      revert h
      generalize authWith c m login password authz = x
      intro h
      obtain ⟨r, c1⟩ := x
      cases r with
      | error e => exact h
      | ok b => cases b <;> exact h

/-- a line that begins a command `AUTHENTICATE …` -/
def isAuthCmd (b : Bytes) : Bool := B.startsWith b (sb "AUTHENTICATE")

theorem startsWith_prefix (pre s : Bytes) : B.startsWith (pre ++ s) pre = true := by
  induction pre with
  | nil => cases s <;> rfl
  | cons p ps ih => simp [B.startsWith, ih]

theorem isAuthCmd_commandBytes (args : List WArg) : isAuthCmd (commandBytes (sb "AUTHENTICATE") args) = true := by
  unfold isAuthCmd commandBytes
  split
  · exact startsWith_prefix _ _
  · rw [List.append_assoc, List.append_assoc]; exact startsWith_prefix _ _

theorem isAuthCmd_quoted (rest : Bytes) : isAuthCmd (34 :: rest) = false := by
  simp [isAuthCmd, B.startsWith, sb]

/-- among the lines of a mechanism's exchange exactly one is an AUTHENTICATE command -/
theorem authLines_one_command (mech login password authz : Bytes) :
    ((authLines mech login password authz).filter isAuthCmd).length = 1 := by
  unfold authLines
  split
  · simp [isAuthCmd_commandBytes]
  · split
    · simp [isAuthCmd_commandBytes, isAuthCmd_quoted]
    · split
      · simp [isAuthCmd_commandBytes]
      · simp [isAuthCmd_commandBytes]

/-! ## the complete write log of `connect` -/

/-- the authentication step in the existential form used below -/
theorem authenticate_writes_ex (c : Client) (login password authz : Bytes) (authmech : Option Bytes) (hc : c.connected = true) :
    ∃ auth : List Bytes, (authenticate c login password authz authmech).2.writes = c.writes ++ auth.map (fun b => (c.tls, b)) ∧
      (auth = [] ∨ ∃ mech, auth = authLines mech login password authz) := by
  have h := authenticate_writes c login password authz authmech hc
  cases hs : capGet c (sb "SASL") with
  | none => rw [hs] at h; exact ⟨[], by simpa using h, .inl rfl⟩
  | some v =>
    rw [hs] at h
    simp only at h
    cases hm : selectMech authmech (splitWs (v.getD [])) with
    | none => rw [hm] at h; exact ⟨[], by simpa using h, .inl rfl⟩
    | some m => rw [hm] at h; exact ⟨_, h, .inr ⟨m, rfl⟩⟩

theorem starttls_connected (c : Client) (env : ConnEnv) : (starttls c env).2.connected = c.connected := by
  unfold starttls
  split
  · rfl
  · have k := sendCommand_keeps c (sb "STARTTLS") [] [] none
    revert k
    cases sendCommand c (sb "STARTTLS") [] [] none with
    | mk v c1 =>
      intro k
      cases v with
      | error e => exact k.conn
      | ok rep =>
        simp only
        split
        · exact k.conn
        · split
          · exact k.conn
          · have g := getCapabilities_keeps (tlsWrapped c1)
            revert g
            cases getCapabilities (tlsWrapped c1) with
            | mk v3 c3 =>
              intro g
              have : c3.connected = c.connected := by rw [g.1.conn]; exact k.conn
              cases v3 <;> exact this

/-- **everything `connect` writes**: at most one STARTTLS line in plaintext (only when TLS was asked for), then nothing or
    the lines of ONE mechanism's exchange — and those on the secured channel whenever TLS was asked for -/
theorem connect_write_log (c : Client) (env : ConnEnv) (net : Net) (l p z : Bytes) (useTls : Bool) (m : Option Bytes) :
    ∃ (pre : List (Bool × Bytes)) (auth : List Bytes),
      (connect c env net l p z useTls m).2.writes = pre ++ auth.map (fun b => (useTls, b)) ∧
      (pre = [] ∨ (useTls = true ∧ pre = [(false, commandBytes (sb "STARTTLS") [])])) ∧
      (auth = [] ∨ ∃ mech, auth = authLines mech l p z) := by
  unfold connect
  split
  · exact ⟨[], [], by simp, .inl rfl, .inl rfl⟩
  · have g := getCapabilities_keeps (freshConn c net)
    revert g
    cases getCapabilities (freshConn c net) with
    | mk v2 c2 =>
      intro g
      have h2w : c2.writes = [] := by rw [g.2]; rfl
      have h2t : c2.tls = false := by rw [g.1.tls]; rfl
      have h2c : c2.connected = true := by rw [g.1.conn]; rfl
      cases v2 with
      | error e => exact ⟨[], [], by simp [h2w], .inl rfl, .inl rfl⟩
      | ok b =>
        cases b with
        | false => exact ⟨[], [], by simp [h2w], .inl rfl, .inl rfl⟩
        | true =>
          simp only
          cases useTls with
          | false =>
            simp only [maybeTls, Bool.false_eq_true, if_false]
            obtain ⟨auth, hw, ha⟩ := authenticate_writes_ex c2 l p z m h2c
            exact ⟨[], auth, by rw [hw, h2w, h2t], .inl rfl, ha⟩
          | true =>
            simp only [maybeTls, if_true]
            obtain ⟨_, s2, s3⟩ := starttls_spec c2 env
            have sc := starttls_connected c2 env
            revert s2 s3 sc
            cases starttls c2 env with
            | mk v3 c3 =>
              intro s2 s3 sc
              simp only at s2 s3 sc
              have hpre : c3.writes = [] ∨ c3.writes = [(false, commandBytes (sb "STARTTLS") [])] := by
                rcases s2 with s2 | s2
                · left; rw [s2, h2w]
                · right; rw [s2, h2w, h2t]; rfl
              have hfin : ∃ pre : List (Bool × Bytes), c3.writes = pre ∧
                  (pre = [] ∨ (True ∧ pre = [(false, commandBytes (sb "STARTTLS") [])])) := by
                rcases hpre with h | h
                · exact ⟨[], h, .inl rfl⟩
                · exact ⟨_, h, .inr ⟨trivial, rfl⟩⟩
              obtain ⟨pre, hp1, hp2⟩ := hfin
              cases v3 with
              | error e => exact ⟨pre, [], by simp [hp1], hp2, .inl rfl⟩
              | ok b3 =>
                cases b3 with
                | false => exact ⟨pre, [], by simp [hp1], hp2, .inl rfl⟩
                | true =>
                  simp only
                  obtain ⟨htls, _⟩ := s3 rfl
                  obtain ⟨auth, hw, ha⟩ := authenticate_writes_ex c3 l p z m (by rw [sc]; exact h2c)
                  exact ⟨pre, auth, by rw [hw, hp1, htls], hp2, ha⟩

end Client
