import SieveModel.Model.Machine
import SieveModel.Model.Safety
/-! The argument interpreter never raises an *unexpected* exception on the calls the parser makes,
    for tables satisfying `SlotsSafe` (a decidable condition checked on the live table). -/
namespace ArgsSafe
open Args

/-- the value handed over has the shape its declared type promises -/
def Consistent : ArgType → AVal → Prop
  | .string, .str _ => True
  | .number, .str _ => True
  | .tag, .str _ => True
  | .stringlist, .strs _ => True
  | .test, .test _ => True
  | _, _ => False

def SlotsSafe (T : Table) : Prop := ∀ d ∈ T, defSafe d = true

/-- state condition: in a definition with a `testlist` slot, everything recorded is a test list -/
def ArgsOK (d : CmdDef) (st : CState) : Prop :=
  d.args.any (fun a => a.types == [.testlist]) = true → ∀ x ∈ st.arguments, ∃ k ts, x = .tests k ts

theorem validValue_no_crash (a : ArgDef) (t : ArgType) (v : AVal) (ld : List Bytes) (ce : Bool)
    (hs : slotSafe a = true) (hc : Consistent t v) (ht : validType t a.types = true ∨ t ∈ a.types) (w : String) :
    validValue a v ld ce ≠ .error (.crash w) := by
  unfold validValue
  split
  · simp
  · rename_i hvals
    cases v with
    | str raw =>
      simp only
      split
      · simp
      · split
        · split <;> simp
        · simp
    | strs l =>
      exfalso
      -- a list value reaches a slot with a value set only if the slot admits string lists
      have htl : t = .stringlist := by
        cases t <;> simp [Consistent] at hc <;> rfl
      subst htl
      simp only [slotSafe, Bool.and_eq_true, Bool.or_eq_true] at hs
      rcases hs.1 with h | h
      · exact hvals (by simpa using h)
      · have : ArgType.stringlist ∈ a.types := by
          rcases ht with ht | ht
          · simpa [validType] using ht
          · exact ht
        simp [this] at h
    | test n =>
      exfalso
      have htl : t = .test := by
        cases t <;> simp [Consistent] at hc <;> rfl
      subst htl
      simp only [slotSafe, Bool.and_eq_true, Bool.or_eq_true] at hs
      rcases hs.1 with h | h
      · exact hvals (by simpa using h)
      · have : ArgType.test ∈ a.types := by
          rcases ht with ht | ht
          · simpa [validType] using ht
          · exact ht
        simp [this] at h


theorem consistent_str_of_scalar (t : ArgType) (v : AVal) (hc : Consistent t v)
    (h1 : t ≠ .stringlist) (h2 : t ≠ .test) (h3 : t ≠ .testlist) : ∃ r, v = .str r := by
  cases t <;> cases v <;> simp [Consistent] at hc <;> simp_all

theorem wantsExtra_no_crash (a : ArgDef) (t : ArgType) (v : AVal) (hs : slotSafe a = true) (hreq : a.required = false)
    (hc : Consistent t v) (ht : t ∈ a.types) (w : String) : wantsExtra a v ≠ .error (.crash w) := by
  unfold wantsExtra
  split
  · simp
  · rename_i e he
    split
    · simp
    · rename_i vf hvf
      simp only [slotSafe, he, hvf, hreq, Bool.and_eq_true, Bool.or_eq_true] at hs
      have h := hs.2
      simp at h
      have h1 : t ≠ .stringlist := by intro h'; subst h'; exact h.1.1 ht
      have h2 : t ≠ .test := by intro h'; subst h'; exact h.1.2 ht
      have h3 : t ≠ .testlist := by intro h'; subst h'; exact h.2 ht
      obtain ⟨r, rfl⟩ := consistent_str_of_scalar t v hc h1 h2 h3
      simp [valLowerIn]

theorem appendTest_no_crash (l : List Arg) (k : String) (n : Node) (hall : ∀ x ∈ l, ∃ k' ts, x = .tests k' ts) (w : String) :
    appendTest l k (.test n) ≠ .error (.crash w) ∧
    ∀ l', appendTest l k (.test n) = .ok l' → ∀ x ∈ l', ∃ k' ts, x = .tests k' ts := by
  unfold appendTest
  simp only
  cases hg : assocGet l k with
  | none =>
    refine ⟨by simp, ?_⟩
    intro l' h; simp at h; subst h
    intro x hx
    rcases List.mem_append.mp hx with h1 | h1
    · exact hall x h1
    · simp at h1; exact ⟨k, [n], h1⟩
  | some a =>
    have hmem : a ∈ l := List.mem_of_find?_eq_some hg
    obtain ⟨k', ts, rfl⟩ := hall a hmem
    refine ⟨by simp, ?_⟩
    intro l' h; simp at h; subst h
    intro x hx
    unfold assocSet at hx
    split at hx
    · obtain ⟨y, hy, rfl⟩ := List.mem_map.mp hx
      split
      · exact ⟨k, ts ++ [n], rfl⟩
      · exact hall y hy
    · rcases List.mem_append.mp hx with h1 | h1
      · exact hall x h1
      · simp at h1; exact ⟨k, ts ++ [n], h1⟩


theorem consistent_test (v : AVal) (hc : Consistent .test v) : ∃ n, v = .test n := by
  cases v <;> simp [Consistent] at hc
  exact ⟨_, rfl⟩

/-- the slot loop never raises an unexpected exception -/
theorem scan_no_crash (cmd : Bytes) (ld : List Bytes) (ce add : Bool) (t : ArgType) (v : AVal) (st : CState)
    (defs : List ArgDef) (pos : Nat) (hs : ∀ a ∈ defs, slotSafe a = true) (hc : Consistent t v)
    (htl : (∃ a ∈ defs, a.types = [.testlist]) → ∀ x ∈ st.arguments, ∃ k ts, x = .tests k ts) (w : String) :
    scan cmd ld ce add t v st defs pos ≠ .error (.crash w) := by
  induction defs generalizing pos with
  | nil => simp [scan]
  | cons d rest ih =>
    have hsd := hs d (by simp)
    have ihr := ih (pos + 1) (fun a ha => hs a (by simp [ha])) (fun ⟨a, ha, h⟩ => htl ⟨a, by simp [ha], h⟩)
    unfold scan
    split
    · split
      · rename_i htlist
        split
        · simp
        · rename_i htest
          have htt : t = .test := by simpa using htest
          subst htt
          obtain ⟨n, rfl⟩ := consistent_test v hc
          split
          · have hall := htl ⟨d, by simp, by simpa using htlist⟩
            have := (appendTest_no_crash st.arguments d.name n hall w).1
            split
            · rename_i e he; intro h; simp at h; subst h; exact this he
            · simp
          · simp
      · split
        · simp
        · rename_i hvt
          have := validValue_no_crash d t v ld ce hsd hc (Or.inl (by simpa using hvt)) w
          split
          · rename_i e he; intro h; simp at h; subst h; exact this he
          · simp
          · simp [takeRequired]
    · rename_i hreq
      split
      · rename_i hmem
        have hm : t ∈ d.types := by simpa using hmem
        have := validValue_no_crash d t v ld ce hsd hc (Or.inr hm) w
        split
        · rename_i e he; intro h; simp at h; subst h; exact this he
        · split
          · unfold takeOptional
            split
            · simp
            · have hw := wantsExtra_no_crash d t v hsd (by simpa using hreq) hc hm w
              split
              · rename_i e he; intro h; simp at h; subst h; exact hw he
              · simp
          · exact ihr
      · exact ihr


theorem single_testlist (d : CmdDef) (hd : defSafe d = true)
    (h : d.args.any (fun a => a.types == [.testlist]) = true) :
    ∃ a, d.args = [a] ∧ a.types = [.testlist] ∧ a.required = true := by
  simp only [defSafe, Bool.and_eq_true, Bool.or_eq_true] at hd
  rcases hd.2 with h1 | h1
  · exfalso
    simp only [List.any_eq_true] at h
    obtain ⟨a, ha, hat⟩ := h
    simp only [List.all_eq_true] at h1
    have := h1 a ha
    simp at this hat
    exact this hat
  · cases hargs : d.args with
    | nil => simp [hargs] at h
    | cons a rest =>
      cases rest with
      | cons b r => simp [hargs] at h1
      | nil =>
        refine ⟨a, rfl, ?_, ?_⟩
        · simpa [hargs] using h
        · simpa [hargs] using h1.2

/-- `check_next_arg` on the calls the parser makes: no unexpected exception, and the state
    condition is kept -/
theorem checkNextArg_safe (d : CmdDef) (hd : defSafe d = true) (ld : List Bytes) (st : CState) (t : ArgType)
    (v : AVal) (add ce : Bool) (hok : ArgsOK d st) (hc : Consistent t v) :
    (∀ w, checkNextArg d ld st t v add ce ≠ .error (.crash w)) ∧
    (∀ st' pl, checkNextArg d ld st t v add ce = .ok (some (st', pl)) → ArgsOK d st') := by
  have hslots : ∀ a ∈ d.args, slotSafe a = true := by
    simp only [defSafe, Bool.and_eq_true, List.all_eq_true] at hd
    exact hd.1
  have hdrop : ∀ a ∈ d.args.drop st.nextargpos, slotSafe a = true :=
    fun a ha => hslots a (List.mem_of_mem_drop ha)
  have htl : (∃ a ∈ d.args.drop st.nextargpos, a.types = [.testlist]) → ∀ x ∈ st.arguments, ∃ k ts, x = .tests k ts := by
    intro ⟨a, ha, hat⟩
    apply hok
    simp only [List.any_eq_true]
    exact ⟨a, List.mem_of_mem_drop ha, by simp [hat]⟩
  unfold checkNextArg
  constructor
  · intro w
    split
    · simp
    · split
      · simp
      · split
        · split <;> simp
        · have := scan_no_crash d.name ld ce add t v st (d.args.drop st.nextargpos) st.nextargpos hdrop hc htl w
          split
          · rename_i e he; intro h; simp at h; subst h; exact this he
          · simp
  · intro st' pl h
    intro hany
    obtain ⟨a, hargs, hat, hreq⟩ := single_testlist d hd hany
    have hall := hok hany
    split at h
    · simp at h
    · split at h
      · simp at h
      · split at h
        · split at h
          · simp at h; obtain ⟨rfl, _⟩ := h; exact hall
          · simp at h
        · split at h
          · simp at h
          · rename_i r hr
            simp only [Except.ok.injEq, Option.some.injEq] at h
            subst h
            rw [hargs] at hr
            cases hnp : st.nextargpos with
            | succ k =>
              rw [hnp] at hr
              simp [scan] at hr
              obtain ⟨rfl, _⟩ := hr
              exact hall
            | zero =>
              rw [hnp] at hr
              simp only [List.drop_zero, scan, hreq, hat, if_true, beq_self_eq_true, ↓reduceIte] at hr
              by_cases htest : (t != .test) = true
              · simp [htest] at hr
              · have htt : t = .test := by simpa using htest
                subst htt
                obtain ⟨n, rfl⟩ := consistent_test v hc
                cases add with
                | false =>
                  simp at hr
                  obtain ⟨rfl, _⟩ := hr
                  exact hall
                | true =>
                  simp only [bne_self_eq_false, Bool.false_eq_true, if_false, if_true] at hr
                  cases hl' : appendTest st.arguments a.name (.test n) with
                  | error e => rw [hl'] at hr; simp at hr
                  | ok l' =>
                    rw [hl'] at hr
                    simp at hr
                    obtain ⟨rfl, _⟩ := hr
                    exact (appendTest_no_crash st.arguments a.name n hall "").2 l' hl'

end ArgsSafe
