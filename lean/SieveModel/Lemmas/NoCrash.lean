import SieveModel.Lemmas.Invariant
/-!
# Every token step keeps the invariant and never raises
-/
namespace Safe
open Machine Args ArgsSafe

theorem curCheck_spec (s : PState) (f : Frame) (rest : List Frame) (hs : s.stack = f :: rest)
    (hch : Chain s.stack) (t : ArgType) (v : AVal) (hc : Consistent t v) :
    (∀ w, curCheck s t v ≠ .error (.crash w)) ∧
    ∀ b s' pl, curCheck s t v = .ok (b, s', pl) →
      (b = false ∧ s' = s) ∨
      (b = true ∧ ∃ st', checkNextArg f.d s.loaded f.st t v = .ok (some (st', pl)) ∧
        s' = { s with stack := { f with st := st' } :: rest }) := by
  rw [hs] at hch
  have hsafe := checkNextArg_safe f.d (cmdSafe_def _ hch.head.1) s.loaded f.st t v true true hch.head.2.args hc
  unfold curCheck
  rw [hs]
  simp only
  cases hcna : checkNextArg f.d s.loaded f.st t v with
  | error e =>
    simp only
    refine ⟨?_, by intro b s' pl h; simp at h⟩
    intro w hw
    simp at hw
    subst hw
    exact hsafe.1 w hcna
  | ok r =>
    cases r with
    | none =>
      simp only
      refine ⟨by simp, ?_⟩
      intro b s' pl h
      simp at h
      exact Or.inl ⟨h.1.symm ▸ rfl, h.2.1.symm⟩
    | some r' =>
      obtain ⟨st', pl'⟩ := r'
      simp only
      refine ⟨by simp, ?_⟩
      intro b s' pl h
      simp only [Except.ok.injEq, Prod.mk.injEq] at h
      obtain ⟨h1, h2, h3⟩ := h
      subst h3
      refine Or.inr ⟨h1.symm, st', rfl, ?_⟩
      rw [← h2]
      simp [withTop, hs]

/-- completion entered with a test on top -/
theorem completion_test (s : PState) (f : Frame) (rest : List Frame) (hs : s.stack = f :: rest)
    (hch : Chain s.stack) (hf : f.d.kind = .test) (ts : Bool) :
    (∀ w, completion s ts ≠ .error (.crash w)) ∧
    ∀ b s', completion s ts = .ok (b, s') →
      s'.cstate = s.cstate ∧ s'.brackets = s.brackets ∧ Chain s'.stack ∧ cmds s'.stack = cmds s.stack ∧
      vars s'.stack = vars s.stack ∧
      ((s'.stack = s.stack ∧ s'.expected = s.expected) ∨
       ((∀ g, s'.stack.head? = some g → g.d.nonDet = false) ∧
        (b = true → topVar s'.stack = true → s'.expected = some [.comma, .right_parenthesis]))) := by
  unfold completion
  rw [hs]
  simp only
  by_cases hc : Frame.complete f = true
  · simp only [hc, Bool.not_true, Bool.false_eq_true, if_false]
    have hna : (f.d.kind == .action || (f.d.kind == .control && !f.d.acceptChildren)) = false := by simp [hf]
    simp only [hna, Bool.false_eq_true, if_false]
    rw [hs] at hch
    obtain ⟨c0, c1⟩ := complLoop_spec s.loaded f rest hch hf
    cases hcl : complLoop s.loaded f rest with
    | error e =>
      simp only
      refine ⟨?_, by intro b s' h; simp at h⟩
      intro w hw
      simp at hw
      subst hw
      exact c0 w hcl
    | ok o =>
      simp only
      refine ⟨by simp, ?_⟩
      intro b s' h
      simp only [Except.ok.injEq, Prod.mk.injEq] at h
      obtain ⟨hb, hs'⟩ := h
      subst hs'
      obtain ⟨j1, j2, j3, j4, j5, j6⟩ := c1 o hcl
      have hnv := complete_not_var _ hc
      refine ⟨rfl, rfl, j1, ?_, ?_, Or.inr ⟨j5, ?_⟩⟩
      · simp only; rw [j2, cmds_cons]; simp [hf]
      · simp only; rw [j3, vars_cons]; simp [hnv]
      · intro hbt htv
        simp only at htv ⊢
        rw [← hb] at hbt
        cases hst : o.stack with
        | nil => rw [hst] at htv; simp [topVar] at htv
        | cons g r =>
          rw [hst] at htv
          simp only [topVar] at htv
          have := j6 hbt g (by rw [hst]; rfl) htv
          rw [this]
  · simp only [hc, Bool.not_false, if_true]
    refine ⟨by simp, ?_⟩
    intro b s' h
    simp only [Except.ok.injEq, Prod.mk.injEq] at h
    obtain ⟨_, rfl⟩ := h
    exact ⟨rfl, rfl, hch, by rw [hs], by rw [hs], Or.inl ⟨hs, rfl⟩⟩

/-- completion entered with an action, or a control that takes no block, on top: nothing is popped -/
theorem completion_leaf (s : PState) (f : Frame) (rest : List Frame) (hs : s.stack = f :: rest)
    (hk : f.d.kind ≠ .test) (hc : f.d.acceptChildren = false) (ts : Bool) :
    ∃ s', completion s ts = .ok (true, s') ∧ s'.stack = s.stack ∧ s'.cstate = s.cstate ∧
      s'.brackets = s.brackets ∧ s'.loaded = s.loaded ∧ (ts = false → s' = s) ∧
      (s'.expected = s.expected ∨ s'.expected = some [.semicolon]) := by
  unfold completion
  rw [hs]
  simp only
  by_cases hcm : Frame.complete f = true
  · simp only [hcm, Bool.not_true, Bool.false_eq_true, if_false]
    have hna : (f.d.kind == .action || (f.d.kind == .control && !f.d.acceptChildren)) = true := by
      cases hkk : f.d.kind <;> simp [hkk, hc] at hk ⊢
    simp only [hna, if_true]
    cases ts with
    | true => exact ⟨_, rfl, rfl, rfl, rfl, rfl, by simp, Or.inr rfl⟩
    | false => exact ⟨_, rfl, by simpa using hs, rfl, rfl, rfl, by simp, Or.inl rfl⟩
  · simp only [hcm, Bool.not_false, if_true]
    exact ⟨s, rfl, hs, rfl, rfl, rfl, fun _ => rfl, Or.inl rfl⟩

end Safe

namespace Safe
open Machine Args ArgsSafe

/-- no second lexer rewind can come out of this state -/
def Calm (s : PState) : Prop :=
  s.cstate = .none ∨ ∀ g, s.stack.head? = some g → g.d.nonDet = false ∨ reassign g = none

theorem topVar_false_of_nontest (l : List Frame) (hch : Chain l)
    (h : ∀ g, l.head? = some g → g.d.kind ≠ .test) : topVar l = false := by
  cases l with
  | nil => rfl
  | cons g r =>
    simp only [topVar]
    cases hv : g.d.variableArgs with
    | false => rfl
    | true => exact absurd (cmdSafe_var _ hch.head.1 hv).1 (h g rfl)

theorem inv_none (s2 : PState) (hch : Chain s2.stack) (hcs : s2.cstate = .none)
    (hhead : ∀ g, s2.stack.head? = some g → g.d.kind = .control ∧ Frame.complete g = true)
    (hlive : liveRcb s2.brackets ≤ cmds s2.stack) (hp : rps s2.brackets ≤ vars s2.stack) : Inv s2 := by
  have htv : topVar s2.stack = false :=
    topVar_false_of_nontest _ hch (fun g hg => by rw [(hhead g hg).1]; simp)
  refine ⟨⟨hch, fun _ => ⟨hhead, hlive⟩, ?_, ?_, hp⟩, ⟨?_, ?_⟩⟩
  · intro h; rw [hcs] at h; simp at h
  · intro h; rw [hcs] at h; simp at h
  · intro h; rw [htv] at h; simp at h
  · intro h; rw [htv] at h; simp at h

theorem core_args (s2 : PState) (e : Option (List TokKind)) (hch : Chain s2.stack) (hcs : s2.cstate = .arguments)
    (hlive : liveRcb s2.brackets + 1 ≤ cmds s2.stack) (hp : rps s2.brackets ≤ vars s2.stack) : Core s2 e := by
  refine ⟨hch, ?_, fun _ => hlive, ?_, hp⟩
  · intro h; rw [hcs] at h; simp at h
  · intro h; rw [hcs] at h; simp at h

/-- a frame that had something above it and is not a test is a complete control command -/
theorem lower_nontest (g : Frame) (hok : FrameOK g) (hl : LowerOK g) (hk : g.d.kind ≠ .test) :
    g.d.kind = .control ∧ Frame.complete g = true := by
  refine ⟨?_, ?_⟩
  · have := hl.kind
    cases hkk : g.d.kind <;> simp [hkk] at hk this ⊢
  · rcases hl.done with hv | hc
    · exact absurd (cmdSafe_var _ hok.1 hv).1 hk
    · exact hc

/-- state after `__up()` out of a non-test frame whose block or statement ends -/
theorem up_nontest (s : PState) (f : Frame) (rest : List Frame) (hs : s.stack = f :: rest) (hch : Chain s.stack)
    (hk : f.d.kind ≠ .test) :
    ∃ s2, up s = .ok s2 ∧ s2.cstate = s.cstate ∧ s2.brackets = s.brackets ∧ Chain s2.stack ∧
      cmds s2.stack + 1 = cmds s.stack ∧ vars s2.stack = vars s.stack ∧
      (∀ g, s2.stack.head? = some g → g.d.kind = .control ∧ Frame.complete g = true) := by
  rw [hs] at hch
  obtain ⟨u1, u2, u3, u4, _⟩ := upLoop_spec f rest hch
  have hbelow := hch.below_nontest hk
  refine ⟨_, by unfold up; rw [hs], ?_, ?_, u1, ?_, ?_, ?_⟩
  · unfold record; split <;> rfl
  · unfold record; split <;> rfl
  · simp only [hs]; rw [u2, cmds_cons]; simp [hk]; omega
  · simp only [hs]; rw [u3, vars_cons]
    cases hv : f.d.variableArgs with
    | false => simp
    | true => exact absurd (cmdSafe_var _ hch.head.1 hv).1 hk
  · intro g hg
    simp only at hg
    have hl := (u4 g hg).1
    have hmem : g ∈ (upLoop f rest).1 := List.mem_of_mem_head? hg
    have hgk : g.d.kind ≠ .test := by
      cases rest with
      | nil => simp [upLoop] at hg
      | cons p r =>
        have hp : p.d.kind ≠ .test := hbelow p (by simp)
        have hp' : ((plug p f.attach (Frame.toNode f)).d.kind == .test) = false := by rw [plug_d]; simpa using hp
        unfold upLoop at hg
        simp only [hp', Bool.false_and, Bool.false_eq_true, if_false, List.head?_cons, Option.some.injEq] at hg
        rw [← hg, plug_d]; exact hp
    exact lower_nontest g (u1.all g hmem) hl hgk

end Safe

namespace Safe
open Machine Args ArgsSafe

/-- bound on live closing braces available in a state where a command is being parsed -/
theorem Core.live_bound {s : PState} {e} (h : Core s e) (hc : s.cstate ≠ .none) :
    liveRcb s.brackets + 1 ≤ cmds s.stack ∧ liveRcb (.right_cbracket :: s.brackets) ≤ cmds s.stack := by
  cases hcs : s.cstate with
  | none => exact absurd hcs hc
  | arguments =>
    have := h.cargs hcs
    exact ⟨this, by simp; omega⟩
  | stringlist =>
    obtain ⟨h1, b0, hb, _⟩ := h.cstrl hcs
    rw [hb]
    simp
    omega

/-- `{` and `;` -/
theorem closeCommand_spec (s' : PState) (e' : Option (List TokKind)) (k : TokKind) (rew : Bool)
    (hcore : Core s' e') (hcs : s'.cstate ≠ .none) :
    match closeCommand s' k rew with
    | .ret true s2 _ => Inv s2 ∧ s2.cstate = .none
    | .crash _ => False
    | _ => True := by
  have hne := hcore.nonempty hcs
  obtain ⟨hl1, hl2⟩ := hcore.live_bound hcs
  have hch := hcore.chain
  have hpar := hcore.paren
  obtain ⟨res, com, stk, cst, cur, exp, br, ld⟩ := s'
  simp only at hne hl1 hl2 hch hpar hcs
  cases stk with
  | nil => exact absurd rfl hne
  | cons f rest =>
    unfold closeCommand
    simp only
    by_cases hk1 : (k == .left_cbracket) = true
    · simp only [hk1, if_true]
      by_cases hcond : (f.d.kind == .control && f.d.acceptChildren && Frame.complete f) = true
      · simp only [hcond, if_true]
        simp only [Bool.and_eq_true, beq_iff_eq] at hcond
        refine ⟨inv_none _ hch rfl ?_ hl2 (by simpa using hpar), by first | rfl | trivial⟩
        intro g hg
        simp at hg
        subst hg
        exact ⟨hcond.1.1, hcond.2⟩
      · simp only [hcond, Bool.false_eq_true, if_false]
    · simp only [hk1, Bool.false_eq_true, if_false]
      by_cases hk2 : (k == .semicolon) = true
      · simp only [hk2, if_true]
        by_cases hcond : (f.d.kind == .test || f.d.acceptChildren) = true
        · simp only [hcond, if_true]
        · simp only [hcond, Bool.false_eq_true, if_false]
          simp only [Bool.or_eq_true, beq_iff_eq, not_or] at hcond
          have hac : f.d.acceptChildren = false := by simpa using hcond.2
          obtain ⟨s2, hcomp, c1, c2, c3, c4, c5, _⟩ :=
            completion_leaf ⟨res, com, f :: rest, .none, cur, exp, br, ld⟩ f rest rfl hcond.1 hac false
          have hs2 := c5 rfl
          subst hs2
          rw [hcomp]
          simp only
          obtain ⟨s4, hup, u1, u2, u3, u4, u5, u6⟩ :=
            up_nontest ⟨res, com, f :: rest, .none, cur, exp, br, completeCb f ld⟩ f rest rfl hch hcond.1
          rw [hup]
          simp only
          refine ⟨inv_none s4 u3 (by rw [u1]) u6 ?_ ?_, by rw [u1]⟩
          · rw [u2]; simp only at u4 ⊢; omega
          · rw [u2, u5]; exact hpar
      · simp only [hk2, Bool.false_eq_true, if_false]

theorem announce_fields (s : PState) (d : CmdDef) :
    (announce s d).stack = s.stack ∧ (announce s d).brackets = s.brackets ∧ (announce s d).cstate = s.cstate := by
  unfold announce; split <;> exact ⟨rfl, rfl, rfl⟩

/-- the push of a new command frame -/
theorem pushCommand_spec (s1 : PState) (e : Option (List TokKind)) (d : CmdDef) (hd : cmdSafe d = true)
    (hdk : d.kind ≠ .test) (hch : Chain s1.stack)
    (hhead : ∀ g, s1.stack.head? = some g → g.d.kind = .control ∧ Frame.complete g = true)
    (hlive : liveRcb s1.brackets ≤ cmds s1.stack) (hpar : rps s1.brackets ≤ vars s1.stack) :
    match pushCommand s1 d with
    | .ret true s2 rew => Inv s2 ∧ rew = false
    | .crash _ => False
    | _ => True := by
  have hdv : d.variableArgs = false := by
    cases hv : d.variableArgs with
    | false => rfl
    | true => exact absurd (cmdSafe_var d hd hv).1 hdk
  have hnew : ∀ a, FrameOK { d := d, attach := a } := fun a => ⟨hd, StOK.init d⟩
  obtain ⟨res, com, stk, cst, cur, exp, br, ld⟩ := s1
  simp only at hch hhead hlive hpar
  unfold pushCommand
  cases stk with
  | nil =>
    simp only
    refine ⟨⟨core_args _ _ ⟨hnew _, hdk⟩ rfl ?_ ?_, ⟨?_, ?_⟩⟩, by first | rfl | trivial⟩
    · simp [cmds] at hlive
      simp [cmds_cons, hdk, cmds, hlive]
    · simp [vars] at hpar
      simp [hpar]
    · intro h; simp [topVar, hdv] at h
    · intro h; simp [topVar, hdv] at h
  | cons f r =>
    simp only
    by_cases hac : (!f.d.acceptChildren) = true
    · simp only [hac, if_true]
    · simp only [hac, Bool.false_eq_true, if_false]
      obtain ⟨hfc, hfcomp⟩ := hhead f rfl
      have hflow : LowerOK f := by
        refine ⟨Or.inr hfcomp, ?_, by rw [hfc]; simp⟩
        cases hnd : f.d.nonDet with
        | false => rfl
        | true =>
          have := (cmdSafe_nondet f.d hch.head.1 (Or.inl hnd)).1
          rw [hfc] at this; simp at this
      have hchain : Chain ({ d := d, attach := .child } :: f :: r) :=
        ⟨hnew _, by intro pl h; simp at h, hflow, fun _ => by rw [hfc]; simp, hch⟩
      refine ⟨⟨core_args _ _ hchain rfl ?_ ?_, ⟨?_, ?_⟩⟩, by first | rfl | trivial⟩
      · simp only [cmds_cons, hfc] at hlive ⊢
        simp [hdk] at hlive ⊢; omega
      · simp only [vars_cons, hdv] at hpar ⊢
        simpa using hpar
      · intro h; simp [topVar, hdv] at h
      · intro h; simp [topVar, hdv] at h

/-- a token met while no command is being parsed -/
theorem startCommand_spec (T : Table) (hT : TableSafe T) (s : PState) (e : Option (List TokKind)) (k : TokKind)
    (text : Bytes) (hcore : Core s e) (hcs : s.cstate = .none) :
    match startCommand T s k text with
    | .ret true s2 rew => Inv s2 ∧ rew = false
    | .crash _ => False
    | _ => True := by
  obtain ⟨hhead, hlive⟩ := hcore.cnone hcs
  have hch := hcore.chain
  have hpar := hcore.paren
  unfold startCommand
  by_cases hk1 : (k == .right_cbracket) = true
  · simp only [hk1, if_true]
    cases hpop : popBracket s k with
    | none => simp only
    | some s1 =>
      simp only
      obtain ⟨b, hb, hs1⟩ := popBracket_some _ s1 k hpop
      have hkk : k = .right_cbracket := by simpa using hk1
      subst hkk
      rw [hb] at hlive hpar
      simp at hlive hpar
      cases hst : s.stack with
      | nil => rw [hst] at hlive; simp [cmds] at hlive
      | cons f rest =>
        have hfk : f.d.kind ≠ .test := by rw [(hhead f (by rw [hst]; rfl)).1]; simp
        have hst1 : s1.stack = f :: rest := by rw [hs1]; exact hst
        have hch1 : Chain s1.stack := by rw [hs1]; exact hch
        obtain ⟨s2, hup, u1, u2, u3, u4, u5, u6⟩ := up_nontest s1 f rest hst1 hch1 hfk
        rw [hup]
        simp only
        have hb1 : s1.brackets = b := by rw [hs1]
        have hc1 : cmds s1.stack = cmds s.stack := by rw [hs1]
        have hv1 : vars s1.stack = vars s.stack := by rw [hs1]
        refine ⟨inv_none _ u3 rfl u6 ?_ ?_, by first | rfl | trivial⟩
        · show liveRcb s2.brackets ≤ cmds s2.stack
          rw [u2, hb1]; omega
        · show rps s2.brackets ≤ vars s2.stack
          rw [u2, u5, hb1, hv1]; exact hpar
  · simp only [hk1, Bool.false_eq_true, if_false]
    by_cases hk2 : (k != .identifier) = true
    · simp only [hk2, if_true]
    · simp only [hk2, Bool.false_eq_true, if_false]
      cases hget : getCommand T s.loaded text with
      | error err => simp only
      | ok d =>
        simp only
        have hdsafe : cmdSafe d = true := hT d (getCommand_mem T _ _ _ d hget)
        by_cases hdt : (d.kind == .test) = true
        · simp only [hdt, if_true]
        · simp only [hdt, Bool.false_eq_true, if_false]
          have hdk : d.kind ≠ .test := by simpa using hdt
          by_cases hfo : (!followOk d (prevName (announce s d))) = true
          · simp only [hfo, if_true]
          · simp only [hfo, Bool.false_eq_true, if_false]
            obtain ⟨a1, a2, a3⟩ := announce_fields s d
            exact pushCommand_spec (announce s d) e d hdsafe hdk (by rw [a1]; exact hch) (by rw [a1]; exact hhead)
              (by rw [a1, a2]; exact hlive) (by rw [a1, a2]; exact hpar)

end Safe

namespace Safe
open Machine Args ArgsSafe

theorem ofCmdErr_crash (rew : Bool) (e : CmdErr) (h : ∀ w, e ≠ .crash w) :
    match ofCmdErr rew e with
    | .crash _ => False
    | .ret _ _ _ => False
    | .err _ _ => True := by
  cases e with
  | crash w => exact absurd rfl (h w)
  | badValue a => simp [ofCmdErr]
  | badArgument c => simp [ofCmdErr]
  | extNotLoaded x => simp [ofCmdErr]

/-- result shape shared by the specifications of the state functions -/
def GoodRet (k : TokKind) (r : FnResult) : Prop :=
  match r with
  | .ret true s2 rew => Inv s2 ∧ (rew = true → Calm s2)
  | .ret false s' _ => (k = .left_cbracket ∨ k = .semicolon) → (∃ e', Core s' e') ∧ s'.cstate ≠ .none
  | .crash _ => False
  | .err _ _ => True

/-- completion check after an accepted argument, in the `arguments` state -/
theorem complThen_spec (s : PState) (f : Frame) (rest : List Frame) (hs : s.stack = f :: rest)
    (hch : Chain s.stack) (hcs : s.cstate = .arguments)
    (hlive : liveRcb s.brackets + 1 ≤ cmds s.stack) (hpar : rps s.brackets ≤ vars s.stack)
    (htop : Top s s.expected) (hf : f.d.kind = .test ∨ f.d.acceptChildren = false)
    (ts rew : Bool) (hcalm : rew = true → f.d.nonDet = false ∨ reassign f = none) (k : TokKind) :
    GoodRet k (complThen s ts rew) := by
  unfold complThen
  by_cases hft : f.d.kind = .test
  · obtain ⟨c0, c1⟩ := completion_test s f rest hs hch hft ts
    cases hcomp : completion s ts with
    | error e =>
      simp only
      have := ofCmdErr_crash rew e (fun w hw => c0 w (by rw [hcomp, hw]))
      unfold GoodRet
      split <;> simp_all
    | ok r =>
      obtain ⟨b, s'⟩ := r
      simp only
      obtain ⟨j1, j2, j3, j4, j5, j6⟩ := c1 b s' hcomp
      have hcore : Core s' s'.expected :=
        core_args s' _ j3 (by rw [j1, hcs]) (by rw [j2, j4]; exact hlive) (by rw [j2, j5]; exact hpar)
      have hcs' : s'.cstate = .arguments := by rw [j1, hcs]
      cases b with
      | false => exact fun _ => ⟨⟨_, hcore⟩, by rw [hcs']; simp⟩
      | true =>
        refine ⟨⟨hcore, ?_⟩, ?_⟩
        · rcases j6 with ⟨k1, k2⟩ | ⟨_, k2⟩
          · refine ⟨?_, ?_⟩
            · intro h1 h2; rw [k1] at h1 ⊢; rw [k2] at h2; rw [j2]; exact htop.open_ h1 h2
            · intro h1 _; rw [k1] at h1; rw [k2]; exact htop.topv h1 hcs
          · refine ⟨?_, ?_⟩
            · intro h1 h2; rw [k2 rfl h1] at h2; simp at h2
            · intro h1 _; exact Or.inr (Or.inr (k2 rfl h1))
        · intro hr
          right
          rcases j6 with ⟨k1, _⟩ | ⟨k1, _⟩
          · intro g hg; rw [k1, hs] at hg; simp at hg; subst hg; exact hcalm hr
          · intro g hg; exact Or.inl (k1 g hg)
  · have hac : f.d.acceptChildren = false := by
      rcases hf with h | h
      · exact absurd h hft
      · exact h
    obtain ⟨s', hcomp, c1, c2, c3, c4, c5, c6⟩ := completion_leaf s f rest hs hft hac ts
    rw [hcomp]
    simp only
    have htv : topVar s'.stack = false := by
      rw [c1, hs]
      simp only [topVar]
      cases hv : f.d.variableArgs with
      | false => rfl
      | true => rw [hs] at hch; exact absurd (cmdSafe_var _ hch.head.1 hv).1 hft
    refine ⟨⟨core_args s' _ (by rw [c1]; exact hch) (by rw [c2, hcs]) (by rw [c3, c1]; exact hlive)
      (by rw [c3, c1]; exact hpar), ⟨?_, ?_⟩⟩, ?_⟩
    · intro h; rw [htv] at h; simp at h
    · intro h; rw [htv] at h; simp at h
    · intro hr
      right
      intro g hg; rw [c1, hs] at hg; simp at hg; subst hg; exact hcalm hr

end Safe

namespace Safe
open Machine Args ArgsSafe

/-- a block-owning command (not a test) accepts nothing but tests -/
theorem children_reject_scalar (d : CmdDef) (hd : cmdSafe d = true) (hk : d.kind ≠ .test) (hc : d.acceptChildren = true)
    (ld : List Bytes) (st : CState) (t : ArgType) (v : AVal) (add ce : Bool) (hok : StOK d st) (ht : t ≠ .test)
    (st' : CState) (pl : Placement) : checkNextArg d ld st t v add ce ≠ .ok (some (st', pl)) := by
  rcases (cmdSafe_block d hd hc hk).2 with h | h
  · intro hcna
    unfold checkNextArg at hcna
    simp [h] at hcna
  · exact host_rejects_scalar d hd h ld st t v add ce hok ht st' pl

theorem consistent_strs (l : List Bytes) : Consistent .stringlist (.strs l) := by simp [Consistent]
theorem consistent_string (b : Bytes) : Consistent .string (.str b) := by simp [Consistent]
theorem consistent_number (b : Bytes) : Consistent .number (.str b) := by simp [Consistent]
theorem consistent_tag (b : Bytes) : Consistent .tag (.str b) := by simp [Consistent]

/-- a scalar or list value offered to the current command, then the completion check -/
theorem value_then_compl (s : PState) (f : Frame) (rest : List Frame) (hs : s.stack = f :: rest)
    (hch : Chain s.stack) (hlive : liveRcb s.brackets + 1 ≤ cmds s.stack) (hpar : rps s.brackets ≤ vars s.stack)
    (hnv : f.d.variableArgs = false) (t : ArgType) (v : AVal) (hc : Consistent t v) (ht : t ≠ .test)
    (st' : CState) (pl : Placement) (hcna : checkNextArg f.d s.loaded f.st t v = .ok (some (st', pl)))
    (ts : Bool) (k : TokKind) :
    GoodRet k (complThen { s with stack := { f with st := st' } :: rest, cstate := .arguments } ts false) := by
  have hch' := hch
  rw [hs] at hch'
  have hok' : FrameOK { f with st := st' } :=
    ⟨hch'.head.1, checkNextArg_StOK f.d hch'.head.1 s.loaded f.st t v true true hch'.head.2 hc st' pl hcna⟩
  have hchain : Chain ({ f with st := st' } :: rest) := hch'.replace_top hok' rfl rfl
  have hcm : cmds ({ f with st := st' } :: rest) = cmds s.stack := by rw [hs, cmds_cons, cmds_cons]
  have hvr : vars ({ f with st := st' } :: rest) = vars s.stack := by rw [hs, vars_cons, vars_cons]
  apply complThen_spec _ { f with st := st' } rest rfl hchain rfl (by simp only; rw [hcm]; exact hlive)
    (by simp only; rw [hvr]; exact hpar)
  · refine ⟨?_, ?_⟩ <;> intro h <;> simp [topVar, hnv] at h
  · by_cases hk : f.d.kind = .test
    · exact Or.inl hk
    · right
      cases hac : f.d.acceptChildren with
      | false => rfl
      | true => exact absurd hcna (children_reject_scalar f.d hch'.head.1 hk hac s.loaded f.st t v true true hch'.head.2 ht st' pl)
  · intro h; simp at h

theorem var_isHost (d : CmdDef) (hd : cmdSafe d = true) (hv : d.variableArgs = true) : isHost d = true := by
  obtain ⟨a, ha, hat, _⟩ := var_single d hd hv
  simp [isHost, ha, isHostSlot, hat]

theorem stringlistFn_spec (s : PState) (e : Option (List TokKind)) (k : TokKind) (text : Bytes)
    (hcore : Core s e) (hcs : s.cstate = .stringlist) (hk : ∀ ex, e = some ex → k ∈ ex) :
    GoodRet k (stringlistFn s k text) := by
  obtain ⟨h1, b0, hb, hdis⟩ := hcore.cstrl hcs
  have hne : s.cstate ≠ .none := by rw [hcs]; simp
  have hfalse : GoodRet k (.ret false s false) := fun _ => ⟨⟨e, hcore⟩, hne⟩
  have hbound : k ≠ .left_cbracket → liveRcb b0 + 1 ≤ cmds s.stack := by
    intro hkk
    rcases hdis with h | h
    · have := hk _ h; simp at this; exact absurd this hkk
    · exact h
  -- the state after a string or a comma
  have hstay : ∀ (cur : List Bytes) (ex : List TokKind), k ≠ .left_cbracket → ex ≠ [.left_parenthesis] →
      Inv { s with curlist := cur, expected := some ex } := by
    intro cur ex hkk hex
    refine ⟨⟨hcore.chain, ?_, ?_, ?_, hcore.paren⟩, ⟨?_, ?_⟩⟩
    · intro h; simp only at h; rw [hcs] at h; simp at h
    · intro h; simp only at h; rw [hcs] at h; simp at h
    · intro _; exact ⟨h1, b0, hb, Or.inr (hbound hkk)⟩
    · intro _ h; simp only [Option.some.injEq] at h; exact absurd h hex
    · intro _ h; simp only at h; rw [hcs] at h; simp at h
  unfold stringlistFn
  cases k with
  | string =>
    simp only
    split
    · trivial
    · exact ⟨hstay _ _ (by simp) (by simp), by simp⟩
  | comma => exact ⟨hstay _ _ (by simp) (by simp), by simp⟩
  | right_bracket =>
    simp only
    cases hpop : popBracket s .right_bracket with
    | none => trivial
    | some s1 =>
      simp only
      obtain ⟨b, hb', hs1⟩ := popBracket_some s s1 _ hpop
      have hbb : b = b0 := by rw [hb] at hb'; simp at hb'; exact hb'.symm
      subst hbb
      obtain ⟨f, rest, hst⟩ := List.exists_cons_of_ne_nil (hcore.nonempty hne)
      have hst1 : s1.stack = f :: rest := by rw [hs1]; exact hst
      have hch1 : Chain s1.stack := by rw [hs1]; exact hcore.chain
      obtain ⟨c0, c1⟩ := curCheck_spec s1 f rest hst1 hch1 .stringlist (.strs s1.curlist) (consistent_strs _)
      cases hcc : curCheck s1 .stringlist (.strs s1.curlist) with
      | error err =>
        simp only
        have := ofCmdErr_crash false err (fun w hw => c0 w (by rw [hcc, hw]))
        unfold GoodRet
        split <;> simp_all
      | ok r =>
        obtain ⟨bb, s2, pl⟩ := r
        rcases c1 bb s2 pl hcc with ⟨hbf, _⟩ | ⟨hbt, st', hcna, hs2⟩
        · subst hbf
          simp only
          intro h; simp at h
        · subst hbt
          simp only
          subst hs2
          have hch1' := hch1
          rw [hst1] at hch1'
          have hnv : f.d.variableArgs = false := by
            cases hv : f.d.variableArgs with
            | false => rfl
            | true =>
              exact absurd hcna (host_rejects_scalar f.d hch1'.head.1 (var_isHost _ hch1'.head.1 hv) s1.loaded f.st
                .stringlist _ true true hch1'.head.2 (by simp) st' pl)
          have hb1 : s1.brackets = b := by rw [hs1]
          exact value_then_compl s1 f rest hst1 hch1
            (by rw [hb1, hs1]; exact hbound (by simp)) (by rw [hb1, hs1]; have := hcore.paren; rw [hb] at this; simpa using this)
            hnv .stringlist _ (consistent_strs _) (by simp) st' pl hcna true _
  | left_cbracket => exact hfalse
  | semicolon => exact hfalse
  | left_bracket => exact hfalse
  | left_parenthesis => exact hfalse
  | right_parenthesis => exact hfalse
  | right_cbracket => exact hfalse
  | hash_comment => exact hfalse
  | bracket_comment => exact hfalse
  | multiline => exact hfalse
  | identifier => exact hfalse
  | tag => exact hfalse
  | number => exact hfalse

end Safe

namespace Safe
open Machine Args ArgsSafe

/-- `HasflagCommand.reassign_arguments` keeps the frame invariant -/
theorem reassign_ok (f f' : Frame) (hok : FrameOK f) (h : reassign f = some f') :
    FrameOK f' ∧ f'.d = f.d ∧ f'.attach = f.attach := by
  unfold reassign at h
  split at h
  · rename_i hsp
    split at h
    · split at h
      · simp at h
      · simp only [Option.some.injEq] at h
        subst h
        obtain ⟨hrc1, hrc2⟩ := cmdSafe_nondet f.d hok.1 (Or.inr hsp)
        have hnv : f.d.variableArgs = false := by
          cases hv : f.d.variableArgs with
          | false => rfl
          | true =>
            obtain ⟨_, _, _, _, _, hsp'⟩ := cmdSafe_host f.d hok.1 (var_isHost _ hok.1 hv)
            rw [hsp'] at hsp; simp at hsp
        refine ⟨⟨hok.1, ?_, hok.2.cur, Or.inr ⟨hrc2.symm, hnv⟩, ?_⟩, rfl, rfl⟩
        · intro hany
          rw [← cmdSafe_var_iff f.d hok.1, hnv] at hany
          simp at hany
        · intro hv; simp only at hv; rw [hnv] at hv; simp at hv
    · simp at h
  · simp at h

/-- `[` met in the `arguments` state: the list state is entered, then the completion check runs -/
theorem bracketOpen_spec (s : PState) (e : Option (List TokKind)) (f : Frame) (rest : List Frame)
    (hs : s.stack = f :: rest) (hcore : Core s e) (hcs : s.cstate = .arguments)
    (sb : PState) (g1 : sb.stack = s.stack) (g2 : sb.cstate = .stringlist)
    (g3 : sb.brackets = .right_bracket :: s.brackets) (g4 : sb.expected = some [.string]) (k : TokKind) :
    GoodRet k (complThen sb false false) := by
  have hlive := hcore.cargs hcs
  have hpar := hcore.paren
  have hch := hcore.chain
  have hch' := hch
  rw [hs] at hch'
  have h1 : 1 ≤ cmds s.stack := by omega
  have hsb : sb.stack = f :: rest := by rw [g1, hs]
  have hchb : Chain sb.stack := by rw [g1]; exact hch
  -- any state with the same stack measures, the list bracket on top and the list state
  have mk : ∀ (s3 : PState) (b : Bool), s3.cstate = .stringlist → s3.brackets = .right_bracket :: s.brackets →
      Chain s3.stack → cmds s3.stack = cmds s.stack → vars s3.stack = vars s.stack →
      (b = true → topVar s3.stack = true → s3.expected ≠ some [.left_parenthesis]) →
      GoodRet k (.ret b s3 false) := by
    intro s3 b c1 c2 c3 c4 c5 c6
    have hcore3 : Core s3 s3.expected := by
      refine ⟨c3, ?_, ?_, ?_, by rw [c2, c5]; simpa using hpar⟩
      · intro h; rw [c1] at h; simp at h
      · intro h; rw [c1] at h; simp at h
      · intro _; exact ⟨by rw [c4]; exact h1, s.brackets, c2, Or.inr (by rw [c4]; exact hlive)⟩
    cases b with
    | false => exact fun _ => ⟨⟨_, hcore3⟩, by rw [c1]; simp⟩
    | true =>
      refine ⟨⟨hcore3, ⟨?_, ?_⟩⟩, by simp⟩
      · intro h1 h2; exact absurd h2 (c6 rfl h1)
      · intro _ h; rw [c1] at h; simp at h
  have unchanged : GoodRet k (.ret true sb false) :=
    mk sb true g2 g3 hchb (by rw [g1]) (by rw [g1]) (fun _ _ => by rw [g4]; simp)
  unfold complThen
  by_cases hft : f.d.kind = .test
  · obtain ⟨c0, c1⟩ := completion_test sb f rest hsb hchb hft false
    cases hcomp : completion sb false with
    | error err =>
      simp only
      have := ofCmdErr_crash false err (fun w hw => c0 w (by rw [hcomp, hw]))
      unfold GoodRet
      split <;> simp_all
    | ok r =>
      obtain ⟨b, s3⟩ := r
      simp only
      obtain ⟨j1, j2, j3, j4, j5, j6⟩ := c1 b s3 hcomp
      refine mk s3 b (by rw [j1, g2]) (by rw [j2, g3]) j3 (by rw [j4, g1]) (by rw [j5, g1]) ?_
      intro hb htv
      rcases j6 with ⟨_, k2⟩ | ⟨_, k2⟩
      · rw [k2, g4]; simp
      · rw [k2 hb htv]; simp
  · have hfnv : f.d.variableArgs = false := by
      cases hv : f.d.variableArgs with
      | false => rfl
      | true => exact absurd (cmdSafe_var _ hch'.head.1 hv).1 hft
    cases hac : f.d.acceptChildren with
    | false =>
      obtain ⟨s', hcomp, _, _, _, _, c5, _⟩ := completion_leaf sb f rest hsb hft hac false
      have := c5 rfl
      subst this
      rw [hcomp]
      exact unchanged
    | true =>
      have hfc : f.d.kind = .control := (cmdSafe_block f.d hch'.head.1 hac hft).1
      unfold completion
      rw [hsb]
      simp only
      by_cases hcm : Frame.complete f = true
      · simp only [hcm, Bool.not_true, Bool.false_eq_true, if_false]
        have hna : (f.d.kind == .action || (f.d.kind == .control && !f.d.acceptChildren)) = false := by simp [hfc, hac]
        simp only [hna, Bool.false_eq_true, if_false]
        cases rest with
        | nil =>
          simp only [complLoop]
          have : ({ sb with stack := [f], expected := sb.expected } : PState) = sb := by
            obtain ⟨a1, a2, a3, a4, a5, a6, a7, a8⟩ := sb
            simp only at hsb
            subst hsb
            rfl
          rw [this]
          exact unchanged
        | cons p r =>
          have hpk : p.d.kind ≠ .test := hch'.below_nontest hft p (by simp)
          have hpl : LowerOK (plug p f.attach (Frame.toNode f)) := plug_lower _ _ _ hch'.2.2.1
          have hchp : Chain (plug p f.attach (Frame.toNode f) :: r) := hch'.pop_plug _
          obtain ⟨hpc, hpcomp⟩ := lower_nontest _ hchp.head hpl (by rw [plug_d]; exact hpk)
          unfold complLoop
          simp only [hpc, hpcomp, beq_self_eq_true, Bool.true_or, if_true]
          have hpv : (plug p f.attach (Frame.toNode f)).d.variableArgs = false := complete_not_var _ hpcomp
          refine ⟨⟨⟨hchp, ?_, ?_, ?_, ?_⟩, ⟨?_, ?_⟩⟩, by simp⟩
          · intro h; simp only at h; rw [g2] at h; simp at h
          · intro h; simp only at h; rw [g2] at h; simp at h
          · intro _
            refine ⟨?_, s.brackets, g3, Or.inl rfl⟩
            simp only [cmds_cons, hpc]; simp
          · simp only
            rw [g3, vars_cons, hpv]
            rw [hs, vars_cons, vars_cons, hfnv] at hpar
            rw [plug_d] at hpv
            simp [hpv] at hpar ⊢
            exact hpar
          · intro h; simp [topVar, hpv] at h
          · intro h; simp [topVar, hpv] at h
      · simp only [hcm, Bool.not_false, if_true]
        exact unchanged

end Safe
