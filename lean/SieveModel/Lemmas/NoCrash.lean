import SieveModel.Lemmas.Invariant
import SieveModel.Lemmas.Lex
/-!
# Every token step keeps the invariant and never raises
-/
namespace Safe
open Machine Args ArgsSafe

theorem curCheck_spec (s : PState) (f : Frame) (rest : List Frame) (hs : s.stack = f :: rest)
    (hch : Chain s.stack) (t : ArgType) (v : AVal) (hc : Consistent t v) :
    (∀ w, curCheck s t v ≠ .error (.crash w)) ∧
    ∀ b s' pl, curCheck s t v = .ok (b, s', pl) →
      (b = false ∧ s' = s) ∨
      (b = true ∧ ∃ st', checkNextArg f.d s.loaded f.st t v = .ok (some (st', pl)) ∧
        s' = { s with stack := { f with st := st' } :: rest }) := by
  rw [hs] at hch
  have hsafe := checkNextArg_safe f.d (cmdSafe_def _ hch.head.1) s.loaded f.st t v true true hch.head.2.args hc
  unfold curCheck
  rw [hs]
  simp only
  cases hcna : checkNextArg f.d s.loaded f.st t v with
  | error e =>
    simp only
    refine ⟨?_, by intro b s' pl h; simp at h⟩
    intro w hw
    simp at hw
    subst hw
    exact hsafe.1 w hcna
  | ok r =>
    cases r with
    | none =>
      simp only
      refine ⟨by simp, ?_⟩
      intro b s' pl h
      simp at h
      exact Or.inl ⟨h.1.symm ▸ rfl, h.2.1.symm⟩
    | some r' =>
      obtain ⟨st', pl'⟩ := r'
      simp only
      refine ⟨by simp, ?_⟩
      intro b s' pl h
      simp only [Except.ok.injEq, Prod.mk.injEq] at h
      obtain ⟨h1, h2, h3⟩ := h
      subst h3
      refine Or.inr ⟨h1.symm, st', rfl, ?_⟩
      rw [← h2]
      simp [withTop, hs]

/-- completion entered with a test on top -/
theorem completion_test (s : PState) (f : Frame) (rest : List Frame) (hs : s.stack = f :: rest)
    (hch : Chain s.stack) (hf : f.d.kind = .test) (ts : Bool) :
    (∀ w, completion s ts ≠ .error (.crash w)) ∧
    ∀ b s', completion s ts = .ok (b, s') →
      s'.cstate = s.cstate ∧ s'.brackets = s.brackets ∧ Chain s'.stack ∧ cmds s'.stack = cmds s.stack ∧
      vars s'.stack = vars s.stack ∧
      ((s'.stack = s.stack ∧ s'.expected = s.expected) ∨
       ((∀ g, s'.stack.head? = some g → g.d.nonDet = false) ∧
        (b = true → topVar s'.stack = true → s'.expected = some [.comma, .right_parenthesis]))) := by
  unfold completion
  rw [hs]
  simp only
  by_cases hc : Frame.complete f = true
  · simp only [hc, Bool.not_true, Bool.false_eq_true, if_false]
    have hna : (f.d.kind == .action || (f.d.kind == .control && !f.d.acceptChildren)) = false := by simp [hf]
    simp only [hna, Bool.false_eq_true, if_false]
    rw [hs] at hch
    obtain ⟨c0, c1⟩ := complLoop_spec s.loaded f rest hch hf
    cases hcl : complLoop s.loaded f rest with
    | error e =>
      simp only
      refine ⟨?_, by intro b s' h; simp at h⟩
      intro w hw
      simp at hw
      subst hw
      exact c0 w hcl
    | ok o =>
      simp only
      refine ⟨by simp, ?_⟩
      intro b s' h
      simp only [Except.ok.injEq, Prod.mk.injEq] at h
      obtain ⟨hb, hs'⟩ := h
      subst hs'
      obtain ⟨j1, j2, j3, j4, j5, j6⟩ := c1 o hcl
      have hnv := complete_not_var _ hc
      refine ⟨rfl, rfl, j1, ?_, ?_, Or.inr ⟨j5, ?_⟩⟩
      · simp only; rw [j2, cmds_cons]; simp [hf]
      · simp only; rw [j3, vars_cons]; simp [hnv]
      · intro hbt htv
        simp only at htv ⊢
        rw [← hb] at hbt
        cases hst : o.stack with
        | nil => rw [hst] at htv; simp [topVar] at htv
        | cons g r =>
          rw [hst] at htv
          simp only [topVar] at htv
          have := j6 hbt g (by rw [hst]; rfl) htv
          rw [this]
  · simp only [hc, Bool.not_false, if_true]
    refine ⟨by simp, ?_⟩
    intro b s' h
    simp only [Except.ok.injEq, Prod.mk.injEq] at h
    obtain ⟨_, rfl⟩ := h
    exact ⟨rfl, rfl, hch, by rw [hs], by rw [hs], Or.inl ⟨hs, rfl⟩⟩

/-- completion entered with an action, or a control that takes no block, on top: nothing is popped -/
theorem completion_leaf (s : PState) (f : Frame) (rest : List Frame) (hs : s.stack = f :: rest)
    (hk : f.d.kind ≠ .test) (hc : f.d.acceptChildren = false) (ts : Bool) :
    ∃ s', completion s ts = .ok (true, s') ∧ s'.stack = s.stack ∧ s'.cstate = s.cstate ∧
      s'.brackets = s.brackets ∧ s'.loaded = s.loaded ∧ (ts = false → s' = s) ∧
      (s'.expected = s.expected ∨ s'.expected = some [.semicolon]) := by
  unfold completion
  rw [hs]
  simp only
  by_cases hcm : Frame.complete f = true
  · simp only [hcm, Bool.not_true, Bool.false_eq_true, if_false]
    have hna : (f.d.kind == .action || (f.d.kind == .control && !f.d.acceptChildren)) = true := by
      cases hkk : f.d.kind <;> simp [hkk, hc] at hk ⊢
    simp only [hna, if_true]
    cases ts with
    | true => exact ⟨_, rfl, rfl, rfl, rfl, rfl, by simp, Or.inr rfl⟩
    | false => exact ⟨_, rfl, by simpa using hs, rfl, rfl, rfl, by simp, Or.inl rfl⟩
  · simp only [hcm, Bool.not_false, if_true]
    exact ⟨s, rfl, hs, rfl, rfl, rfl, fun _ => rfl, Or.inl rfl⟩

end Safe

namespace Safe
open Machine Args ArgsSafe

/-- no second lexer rewind can come out of this state -/
def Calm (s : PState) : Prop :=
  s.cstate = .none ∨ ∀ g, s.stack.head? = some g → g.d.nonDet = false ∨ reassign g = none

theorem topVar_false_of_nontest (l : List Frame) (hch : Chain l)
    (h : ∀ g, l.head? = some g → g.d.kind ≠ .test) : topVar l = false := by
  cases l with
  | nil => rfl
  | cons g r =>
    simp only [topVar]
    cases hv : g.d.variableArgs with
    | false => rfl
    | true => exact absurd (cmdSafe_var _ hch.head.1 hv).1 (h g rfl)

theorem inv_none (s2 : PState) (hch : Chain s2.stack) (hcs : s2.cstate = .none)
    (hhead : ∀ g, s2.stack.head? = some g → g.d.kind = .control ∧ Frame.complete g = true)
    (hlive : liveRcb s2.brackets ≤ cmds s2.stack) (hp : rps s2.brackets ≤ vars s2.stack) : Inv s2 := by
  have htv : topVar s2.stack = false :=
    topVar_false_of_nontest _ hch (fun g hg => by rw [(hhead g hg).1]; simp)
  refine ⟨⟨hch, fun _ => ⟨hhead, hlive⟩, ?_, ?_, hp⟩, ⟨?_, ?_⟩⟩
  · intro h; rw [hcs] at h; simp at h
  · intro h; rw [hcs] at h; simp at h
  · intro h; rw [htv] at h; simp at h
  · intro h; rw [htv] at h; simp at h

theorem core_args (s2 : PState) (e : Option (List TokKind)) (hch : Chain s2.stack) (hcs : s2.cstate = .arguments)
    (hlive : liveRcb s2.brackets + 1 ≤ cmds s2.stack) (hp : rps s2.brackets ≤ vars s2.stack) : Core s2 e := by
  refine ⟨hch, ?_, fun _ => hlive, ?_, hp⟩
  · intro h; rw [hcs] at h; simp at h
  · intro h; rw [hcs] at h; simp at h

/-- a frame that had something above it and is not a test is a complete control command -/
theorem lower_nontest (g : Frame) (hok : FrameOK g) (hl : LowerOK g) (hk : g.d.kind ≠ .test) :
    g.d.kind = .control ∧ Frame.complete g = true := by
  refine ⟨?_, ?_⟩
  · have := hl.kind
    cases hkk : g.d.kind <;> simp [hkk] at hk this ⊢
  · rcases hl.done with hv | hc
    · exact absurd (cmdSafe_var _ hok.1 hv).1 hk
    · exact hc

/-- state after `__up()` out of a non-test frame whose block or statement ends -/
theorem up_nontest (s : PState) (f : Frame) (rest : List Frame) (hs : s.stack = f :: rest) (hch : Chain s.stack)
    (hk : f.d.kind ≠ .test) :
    ∃ s2, up s = .ok s2 ∧ s2.cstate = s.cstate ∧ s2.brackets = s.brackets ∧ Chain s2.stack ∧
      cmds s2.stack + 1 = cmds s.stack ∧ vars s2.stack = vars s.stack ∧
      (∀ g, s2.stack.head? = some g → g.d.kind = .control ∧ Frame.complete g = true) := by
  rw [hs] at hch
  obtain ⟨u1, u2, u3, u4, _⟩ := upLoop_spec f rest hch
  have hbelow := hch.below_nontest hk
  refine ⟨_, by unfold up; rw [hs], ?_, ?_, u1, ?_, ?_, ?_⟩
  · unfold record; split <;> rfl
  · unfold record; split <;> rfl
  · simp only [hs]; rw [u2, cmds_cons]; simp [hk]; omega
  · simp only [hs]; rw [u3, vars_cons]
    cases hv : f.d.variableArgs with
    | false => simp
    | true => exact absurd (cmdSafe_var _ hch.head.1 hv).1 hk
  · intro g hg
    simp only at hg
    have hl := (u4 g hg).1
    have hmem : g ∈ (upLoop f rest).1 := List.mem_of_mem_head? hg
    have hgk : g.d.kind ≠ .test := by
      cases rest with
      | nil => simp [upLoop] at hg
      | cons p r =>
        have hp : p.d.kind ≠ .test := hbelow p (by simp)
        have hp' : ((plug p f.attach (Frame.toNode f)).d.kind == .test) = false := by rw [plug_d]; simpa using hp
        unfold upLoop at hg
        simp only [hp', Bool.false_and, Bool.false_eq_true, if_false, List.head?_cons, Option.some.injEq] at hg
        rw [← hg, plug_d]; exact hp
    exact lower_nontest g (u1.all g hmem) hl hgk

end Safe

namespace Safe
open Machine Args ArgsSafe

/-- bound on live closing braces available in a state where a command is being parsed -/
theorem Core.live_bound {s : PState} {e} (h : Core s e) (hc : s.cstate ≠ .none) :
    liveRcb s.brackets + 1 ≤ cmds s.stack ∧ liveRcb (.right_cbracket :: s.brackets) ≤ cmds s.stack := by
  cases hcs : s.cstate with
  | none => exact absurd hcs hc
  | arguments =>
    have := h.cargs hcs
    exact ⟨this, by simp; omega⟩
  | stringlist =>
    obtain ⟨h1, b0, hb, _⟩ := h.cstrl hcs
    rw [hb]
    simp
    omega

/-- `{` and `;` -/
theorem closeCommand_spec (s' : PState) (e' : Option (List TokKind)) (k : TokKind) (rew : Bool)
    (hcore : Core s' e') (hcs : s'.cstate ≠ .none) :
    match closeCommand s' k rew with
    | .ret true s2 _ => Inv s2 ∧ s2.cstate = .none
    | .crash _ => False
    | _ => True := by
  have hne := hcore.nonempty hcs
  obtain ⟨hl1, hl2⟩ := hcore.live_bound hcs
  have hch := hcore.chain
  have hpar := hcore.paren
  obtain ⟨res, com, stk, cst, cur, exp, br, ld⟩ := s'
  simp only at hne hl1 hl2 hch hpar hcs
  cases stk with
  | nil => exact absurd rfl hne
  | cons f rest =>
    unfold closeCommand
    by_cases hk1 : (k == .left_cbracket) = true
    · simp only [hk1, if_true]
      by_cases hcond : (f.d.kind == .control && f.d.acceptChildren && Frame.complete f) = true
      · simp only [hcond, if_true]
        simp only [Bool.and_eq_true, beq_iff_eq] at hcond
        refine ⟨inv_none _ hch rfl ?_ hl2 (by simpa using hpar), by first | rfl | trivial⟩
        intro g hg
        simp at hg
        subst hg
        exact ⟨hcond.1.1, hcond.2⟩
      · simp only [hcond, Bool.false_eq_true, if_false]
    · simp only [hk1, Bool.false_eq_true, if_false]
      by_cases hk2 : (k == .semicolon) = true
      · simp only [hk2, if_true]
        by_cases hcond : (f.d.kind == .test || f.d.acceptChildren) = true
        · simp only [hcond, if_true]
        · simp only [hcond, Bool.false_eq_true, if_false]
          simp only [Bool.or_eq_true, beq_iff_eq, not_or] at hcond
          have hac : f.d.acceptChildren = false := by simpa using hcond.2
          obtain ⟨s2, hcomp, c1, c2, c3, c4, c5, _⟩ :=
            completion_leaf ⟨res, com, f :: rest, .none, cur, exp, br, ld⟩ f rest rfl hcond.1 hac false
          have hs2 := c5 rfl
          subst hs2
          rw [hcomp]
          simp only
          obtain ⟨s4, hup, u1, u2, u3, u4, u5, u6⟩ :=
            up_nontest ⟨res, com, f :: rest, .none, cur, exp, br, completeCb f ld⟩ f rest rfl hch hcond.1
          rw [hup]
          simp only
          refine ⟨inv_none s4 u3 (by rw [u1]) u6 ?_ ?_, by rw [u1]⟩
          · rw [u2]; simp only at u4 ⊢; omega
          · rw [u2, u5]; exact hpar
      · simp only [hk2, Bool.false_eq_true, if_false]

theorem announce_fields (s : PState) (d : CmdDef) :
    (announce s d).stack = s.stack ∧ (announce s d).brackets = s.brackets ∧ (announce s d).cstate = s.cstate := by
  unfold announce; split <;> exact ⟨rfl, rfl, rfl⟩

/-- the push of a new command frame -/
theorem pushCommand_spec (s1 : PState) (e : Option (List TokKind)) (d : CmdDef) (hd : cmdSafe d = true)
    (hdk : d.kind ≠ .test) (hch : Chain s1.stack)
    (hhead : ∀ g, s1.stack.head? = some g → g.d.kind = .control ∧ Frame.complete g = true)
    (hlive : liveRcb s1.brackets ≤ cmds s1.stack) (hpar : rps s1.brackets ≤ vars s1.stack) :
    match pushCommand s1 d with
    | .ret true s2 rew => Inv s2 ∧ rew = false
    | .crash _ => False
    | _ => True := by
  have hdv : d.variableArgs = false := by
    cases hv : d.variableArgs with
    | false => rfl
    | true => exact absurd (cmdSafe_var d hd hv).1 hdk
  have hnew : ∀ a, FrameOK { d := d, attach := a } := fun a => ⟨hd, StOK.init d⟩
  obtain ⟨res, com, stk, cst, cur, exp, br, ld⟩ := s1
  simp only at hch hhead hlive hpar
  unfold pushCommand
  cases stk with
  | nil =>
    simp only
    refine ⟨⟨core_args _ _ ⟨hnew _, hdk⟩ rfl ?_ ?_, ⟨?_, ?_⟩⟩, by first | rfl | trivial⟩
    · simp [cmds] at hlive
      simp [cmds_cons, hdk, cmds, hlive]
    · simp [vars] at hpar
      simp [hpar]
    · intro h; simp [topVar, hdv] at h
    · intro h; simp [topVar, hdv] at h
  | cons f r =>
    simp only
    by_cases hac : (!f.d.acceptChildren) = true
    · simp only [hac, if_true]
    · simp only [hac, Bool.false_eq_true, if_false]
      obtain ⟨hfc, hfcomp⟩ := hhead f rfl
      have hflow : LowerOK f := by
        refine ⟨Or.inr hfcomp, ?_, by rw [hfc]; simp⟩
        cases hnd : f.d.nonDet with
        | false => rfl
        | true =>
          have := (cmdSafe_nondet f.d hch.head.1 (Or.inl hnd)).1
          rw [hfc] at this; simp at this
      have hchain : Chain ({ d := d, attach := .child } :: f :: r) :=
        ⟨hnew _, by intro pl h; simp at h, hflow, fun _ => by rw [hfc]; simp, hch⟩
      refine ⟨⟨core_args _ _ hchain rfl ?_ ?_, ⟨?_, ?_⟩⟩, by first | rfl | trivial⟩
      · simp only [cmds_cons, hfc] at hlive ⊢
        simp [hdk] at hlive ⊢; omega
      · simp only [vars_cons, hdv] at hpar ⊢
        simpa using hpar
      · intro h; simp [topVar, hdv] at h
      · intro h; simp [topVar, hdv] at h

/-- a token met while no command is being parsed -/
theorem startCommand_spec (T : Table) (hT : TableSafe T) (s : PState) (e : Option (List TokKind)) (k : TokKind)
    (text : Bytes) (hcore : Core s e) (hcs : s.cstate = .none) :
    match startCommand T s k text with
    | .ret true s2 rew => Inv s2 ∧ rew = false
    | .crash _ => False
    | _ => True := by
  obtain ⟨hhead, hlive⟩ := hcore.cnone hcs
  have hch := hcore.chain
  have hpar := hcore.paren
  unfold startCommand
  by_cases hk1 : (k == .right_cbracket) = true
  · simp only [hk1, if_true]
    cases hpop : popBracket s k with
    | none => simp only
    | some s1 =>
      simp only
      obtain ⟨b, hb, hs1⟩ := popBracket_some _ s1 k hpop
      have hkk : k = .right_cbracket := by simpa using hk1
      subst hkk
      rw [hb] at hlive hpar
      simp at hlive hpar
      cases hst : s.stack with
      | nil => rw [hst] at hlive; simp [cmds] at hlive
      | cons f rest =>
        have hfk : f.d.kind ≠ .test := by rw [(hhead f (by rw [hst]; rfl)).1]; simp
        have hst1 : s1.stack = f :: rest := by rw [hs1]; exact hst
        have hch1 : Chain s1.stack := by rw [hs1]; exact hch
        obtain ⟨s2, hup, u1, u2, u3, u4, u5, u6⟩ := up_nontest s1 f rest hst1 hch1 hfk
        rw [hup]
        simp only
        have hb1 : s1.brackets = b := by rw [hs1]
        have hc1 : cmds s1.stack = cmds s.stack := by rw [hs1]
        have hv1 : vars s1.stack = vars s.stack := by rw [hs1]
        refine ⟨inv_none _ u3 rfl u6 ?_ ?_, by first | rfl | trivial⟩
        · show liveRcb s2.brackets ≤ cmds s2.stack
          rw [u2, hb1]; omega
        · show rps s2.brackets ≤ vars s2.stack
          rw [u2, u5, hb1, hv1]; exact hpar
  · simp only [hk1, Bool.false_eq_true, if_false]
    by_cases hk2 : (k != .identifier) = true
    · simp only [hk2, if_true]
    · simp only [hk2, Bool.false_eq_true, if_false]
      cases hget : getCommand T s.loaded text with
      | error err => simp only
      | ok d =>
        simp only
        have hdsafe : cmdSafe d = true := hT d (getCommand_mem T _ _ _ d hget)
        by_cases hdt : (d.kind == .test) = true
        · simp only [hdt, if_true]
        · simp only [hdt, Bool.false_eq_true, if_false]
          have hdk : d.kind ≠ .test := by simpa using hdt
          by_cases hfo : (!followOk d (prevName (announce s d))) = true
          · simp only [hfo, if_true]
          · simp only [hfo, Bool.false_eq_true, if_false]
            obtain ⟨a1, a2, a3⟩ := announce_fields s d
            exact pushCommand_spec (announce s d) e d hdsafe hdk (by rw [a1]; exact hch) (by rw [a1]; exact hhead)
              (by rw [a1, a2]; exact hlive) (by rw [a1, a2]; exact hpar)

end Safe

namespace Safe
open Machine Args ArgsSafe

theorem ofCmdErr_crash (rew : Bool) (e : CmdErr) (h : ∀ w, e ≠ .crash w) :
    match ofCmdErr rew e with
    | .crash _ => False
    | .ret _ _ _ => False
    | .err _ _ => True := by
  cases e with
  | crash w => exact absurd rfl (h w)
  | badValue a => simp [ofCmdErr]
  | badArgument c => simp [ofCmdErr]
  | extNotLoaded x => simp [ofCmdErr]

/-- result shape shared by the specifications of the state functions -/
def GoodRet (k : TokKind) (r : FnResult) : Prop :=
  match r with
  | .ret true s2 rew => Inv s2 ∧ (rew = true → Calm s2)
  | .ret false s' _ => (k = .left_cbracket ∨ k = .semicolon) → (∃ e', Core s' e') ∧ s'.cstate ≠ .none
  | .crash _ => False
  | .err _ _ => True

/-- completion check after an accepted argument, in the `arguments` state -/
theorem complThen_spec (s : PState) (f : Frame) (rest : List Frame) (hs : s.stack = f :: rest)
    (hch : Chain s.stack) (hcs : s.cstate = .arguments)
    (hlive : liveRcb s.brackets + 1 ≤ cmds s.stack) (hpar : rps s.brackets ≤ vars s.stack)
    (htop : Top s s.expected) (hf : f.d.kind = .test ∨ f.d.acceptChildren = false)
    (ts rew : Bool) (hcalm : rew = true → f.d.nonDet = false ∨ reassign f = none) (k : TokKind) :
    GoodRet k (complThen s ts rew) := by
  unfold complThen
  by_cases hft : f.d.kind = .test
  · obtain ⟨c0, c1⟩ := completion_test s f rest hs hch hft ts
    cases hcomp : completion s ts with
    | error e =>
      simp only
      have := ofCmdErr_crash rew e (fun w hw => c0 w (by rw [hcomp, hw]))
      unfold GoodRet
      split <;> simp_all
    | ok r =>
      obtain ⟨b, s'⟩ := r
      simp only
      obtain ⟨j1, j2, j3, j4, j5, j6⟩ := c1 b s' hcomp
      have hcore : Core s' s'.expected :=
        core_args s' _ j3 (by rw [j1, hcs]) (by rw [j2, j4]; exact hlive) (by rw [j2, j5]; exact hpar)
      have hcs' : s'.cstate = .arguments := by rw [j1, hcs]
      cases b with
      | false => exact fun _ => ⟨⟨_, hcore⟩, by rw [hcs']; simp⟩
      | true =>
        refine ⟨⟨hcore, ?_⟩, ?_⟩
        · rcases j6 with ⟨k1, k2⟩ | ⟨_, k2⟩
          · refine ⟨?_, ?_⟩
            · intro h1 h2; rw [k1] at h1 ⊢; rw [k2] at h2; rw [j2]; exact htop.open_ h1 h2
            · intro h1 _; rw [k1] at h1; rw [k2]; exact htop.topv h1 hcs
          · refine ⟨?_, ?_⟩
            · intro h1 h2; rw [k2 rfl h1] at h2; simp at h2
            · intro h1 _; exact Or.inr (Or.inr (k2 rfl h1))
        · intro hr
          right
          rcases j6 with ⟨k1, _⟩ | ⟨k1, _⟩
          · intro g hg; rw [k1, hs] at hg; simp at hg; subst hg; exact hcalm hr
          · intro g hg; exact Or.inl (k1 g hg)
  · have hac : f.d.acceptChildren = false := by
      rcases hf with h | h
      · exact absurd h hft
      · exact h
    obtain ⟨s', hcomp, c1, c2, c3, c4, c5, c6⟩ := completion_leaf s f rest hs hft hac ts
    rw [hcomp]
    simp only
    have htv : topVar s'.stack = false := by
      rw [c1, hs]
      simp only [topVar]
      cases hv : f.d.variableArgs with
      | false => rfl
      | true => rw [hs] at hch; exact absurd (cmdSafe_var _ hch.head.1 hv).1 hft
    refine ⟨⟨core_args s' _ (by rw [c1]; exact hch) (by rw [c2, hcs]) (by rw [c3, c1]; exact hlive)
      (by rw [c3, c1]; exact hpar), ⟨?_, ?_⟩⟩, ?_⟩
    · intro h; rw [htv] at h; simp at h
    · intro h; rw [htv] at h; simp at h
    · intro hr
      right
      intro g hg; rw [c1, hs] at hg; simp at hg; subst hg; exact hcalm hr

end Safe

namespace Safe
open Machine Args ArgsSafe

/-- a block-owning command (not a test) accepts nothing but tests -/
theorem children_reject_scalar (d : CmdDef) (hd : cmdSafe d = true) (hk : d.kind ≠ .test) (hc : d.acceptChildren = true)
    (ld : List Bytes) (st : CState) (t : ArgType) (v : AVal) (add ce : Bool) (hok : StOK d st) (ht : t ≠ .test)
    (st' : CState) (pl : Placement) : checkNextArg d ld st t v add ce ≠ .ok (some (st', pl)) := by
  rcases (cmdSafe_block d hd hc hk).2 with h | h
  · intro hcna
    unfold checkNextArg at hcna
    simp [h] at hcna
  · exact host_rejects_scalar d hd h ld st t v add ce hok ht st' pl

theorem consistent_strs (l : List Bytes) : Consistent .stringlist (.strs l) := by simp [Consistent]
theorem consistent_string (b : Bytes) : Consistent .string (.str b) := by simp [Consistent]
theorem consistent_number (b : Bytes) : Consistent .number (.str b) := by simp [Consistent]
theorem consistent_tag (b : Bytes) : Consistent .tag (.str b) := by simp [Consistent]

/-- a scalar or list value offered to the current command, then the completion check -/
theorem value_then_compl (s : PState) (f : Frame) (rest : List Frame) (hs : s.stack = f :: rest)
    (hch : Chain s.stack) (hlive : liveRcb s.brackets + 1 ≤ cmds s.stack) (hpar : rps s.brackets ≤ vars s.stack)
    (hnv : f.d.variableArgs = false) (t : ArgType) (v : AVal) (hc : Consistent t v) (ht : t ≠ .test)
    (st' : CState) (pl : Placement) (hcna : checkNextArg f.d s.loaded f.st t v = .ok (some (st', pl)))
    (ts : Bool) (k : TokKind) :
    GoodRet k (complThen { s with stack := { f with st := st' } :: rest, cstate := .arguments } ts false) := by
  have hch' := hch
  rw [hs] at hch'
  have hok' : FrameOK { f with st := st' } :=
    ⟨hch'.head.1, checkNextArg_StOK f.d hch'.head.1 s.loaded f.st t v true true hch'.head.2 hc st' pl hcna⟩
  have hchain : Chain ({ f with st := st' } :: rest) := hch'.replace_top hok' rfl rfl
  have hcm : cmds ({ f with st := st' } :: rest) = cmds s.stack := by rw [hs, cmds_cons, cmds_cons]
  have hvr : vars ({ f with st := st' } :: rest) = vars s.stack := by rw [hs, vars_cons, vars_cons]
  apply complThen_spec _ { f with st := st' } rest rfl hchain rfl (by simp only; rw [hcm]; exact hlive)
    (by simp only; rw [hvr]; exact hpar)
  · refine ⟨?_, ?_⟩ <;> intro h <;> simp [topVar, hnv] at h
  · by_cases hk : f.d.kind = .test
    · exact Or.inl hk
    · right
      cases hac : f.d.acceptChildren with
      | false => rfl
      | true => exact absurd hcna (children_reject_scalar f.d hch'.head.1 hk hac s.loaded f.st t v true true hch'.head.2 ht st' pl)
  · intro h; simp at h

theorem var_isHost (d : CmdDef) (hd : cmdSafe d = true) (hv : d.variableArgs = true) : isHost d = true := by
  obtain ⟨a, ha, hat, _⟩ := var_single d hd hv
  simp [isHost, ha, isHostSlot, hat]

theorem stringlistFn_spec (s : PState) (e : Option (List TokKind)) (k : TokKind) (text : Bytes)
    (hcore : Core s e) (hcs : s.cstate = .stringlist) (hk : ∀ ex, e = some ex → k ∈ ex) :
    GoodRet k (stringlistFn s k text) := by
  obtain ⟨h1, b0, hb, hdis⟩ := hcore.cstrl hcs
  have hne : s.cstate ≠ .none := by rw [hcs]; simp
  have hfalse : GoodRet k (.ret false s false) := fun _ => ⟨⟨e, hcore⟩, hne⟩
  have hbound : k ≠ .left_cbracket → liveRcb b0 + 1 ≤ cmds s.stack := by
    intro hkk
    rcases hdis with h | h
    · have := hk _ h; simp at this; exact absurd this hkk
    · exact h
  -- the state after a string or a comma
  have hstay : ∀ (cur : List Bytes) (ex : List TokKind), k ≠ .left_cbracket → ex ≠ [.left_parenthesis] →
      Inv { s with curlist := cur, expected := some ex } := by
    intro cur ex hkk hex
    refine ⟨⟨hcore.chain, ?_, ?_, ?_, hcore.paren⟩, ⟨?_, ?_⟩⟩
    · intro h; simp only at h; rw [hcs] at h; simp at h
    · intro h; simp only at h; rw [hcs] at h; simp at h
    · intro _; exact ⟨h1, b0, hb, Or.inr (hbound hkk)⟩
    · intro _ h; simp only [Option.some.injEq] at h; exact absurd h hex
    · intro _ h; simp only at h; rw [hcs] at h; simp at h
  unfold stringlistFn
  cases k with
  | string =>
    simp only
    split
    · trivial
    · exact ⟨hstay _ _ (by simp) (by simp), by simp⟩
  | comma => exact ⟨hstay _ _ (by simp) (by simp), by simp⟩
  | right_bracket =>
    simp only
    cases hpop : popBracket s .right_bracket with
    | none => trivial
    | some s1 =>
      simp only
      obtain ⟨b, hb', hs1⟩ := popBracket_some s s1 _ hpop
      have hbb : b = b0 := by rw [hb] at hb'; simp at hb'; exact hb'.symm
      subst hbb
      obtain ⟨f, rest, hst⟩ := List.exists_cons_of_ne_nil (hcore.nonempty hne)
      have hst1 : s1.stack = f :: rest := by rw [hs1]; exact hst
      have hch1 : Chain s1.stack := by rw [hs1]; exact hcore.chain
      obtain ⟨c0, c1⟩ := curCheck_spec s1 f rest hst1 hch1 .stringlist (.strs s1.curlist) (consistent_strs _)
      cases hcc : curCheck s1 .stringlist (.strs s1.curlist) with
      | error err =>
        simp only
        have := ofCmdErr_crash false err (fun w hw => c0 w (by rw [hcc, hw]))
        unfold GoodRet
        split <;> simp_all
      | ok r =>
        obtain ⟨bb, s2, pl⟩ := r
        rcases c1 bb s2 pl hcc with ⟨hbf, _⟩ | ⟨hbt, st', hcna, hs2⟩
        · subst hbf
          simp only
          intro h; simp at h
        · subst hbt
          simp only
          subst hs2
          have hch1' := hch1
          rw [hst1] at hch1'
          have hnv : f.d.variableArgs = false := by
            cases hv : f.d.variableArgs with
            | false => rfl
            | true =>
              exact absurd hcna (host_rejects_scalar f.d hch1'.head.1 (var_isHost _ hch1'.head.1 hv) s1.loaded f.st
                .stringlist _ true true hch1'.head.2 (by simp) st' pl)
          have hb1 : s1.brackets = b := by rw [hs1]
          exact value_then_compl s1 f rest hst1 hch1
            (by rw [hb1, hs1]; exact hbound (by simp)) (by rw [hb1, hs1]; have := hcore.paren; rw [hb] at this; simpa using this)
            hnv .stringlist _ (consistent_strs _) (by simp) st' pl hcna true _
  | left_cbracket => exact hfalse
  | semicolon => exact hfalse
  | left_bracket => exact hfalse
  | left_parenthesis => exact hfalse
  | right_parenthesis => exact hfalse
  | right_cbracket => exact hfalse
  | hash_comment => exact hfalse
  | bracket_comment => exact hfalse
  | multiline => exact hfalse
  | identifier => exact hfalse
  | tag => exact hfalse
  | number => exact hfalse

end Safe

namespace Safe
open Machine Args ArgsSafe

/-- `HasflagCommand.reassign_arguments` keeps the frame invariant -/
theorem reassign_ok (f f' : Frame) (hok : FrameOK f) (h : reassign f = some f') :
    FrameOK f' ∧ f'.d = f.d ∧ f'.attach = f.attach := by
  unfold reassign at h
  split at h
  · rename_i hsp
    split at h
    · split at h
      · simp at h
      · simp only [Option.some.injEq] at h
        subst h
        obtain ⟨hrc1, hrc2⟩ := cmdSafe_nondet f.d hok.1 (Or.inr hsp)
        have hnv : f.d.variableArgs = false := by
          cases hv : f.d.variableArgs with
          | false => rfl
          | true =>
            obtain ⟨_, _, _, _, _, hsp'⟩ := cmdSafe_host f.d hok.1 (var_isHost _ hok.1 hv)
            rw [hsp'] at hsp; simp at hsp
        refine ⟨⟨hok.1, ?_, hok.2.cur, Or.inr ⟨hrc2.symm, hnv⟩, ?_⟩, rfl, rfl⟩
        · intro hany
          rw [← cmdSafe_var_iff f.d hok.1, hnv] at hany
          simp at hany
        · intro hv; simp only at hv; rw [hnv] at hv; simp at hv
    · simp at h
  · simp at h

/-- `[` met in the `arguments` state: the list state is entered, then the completion check runs -/
theorem bracketOpen_spec (s : PState) (e : Option (List TokKind)) (f : Frame) (rest : List Frame)
    (hs : s.stack = f :: rest) (hcore : Core s e) (hcs : s.cstate = .arguments)
    (sb : PState) (g1 : sb.stack = s.stack) (g2 : sb.cstate = .stringlist)
    (g3 : sb.brackets = .right_bracket :: s.brackets) (g4 : sb.expected = some [.string]) (k : TokKind) :
    GoodRet k (complThen sb false false) := by
  have hlive := hcore.cargs hcs
  have hpar := hcore.paren
  have hch := hcore.chain
  have hch' := hch
  rw [hs] at hch'
  have h1 : 1 ≤ cmds s.stack := by omega
  have hsb : sb.stack = f :: rest := by rw [g1, hs]
  have hchb : Chain sb.stack := by rw [g1]; exact hch
  -- any state with the same stack measures, the list bracket on top and the list state
  have mk : ∀ (s3 : PState) (b : Bool), s3.cstate = .stringlist → s3.brackets = .right_bracket :: s.brackets →
      Chain s3.stack → cmds s3.stack = cmds s.stack → vars s3.stack = vars s.stack →
      (b = true → topVar s3.stack = true → s3.expected ≠ some [.left_parenthesis]) →
      GoodRet k (.ret b s3 false) := by
    intro s3 b c1 c2 c3 c4 c5 c6
    have hcore3 : Core s3 s3.expected := by
      refine ⟨c3, ?_, ?_, ?_, by rw [c2, c5]; simpa using hpar⟩
      · intro h; rw [c1] at h; simp at h
      · intro h; rw [c1] at h; simp at h
      · intro _; exact ⟨by rw [c4]; exact h1, s.brackets, c2, Or.inr (by rw [c4]; exact hlive)⟩
    cases b with
    | false => exact fun _ => ⟨⟨_, hcore3⟩, by rw [c1]; simp⟩
    | true =>
      refine ⟨⟨hcore3, ⟨?_, ?_⟩⟩, by simp⟩
      · intro h1 h2; exact absurd h2 (c6 rfl h1)
      · intro _ h; rw [c1] at h; simp at h
  have unchanged : GoodRet k (.ret true sb false) :=
    mk sb true g2 g3 hchb (by rw [g1]) (by rw [g1]) (fun _ _ => by rw [g4]; simp)
  unfold complThen
  by_cases hft : f.d.kind = .test
  · obtain ⟨c0, c1⟩ := completion_test sb f rest hsb hchb hft false
    cases hcomp : completion sb false with
    | error err =>
      simp only
      have := ofCmdErr_crash false err (fun w hw => c0 w (by rw [hcomp, hw]))
      unfold GoodRet
      split <;> simp_all
    | ok r =>
      obtain ⟨b, s3⟩ := r
      simp only
      obtain ⟨j1, j2, j3, j4, j5, j6⟩ := c1 b s3 hcomp
      refine mk s3 b (by rw [j1, g2]) (by rw [j2, g3]) j3 (by rw [j4, g1]) (by rw [j5, g1]) ?_
      intro hb htv
      rcases j6 with ⟨_, k2⟩ | ⟨_, k2⟩
      · rw [k2, g4]; simp
      · rw [k2 hb htv]; simp
  · have hfnv : f.d.variableArgs = false := by
      cases hv : f.d.variableArgs with
      | false => rfl
      | true => exact absurd (cmdSafe_var _ hch'.head.1 hv).1 hft
    cases hac : f.d.acceptChildren with
    | false =>
      obtain ⟨s', hcomp, _, _, _, _, c5, _⟩ := completion_leaf sb f rest hsb hft hac false
      have := c5 rfl
      subst this
      rw [hcomp]
      exact unchanged
    | true =>
      have hfc : f.d.kind = .control := (cmdSafe_block f.d hch'.head.1 hac hft).1
      unfold completion
      rw [hsb]
      simp only
      by_cases hcm : Frame.complete f = true
      · simp only [hcm, Bool.not_true, Bool.false_eq_true, if_false]
        have hna : (f.d.kind == .action || (f.d.kind == .control && !f.d.acceptChildren)) = false := by simp [hfc, hac]
        simp only [hna, Bool.false_eq_true, if_false]
        cases rest with
        | nil =>
          simp only [complLoop]
          have : ({ sb with stack := [f], expected := sb.expected } : PState) = sb := by
            obtain ⟨a1, a2, a3, a4, a5, a6, a7, a8⟩ := sb
            simp only at hsb
            subst hsb
            rfl
          rw [this]
          exact unchanged
        | cons p r =>
          have hpk : p.d.kind ≠ .test := hch'.below_nontest hft p (by simp)
          have hpl : LowerOK (plug p f.attach (Frame.toNode f)) := plug_lower _ _ _ hch'.2.2.1
          have hchp : Chain (plug p f.attach (Frame.toNode f) :: r) := hch'.pop_plug _
          obtain ⟨hpc, hpcomp⟩ := lower_nontest _ hchp.head hpl (by rw [plug_d]; exact hpk)
          unfold complLoop
          simp only [hpc, hpcomp, beq_self_eq_true, Bool.true_or, if_true]
          have hpv : (plug p f.attach (Frame.toNode f)).d.variableArgs = false := complete_not_var _ hpcomp
          refine ⟨⟨⟨hchp, ?_, ?_, ?_, ?_⟩, ⟨?_, ?_⟩⟩, by simp⟩
          · intro h; simp only at h; rw [g2] at h; simp at h
          · intro h; simp only at h; rw [g2] at h; simp at h
          · intro _
            refine ⟨?_, s.brackets, g3, Or.inl rfl⟩
            simp only [cmds_cons, hpc]; simp
          · simp only
            rw [g3, vars_cons, hpv]
            rw [hs, vars_cons, vars_cons, hfnv] at hpar
            rw [plug_d] at hpv
            simp [hpv] at hpar ⊢
            exact hpar
          · intro h; simp [topVar, hpv] at h
          · intro h; simp [topVar, hpv] at h
      · simp only [hcm, Bool.not_false, if_true]
        exact unchanged

end Safe

namespace Safe
open Machine Args ArgsSafe

theorem ofCmdErr_good (k : TokKind) (rew : Bool) (e : CmdErr) (h : ∀ w, e ≠ .crash w) :
    GoodRet k (ofCmdErr rew e) ∧ GoodRet k (thenCompl (ofCmdErr rew e)) := by
  cases e with
  | crash w => exact absurd rfl (h w)
  | badValue a => simp [ofCmdErr, GoodRet, thenCompl]
  | badArgument c => simp [ofCmdErr, GoodRet, thenCompl]
  | extNotLoaded x => simp [ofCmdErr, GoodRet, thenCompl]

theorem with_stack_args (s : PState) (hcs : s.cstate = .arguments) (st : List Frame) :
    ({ s with stack := st } : PState) = { s with stack := st, cstate := .arguments } := by
  obtain ⟨a1, a2, a3, a4, a5, a6, a7, a8⟩ := s
  simp only at hcs
  subst hcs
  rfl

theorem offer_compl_spec (s : PState) (e : Option (List TokKind)) (f : Frame) (rest : List Frame)
    (hs : s.stack = f :: rest) (hcore : Core s e) (hcs : s.cstate = .arguments)
    (hnv : f.d.variableArgs = false) (t : ArgType) (v : AVal) (hc : Consistent t v) (ht : t ≠ .test) (k : TokKind) :
    GoodRet k (thenCompl (offer s t v)) := by
  have hne : s.cstate ≠ .none := by rw [hcs]; simp
  obtain ⟨c0, c1⟩ := curCheck_spec s f rest hs hcore.chain t v hc
  unfold offer
  cases hcc : curCheck s t v with
  | error err =>
    simp only
    exact (ofCmdErr_good k false err (fun w hw => c0 w (by rw [hcc, hw]))).2
  | ok r =>
    obtain ⟨b, s2, pl⟩ := r
    simp only
    rcases c1 b s2 pl hcc with ⟨hbf, hs2⟩ | ⟨hbt, st', hcna, hs2⟩
    · subst hbf; subst hs2
      exact fun _ => ⟨⟨e, hcore⟩, hne⟩
    · subst hbt
      simp only [thenCompl]
      rw [hs2, with_stack_args s hcs]
      exact value_then_compl s f rest hs hcore.chain (hcore.cargs hcs) hcore.paren hnv t v hc ht st' pl hcna false k

theorem tryReassign_spec (s : PState) (e : Option (List TokKind)) (f : Frame) (rest : List Frame)
    (hs : s.stack = f :: rest) (hcore : Core s e) (hcs : s.cstate = .arguments) (k : TokKind) :
    GoodRet k (thenCompl (tryReassign s)) := by
  have hne : s.cstate ≠ .none := by rw [hcs]; simp
  have hfalse : GoodRet k (thenCompl (.ret false s false)) := fun _ => ⟨⟨e, hcore⟩, hne⟩
  have hch := hcore.chain
  rw [hs] at hch
  unfold tryReassign
  rw [hs]
  simp only
  by_cases hnd : f.d.nonDet = true
  · simp only [hnd, if_true]
    cases hre : reassign f with
    | none => exact hfalse
    | some f' =>
      simp only [thenCompl]
      obtain ⟨hok', hd', ha'⟩ := reassign_ok f f' hch.head hre
      have hkt : f.d.kind = .test := (cmdSafe_nondet f.d hch.head.1 (Or.inl hnd)).1
      have hfv : f.d.variableArgs = false := by
        cases hv : f.d.variableArgs with
        | false => rfl
        | true =>
          obtain ⟨_, _, _, _, hn, _⟩ := cmdSafe_host f.d hch.head.1 (var_isHost _ hch.head.1 hv)
          rw [hn] at hnd; simp at hnd
      have hchain : Chain (f' :: rest) := hch.replace_top hok' hd' ha'
      have hwt : withTop s f' = { s with stack := f' :: rest } := by simp [withTop, hs]
      rw [hwt]
      have hcm : cmds (f' :: rest) = cmds s.stack := by rw [hs, cmds_cons, cmds_cons, hd']
      have hvr : vars (f' :: rest) = vars s.stack := by rw [hs, vars_cons, vars_cons, hd']
      apply complThen_spec { s with stack := f' :: rest } f' rest rfl hchain hcs (by simp only; rw [hcm]; exact hcore.cargs hcs)
        (by simp only; rw [hvr]; exact hcore.paren)
      · refine ⟨?_, ?_⟩ <;> intro h <;> simp [topVar, hd', hfv] at h
      · exact Or.inl (by rw [hd']; exact hkt)
      · intro _; exact Or.inr (reassign_once f f' hre)
  · simp only [hnd, Bool.false_eq_true, if_false]
    exact hfalse

theorem argThenCompl_spec (s : PState) (e : Option (List TokKind)) (f : Frame) (rest : List Frame)
    (hs : s.stack = f :: rest) (hcore : Core s e) (hcs : s.cstate = .arguments)
    (hnv : f.d.variableArgs = false) (k : TokKind) (text : Bytes) :
    GoodRet k (argThenCompl s k text) := by
  have hne : s.cstate ≠ .none := by rw [hcs]; simp
  have hfalse : GoodRet k (thenCompl (.ret false s false)) := fun _ => ⟨⟨e, hcore⟩, hne⟩
  unfold argThenCompl argumentFn
  cases k with
  | string =>
    simp only
    split
    · simp [thenCompl, GoodRet]
    · exact offer_compl_spec s e f rest hs hcore hcs hnv .string _ (consistent_string _) (by simp) _
  | multiline =>
    simp only
    split
    · simp [thenCompl, GoodRet]
    · exact offer_compl_spec s e f rest hs hcore hcs hnv .string _ (consistent_string _) (by simp) _
  | number => exact offer_compl_spec s e f rest hs hcore hcs hnv .number _ (consistent_number _) (by simp) _
  | tag => exact offer_compl_spec s e f rest hs hcore hcs hnv .tag _ (consistent_tag _) (by simp) _
  | left_bracket =>
    simp only [thenCompl]
    exact bracketOpen_spec s e f rest hs hcore hcs (openList s) rfl rfl rfl rfl _
  | left_cbracket => exact tryReassign_spec s e f rest hs hcore hcs _
  | comma => exact tryReassign_spec s e f rest hs hcore hcs _
  | right_parenthesis => exact tryReassign_spec s e f rest hs hcore hcs _
  | semicolon => exact hfalse
  | right_bracket => exact hfalse
  | left_parenthesis => exact hfalse
  | right_cbracket => exact hfalse
  | hash_comment => exact hfalse
  | bracket_comment => exact hfalse
  | identifier => exact hfalse

end Safe

namespace Safe
open Machine Args ArgsSafe

theorem pushTest_spec (T : Table) (hT : TableSafe T) (s : PState) (e : Option (List TokKind)) (f : Frame)
    (rest : List Frame) (hs : s.stack = f :: rest) (hcore : Core s e) (hcs : s.cstate = .arguments)
    (text : Bytes) (k : TokKind) : GoodRet k (pushTest T s text) := by
  have hne : s.cstate ≠ .none := by rw [hcs]; simp
  have hch := hcore.chain
  have hch' := hch
  rw [hs] at hch'
  unfold pushTest
  cases hget : getCommand T s.loaded text with
  | error err => simp [GoodRet]
  | ok d =>
    simp only
    have hdsafe : cmdSafe d = true := hT d (getCommand_mem T _ _ _ d hget)
    by_cases hdt : (d.kind != .test) = true
    · simp [hdt, GoodRet]
    · simp only [hdt, Bool.false_eq_true, if_false]
      have hdk : d.kind = .test := by simpa using hdt
      obtain ⟨c0, c1⟩ := curCheck_spec s f rest hs hch .test (.test (.mk d.name [] [] [] [])) (consistent_test_node _)
      cases hcc : curCheck s .test (.test (.mk d.name [] [] [] [])) with
      | error err =>
        simp only
        exact (ofCmdErr_good k false err (fun w hw => c0 w (by rw [hcc, hw]))).1
      | ok r =>
        obtain ⟨b, s1, pl⟩ := r
        rcases c1 b s1 pl hcc with ⟨hbf, hs1⟩ | ⟨hbt, st', hcna, hs1⟩
        · subst hbf; subst hs1
          exact fun _ => ⟨⟨e, hcore⟩, hne⟩
        · subst hbt
          simp only
          subst hs1
          simp only
          obtain ⟨hhost, hdone, hpl⟩ := test_accept_host f.d hch'.head.1 s.loaded f.st _ true true hch'.head.2 st' pl hcna
          obtain ⟨_, _, _, hka, hnd, _⟩ := cmdSafe_host f.d hch'.head.1 hhost
          have hok1 : FrameOK { f with st := st' } :=
            ⟨hch'.head.1, checkNextArg_StOK f.d hch'.head.1 s.loaded f.st .test _ true true hch'.head.2
              (consistent_test_node _) st' pl hcna⟩
          have hch1 : Chain ({ f with st := st' } :: rest) := hch'.replace_top hok1 rfl rfl
          have hlow : LowerOK { f with st := st' } := ⟨hdone, hnd, hka⟩
          have hnew : FrameOK { d := d, attach := .place pl } := ⟨hdsafe, StOK.init d⟩
          have hchain : Chain ({ d := d, attach := .place pl } :: { f with st := st' } :: rest) :=
            ⟨hnew, by intro pl' h; simp at h; subst h; exact hpl, hlow, fun h => absurd hdk h, hch1⟩
          have hcm : cmds ({ d := d, attach := .place pl } :: { f with st := st' } :: rest) = cmds s.stack := by
            rw [hs, cmds_cons, cmds_cons, cmds_cons]; simp [hdk]
          have hvr : vars ({ d := d, attach := .place pl } :: { f with st := st' } :: rest)
              = (if d.variableArgs then 1 else 0) + vars s.stack := by
            rw [hs, vars_cons, vars_cons, vars_cons]
          apply complThen_spec ⟨s.result, s.comments, { d := d, attach := .place pl } :: { f with st := st' } :: rest, s.cstate, s.curlist, d.expectedFirst, s.brackets, s.loaded⟩
            { d := d, attach := .place pl } ({ f with st := st' } :: rest) rfl hchain hcs
            (by simp only; rw [hcm]; exact hcore.cargs hcs)
            (by simp only; rw [hvr]; have := hcore.paren; omega)
          · refine ⟨?_, ?_⟩
            · intro htv _
              simp only [topVar] at htv
              simp only
              rw [hvr, htv]
              have := hcore.paren
              simp; omega
            · intro htv _
              simp only [topVar] at htv
              exact Or.inl (cmdSafe_var d hdsafe htv).2
          · exact Or.inl hdk
          · intro h; simp at h

theorem record_fields (s : PState) (f : Frame) (rest : List Frame) :
    (record s f rest).cstate = s.cstate ∧ (record s f rest).brackets = s.brackets := by
  unfold record; split <;> exact ⟨rfl, rfl⟩

theorem closeParen_spec (s : PState) (e : Option (List TokKind)) (f : Frame) (rest : List Frame)
    (hs : s.stack = f :: rest) (hcore : Core s e) (hcs : s.cstate = .arguments) (k : TokKind) :
    GoodRet k (closeParen s) := by
  unfold closeParen
  cases hpop : popBracket s .right_parenthesis with
  | none => simp [GoodRet]
  | some s1 =>
    simp only
    obtain ⟨b, hb, hs1⟩ := popBracket_some s s1 _ hpop
    have hpar := hcore.paren
    have hlive := hcore.cargs hcs
    rw [hb] at hpar hlive
    simp at hpar hlive
    have hch := hcore.chain
    rw [hs] at hch
    have hft : f.d.kind = .test := hch.top_test (by rw [← hs]; omega)
    obtain ⟨u1, u2, u3, u4, u5⟩ := upLoop_spec f rest hch
    have hst1 : s1.stack = f :: rest := by rw [hs1]; exact hs
    unfold up
    rw [hst1]
    simp only
    obtain ⟨r1, r2⟩ := record_fields s1 f rest
    have hcmds : cmds (upLoop f rest).1 = cmds s.stack := by rw [u2, hs, cmds_cons]; simp [hft]
    have hvars : vars s.stack ≤ vars (upLoop f rest).1 + 1 := by
      rw [u3, hs, vars_cons]; split <;> omega
    have hb1 : s1.brackets = b := by rw [hs1]
    have hc1 : s1.cstate = .arguments := by rw [hs1]; exact hcs
    refine ⟨⟨core_args _ _ u1 (by simp only; rw [r1, hc1]) ?_ ?_, ⟨?_, ?_⟩⟩, by simp⟩
    · simp only; rw [r2, hb1, hcmds]; exact hlive
    · simp only; rw [r2, hb1]; omega
    · intro htv hex
      simp only at htv hex
      cases hst : (upLoop f rest).1 with
      | nil => rw [hst] at htv; simp [topVar] at htv
      | cons g r =>
        rw [hst] at htv
        simp only [topVar] at htv
        have := (u4 g (by rw [hst]; rfl)).2
        rw [this, htv] at hex
        simp at hex
    · intro htv _
      simp only at htv ⊢
      cases hst : (upLoop f rest).1 with
      | nil => rw [hst] at htv; simp [topVar] at htv
      | cons g r =>
        rw [hst] at htv
        simp only [topVar] at htv
        have := (u4 g (by rw [hst]; rfl)).2
        rw [this, htv]
        simp

end Safe

namespace Safe
open Machine Args ArgsSafe

theorem argumentsFn_spec (T : Table) (hT : TableSafe T) (s : PState) (e : Option (List TokKind)) (k : TokKind)
    (text : Bytes) (hcore : Core s e) (htop : Top s e) (hcs : s.cstate = .arguments)
    (hk : ∀ ex, e = some ex → k ∈ ex) : GoodRet k (argumentsFn T s k text) := by
  have hne : s.cstate ≠ .none := by rw [hcs]; simp
  obtain ⟨f, rest, hs⟩ := List.exists_cons_of_ne_nil (hcore.nonempty hne)
  have hch := hcore.chain
  rw [hs] at hch
  -- a variable-arity test on top admits only `(`, an identifier, `,` or `)`
  have hvar_tok : f.d.variableArgs = true →
      (k = .left_parenthesis ∧ e = some [.left_parenthesis]) ∨ k = .identifier ∨ k = .comma ∨ k = .right_parenthesis := by
    intro hv
    have htv : topVar s.stack = true := by rw [hs]; exact hv
    rcases htop.topv htv hcs with h | h | h
    · have := hk _ h; simp at this; exact Or.inl ⟨this, h⟩
    · have := hk _ h; simp at this; exact Or.inr (Or.inl this)
    · have := hk _ h; simp at this
      rcases this with h1 | h1
      · exact Or.inr (Or.inr (Or.inl h1))
      · exact Or.inr (Or.inr (Or.inr h1))
  have other : (k ≠ .left_parenthesis ∧ k ≠ .identifier ∧ k ≠ .comma ∧ k ≠ .right_parenthesis) →
      GoodRet k (argThenCompl s k text) := by
    intro ⟨n1, n2, n3, n4⟩
    have hnv : f.d.variableArgs = false := by
      cases hv : f.d.variableArgs with
      | false => rfl
      | true =>
        rcases hvar_tok hv with ⟨h, _⟩ | h | h | h
        · exact absurd h n1
        · exact absurd h n2
        · exact absurd h n3
        · exact absurd h n4
    exact argThenCompl_spec s e f rest hs hcore hcs hnv k text
  have hcargs' : liveRcb s.brackets + 1 ≤ cmds (f :: rest) := by rw [← hs]; exact hcore.cargs hcs
  have hparen' : rps s.brackets ≤ vars (f :: rest) := by rw [← hs]; exact hcore.paren
  unfold argumentsFn
  rw [hs]
  simp only
  cases k with
  | identifier => exact pushTest_spec T hT s e f rest hs hcore hcs text _
  | left_parenthesis =>
    simp only
    by_cases hv : f.d.variableArgs = true
    · simp only [hv, if_true]
      have he : e = some [.left_parenthesis] := by
        rcases hvar_tok hv with ⟨_, h⟩ | h | h | h <;> simp_all
      have htv : topVar s.stack = true := by rw [hs]; exact hv
      have hopen := htop.open_ htv he
      rw [hs] at hopen
      refine ⟨⟨core_args _ _ hch hcs (by simpa using hcargs') (by simpa using hopen), ⟨?_, ?_⟩⟩, by simp⟩
      · intro _ h; simp at h
      · intro _ _; exact Or.inr (Or.inl rfl)
    · simp only [hv, Bool.false_eq_true, if_false]
      exact argThenCompl_spec s e f rest hs hcore hcs (by simpa using hv) _ text
  | comma =>
    simp only
    by_cases hv : f.d.variableArgs = true
    · simp only [hv, if_true]
      refine ⟨⟨core_args _ _ hch hcs hcargs' hparen', ⟨?_, ?_⟩⟩, by simp⟩
      · intro _ h; simp at h
      · intro _ _; exact Or.inr (Or.inl rfl)
    · simp only [hv, Bool.false_eq_true, if_false]
      exact argThenCompl_spec s e f rest hs hcore hcs (by simpa using hv) _ text
  | right_parenthesis =>
    simp only
    by_cases hnd : f.d.nonDet = true
    · simp only [hnd, if_true]
      have hnv : f.d.variableArgs = false := by
        cases hv : f.d.variableArgs with
        | false => rfl
        | true =>
          obtain ⟨_, _, _, _, hn, _⟩ := cmdSafe_host f.d hch.head.1 (var_isHost _ hch.head.1 hv)
          rw [hn] at hnd; simp at hnd
      exact argThenCompl_spec s e f rest hs hcore hcs hnv _ text
    · simp only [hnd, Bool.false_eq_true, if_false]
      exact closeParen_spec s e f rest hs hcore hcs _
  | string => exact other (by simp)
  | multiline => exact other (by simp)
  | number => exact other (by simp)
  | tag => exact other (by simp)
  | left_bracket => exact other (by simp)
  | right_bracket => exact other (by simp)
  | left_cbracket => exact other (by simp)
  | right_cbracket => exact other (by simp)
  | semicolon => exact other (by simp)
  | hash_comment => exact other (by simp)
  | bracket_comment => exact other (by simp)

/-- what `__command` does with the answer of the state function -/
theorem close_after (s : PState) (k : TokKind) (r : FnResult) (h : GoodRet k r) :
    match (match r with
           | .ret false s' rew => closeCommand s' k rew
           | r => r) with
    | .ret true s2 rew => Inv s2 ∧ (rew = true → Calm s2)
    | .crash _ => False
    | _ => True := by
  cases r with
  | ret b s' rew =>
    cases b with
    | true => exact h
    | false =>
      simp only
      by_cases hkk : k = .left_cbracket ∨ k = .semicolon
      · obtain ⟨⟨e', hc'⟩, hne'⟩ := h hkk
        have h2 := closeCommand_spec s' e' k rew hc' hne'
        split at h2
        · exact ⟨h2.1, fun _ => Or.inl h2.2⟩
        · exact h2
        · trivial
      · have h1 : (k == .left_cbracket) = false := by
          cases k <;> simp at hkk ⊢
        have h2 : (k == .semicolon) = false := by
          cases k <;> simp at hkk ⊢
        unfold closeCommand
        simp [h1, h2]
  | err e rew => trivial
  | crash w => exact h

/-- one call of `__command` -/
theorem commandFn_spec (T : Table) (hT : TableSafe T) (s : PState) (e : Option (List TokKind)) (k : TokKind)
    (text : Bytes) (hcore : Core s e) (htop : Top s e) (hk : ∀ ex, e = some ex → k ∈ ex) :
    match commandFn T s k text with
    | .ret true s2 rew => Inv s2 ∧ (rew = true → Calm s2)
    | .crash _ => False
    | _ => True := by
  unfold commandFn
  cases hcs : s.cstate with
  | none =>
    simp only
    have := startCommand_spec T hT s e k text hcore hcs
    split at this
    · exact ⟨this.1, fun h => by rw [this.2] at h; simp at h⟩
    · exact this
    · trivial
  | arguments =>
    simp only
    have hst : stateFn T s k text = argumentsFn T s k text := by unfold stateFn; rw [hcs]
    rw [hst]
    exact close_after s k _ (argumentsFn_spec T hT s e k text hcore htop hcs hk)
  | stringlist =>
    simp only
    have hst : stateFn T s k text = stringlistFn s k text := by unfold stateFn; rw [hcs]
    rw [hst]
    exact close_after s k _ (stringlistFn_spec s e k text hcore hcs hk)

end Safe

namespace Safe
open Machine Args ArgsSafe

/-! ## a token is re-delivered at most once -/

def isRew (r : FnResult) : Bool :=
  match r with
  | .ret _ _ true => true
  | _ => false

theorem isRew_ofCmdErr (rew : Bool) (e : CmdErr) : isRew (ofCmdErr rew e) = false := by
  cases e <;> rfl

theorem isRew_complThen (s : PState) (ts rew : Bool) (h : isRew (complThen s ts rew) = true) : rew = true := by
  unfold complThen at h
  split at h
  · rw [isRew_ofCmdErr] at h; simp at h
  · cases rew with
    | true => rfl
    | false => simp [isRew] at h

theorem isRew_thenCompl (r : FnResult) (h : isRew (thenCompl r) = true) : isRew r = true := by
  unfold thenCompl at h
  split at h
  · rename_i s' rew
    have := isRew_complThen _ _ _ h
    subst this
    rfl
  · exact h

theorem isRew_offer (s : PState) (t : ArgType) (v : AVal) : isRew (offer s t v) = false := by
  unfold offer
  split
  · exact isRew_ofCmdErr _ _
  · rfl

def CanReassign (s : PState) : Prop :=
  ∃ f rest f', s.stack = f :: rest ∧ f.d.nonDet = true ∧ reassign f = some f'

theorem isRew_tryReassign (s : PState) (h : isRew (tryReassign s) = true) : CanReassign s := by
  unfold tryReassign at h
  split at h
  · simp [isRew] at h
  · rename_i f rest heq
    split at h
    · rename_i hnd
      split at h
      · simp [isRew] at h
      · rename_i f' hre
        exact ⟨f, rest, f', heq, hnd, hre⟩
    · simp [isRew] at h

theorem isRew_argThenCompl (s : PState) (k : TokKind) (text : Bytes) (h : isRew (argThenCompl s k text) = true) :
    CanReassign s := by
  unfold argThenCompl at h
  have h2 := isRew_thenCompl _ h
  have hoff : ∀ t v, isRew (if (!Utf8.valid text) = true then FnResult.err PErr.decodeError false else offer s t v) = false := by
    intro t v; split
    · rfl
    · exact isRew_offer s t v
  cases k with
  | string => simp only [argumentFn] at h2; rw [hoff] at h2; simp at h2
  | multiline => simp only [argumentFn] at h2; rw [hoff] at h2; simp at h2
  | number => simp only [argumentFn] at h2; rw [isRew_offer] at h2; simp at h2
  | tag => simp only [argumentFn] at h2; rw [isRew_offer] at h2; simp at h2
  | left_bracket => simp [argumentFn, isRew] at h2
  | left_cbracket => exact isRew_tryReassign s h2
  | comma => exact isRew_tryReassign s h2
  | right_parenthesis => exact isRew_tryReassign s h2
  | semicolon => simp [argumentFn, isRew] at h2
  | right_bracket => simp [argumentFn, isRew] at h2
  | left_parenthesis => simp [argumentFn, isRew] at h2
  | right_cbracket => simp [argumentFn, isRew] at h2
  | hash_comment => simp [argumentFn, isRew] at h2
  | bracket_comment => simp [argumentFn, isRew] at h2
  | identifier => simp [argumentFn, isRew] at h2

theorem isRew_pushTest (T : Table) (s : PState) (text : Bytes) : isRew (pushTest T s text) = false := by
  unfold pushTest
  split
  · rfl
  · split
    · rfl
    · split
      · exact isRew_ofCmdErr _ _
      · rfl
      · cases h : isRew (complThen _ false false) with
        | false => rfl
        | true => have := isRew_complThen _ _ _ h; simp at this

theorem isRew_closeParen (s : PState) : isRew (closeParen s) = false := by
  unfold closeParen
  split
  · rfl
  · split <;> rfl

theorem isRew_argumentsFn (T : Table) (s : PState) (k : TokKind) (text : Bytes)
    (h : isRew (argumentsFn T s k text) = true) : CanReassign s := by
  unfold argumentsFn at h
  split at h
  · simp [isRew] at h
  · split at h
    · rw [isRew_pushTest] at h; simp at h
    · split at h
      · simp [isRew] at h
      · exact isRew_argThenCompl s _ text h
    · split at h
      · simp [isRew] at h
      · exact isRew_argThenCompl s _ text h
    · split at h
      · exact isRew_argThenCompl s _ text h
      · rw [isRew_closeParen] at h; simp at h
    · exact isRew_argThenCompl s _ text h

theorem isRew_stringlistFn (s : PState) (k : TokKind) (text : Bytes) : isRew (stringlistFn s k text) = false := by
  unfold stringlistFn
  split
  · split <;> rfl
  · rfl
  · split
    · rfl
    · split
      · exact isRew_ofCmdErr _ _
      · rfl
      · cases h : isRew (complThen _ true false) with
        | false => rfl
        | true => have := isRew_complThen _ _ _ h; simp at this
  · rfl

theorem isRew_startCommand (T : Table) (s : PState) (k : TokKind) (text : Bytes) :
    isRew (startCommand T s k text) = false := by
  unfold startCommand
  split
  · split
    · rfl
    · split <;> rfl
  · split
    · rfl
    · split
      · rfl
      · split
        · rfl
        · split
          · rfl
          · unfold pushCommand
            split
            · rfl
            · split <;> rfl

theorem isRew_closeCommand (s' : PState) (k : TokKind) (rew : Bool) (h : isRew (closeCommand s' k rew) = true) :
    rew = true := by
  cases rew with
  | true => rfl
  | false =>
    exfalso
    unfold closeCommand at h
    split at h
    · split at h
      · simp [isRew] at h
      · split at h <;> simp [isRew] at h
    · split at h
      · split at h
        · simp [isRew] at h
        · split at h
          · simp [isRew] at h
          · split at h
            · rw [isRew_ofCmdErr] at h; simp at h
            · simp [isRew] at h
            · split at h
              · simp [isRew] at h
              · simp only at h
                split at h <;> simp [isRew] at h
      · simp [isRew] at h

theorem isRew_commandFn (T : Table) (s : PState) (k : TokKind) (text : Bytes)
    (h : isRew (commandFn T s k text) = true) : s.cstate ≠ .none ∧ CanReassign s := by
  unfold commandFn at h
  split at h
  · rw [isRew_startCommand] at h; simp at h
  · rename_i hcs
    refine ⟨by intro hc; exact hcs hc, ?_⟩
    have key : isRew (stateFn T s k text) = true := by
      split at h
      · rename_i s' rew heq
        have := isRew_closeCommand s' k rew h
        subst this
        rw [heq]; rfl
      · exact h
    unfold stateFn at key
    split at key
    · rw [isRew_stringlistFn] at key; simp at key
    · exact isRew_argumentsFn T s k text key

end Safe

namespace Safe
open Machine Args ArgsSafe

theorem Core.congr {s s' : PState} {e} (h : Core s e) (h1 : s'.stack = s.stack) (h2 : s'.cstate = s.cstate)
    (h3 : s'.brackets = s.brackets) : Core s' e :=
  ⟨by rw [h1]; exact h.chain, by rw [h1, h2, h3]; exact h.cnone, by rw [h1, h2, h3]; exact h.cargs,
   by rw [h1, h2, h3]; exact h.cstrl, by rw [h1, h3]; exact h.paren⟩

theorem Top.congr {s s' : PState} {e} (h : Top s e) (h1 : s'.stack = s.stack) (h2 : s'.cstate = s.cstate)
    (h3 : s'.brackets = s.brackets) : Top s' e :=
  ⟨by rw [h1, h3]; exact h.open_, by rw [h1, h2]; exact h.topv⟩

def GoodStep (r : StepResult) : Prop :=
  match r with
  | .ok s' => Inv s'
  | .rewind s' => Inv s' ∧ Calm s'
  | .crash _ => False
  | .reject _ _ => True

theorem ofFn_good (r : FnResult)
    (h : match r with
         | .ret true s2 rew => Inv s2 ∧ (rew = true → Calm s2)
         | .crash _ => False
         | _ => True) : GoodStep (ofFn r) := by
  cases r with
  | ret b s2 rew =>
    cases b with
    | true =>
      cases rew with
      | false => exact h.1
      | true => exact ⟨h.1, h.2 rfl⟩
    | false => trivial
  | err e rew => trivial
  | crash w => exact h

theorem stepTok_spec (T : Table) (hT : TableSafe T) (s : PState) (k : TokKind) (text : Bytes) (hinv : Inv s) :
    GoodStep (stepTok T s k text) := by
  unfold stepTok admitTok
  cases hexp : s.expected with
  | none =>
    simp only
    have hc : Core s none := by rw [← hexp]; exact hinv.1
    have ht : Top s none := by rw [← hexp]; exact hinv.2
    exact ofFn_good _ (commandFn_spec T hT s none k text hc ht (by intro ex h; simp at h))
  | some exp =>
    simp only
    by_cases hin : k ∈ exp
    · simp only [hin, decide_true, if_true]
      have hc : Core { s with expected := none } (some exp) := (hexp ▸ hinv.1).congr rfl rfl rfl
      have ht : Top { s with expected := none } (some exp) := (hexp ▸ hinv.2).congr rfl rfl rfl
      exact ofFn_good _ (commandFn_spec T hT { s with expected := none } (some exp) k text hc ht
        (by intro ex h; simp at h; subst h; exact hin))
    · simp only [hin, decide_false, Bool.false_eq_true, if_false]
      trivial

/-- the body of the token loop -/
theorem step_spec (T : Table) (hT : TableSafe T) (s : PState) (tok : Tok) (hinv : Inv s) :
    GoodStep (step T s tok) := by
  unfold step
  split
  · exact ⟨hinv.1.congr rfl rfl rfl, hinv.2.congr rfl rfl rfl⟩
  · exact hinv
  · exact stepTok_spec T hT s _ _ hinv

/-- out of a calm state the token is not sent back a second time -/
theorem calm_no_rewind (T : Table) (s : PState) (tok : Tok) (hc : Calm s) (s2 : PState) :
    step T s tok ≠ .rewind s2 := by
  intro h
  unfold step at h
  split at h
  · simp at h
  · simp at h
  · unfold stepTok at h
    split at h
    · simp at h
    · rename_i s1 hadm
      have hs1 : s1.stack = s.stack ∧ s1.cstate = s.cstate := by
        unfold admitTok at hadm
        split at hadm
        · simp at hadm; subst hadm; exact ⟨rfl, rfl⟩
        · split at hadm
          · simp at hadm; subst hadm; exact ⟨rfl, rfl⟩
          · simp at hadm
      have hrew : isRew (commandFn T s1 tok.kind tok.text) = true := by
        unfold ofFn at h
        split at h <;> simp at h
        rename_i heq
        rw [heq]; rfl
      obtain ⟨hne, f, rest, f', hst, hnd, hre⟩ := isRew_commandFn T s1 tok.kind tok.text hrew
      rcases hc with hc | hc
      · exact hne (by rw [hs1.2]; exact hc)
      · rcases hc f (by rw [← hs1.1, hst]; rfl) with h1 | h1
        · rw [h1] at hnd; simp at hnd
        · rw [h1] at hre; simp at hre

end Safe

namespace Safe
open Machine Args ArgsSafe

/-- a verdict: neither an unexpected exception nor a livelock -/
def Verdict (o : Outcome) : Prop := (∀ w, o ≠ .crash w) ∧ o ≠ .hang

theorem deliver_spec (T : Table) (hT : TableSafe T) (s : PState) (tok : Tok) (hinv : Inv s) :
    match deliver T s tok with
    | .ok s' => Inv s'
    | .error o => Verdict o := by
  have h1 := step_spec T hT s tok hinv
  unfold deliver
  cases hst : step T s tok with
  | ok s' => rw [hst] at h1; exact h1
  | reject e rew => simp only; exact ⟨by intro w h; simp at h, by simp⟩
  | crash w => rw [hst] at h1; exact absurd h1 (by simp [GoodStep])
  | rewind s' =>
    rw [hst] at h1
    simp only
    have h2 := step_spec T hT s' tok h1.1
    cases hst2 : step T s' tok with
    | ok s'' => rw [hst2] at h2; exact h2
    | reject e rew => simp only; exact ⟨by intro w h; simp at h, by simp⟩
    | crash w => rw [hst2] at h2; exact absurd h2 (by simp [GoodStep])
    | rewind s'' => exact absurd hst2 (calm_no_rewind T s' tok h1.2 s'')

theorem feed_spec (T : Table) (hT : TableSafe T) (toks : List Tok) (s : PState) (n : Nat) (hinv : Inv s) :
    match feed T toks s n with
    | .stop o => Verdict o
    | .done s' _ => Inv s' := by
  induction toks generalizing s n with
  | nil => exact hinv
  | cons tok rest ih =>
    unfold feed
    have h := deliver_spec T hT s tok hinv
    cases hd : deliver T s tok with
    | error o => rw [hd] at h; exact h
    | ok s' => rw [hd] at h; exact ih s' _ h

theorem finish_verdict (s : PState) (e n : Nat) : Verdict (finish s e n) := by
  unfold finish
  refine ⟨?_, ?_⟩
  · intro w; repeat' split
    all_goals simp
  · repeat' split
    all_goals simp

theorem run_verdict (T : Table) (hT : TableSafe T) (endPos : Nat) (lexErr : Option (Nat × Bytes)) (toks : List Tok) :
    Verdict (run T endPos lexErr toks {} 0) := by
  unfold run
  have h := feed_spec T hT toks {} 0 Inv.init
  cases hf : feed T toks {} 0 with
  | stop o => rw [hf] at h; exact h
  | done s' n =>
    simp only
    split
    · exact ⟨by intro w h; simp at h, by simp⟩
    · exact finish_verdict _ _ _

/-- **`Parser.parse` always ends with a verdict**: for every command table satisfying `TableSafe` and
    every input, the outcome is an acceptance or a located rejection — never an exception other than
    the parser's own, never a token delivered for ever -/
theorem parse_verdict (T : Table) (hT : TableSafe T) (text : Bytes) (prev : PState) :
    Verdict (parse T text prev) := by
  unfold parse
  obtain ⟨r, hr, _⟩ := Lex.lex_total text
  rw [hr]
  exact run_verdict T hT _ _ _

end Safe
