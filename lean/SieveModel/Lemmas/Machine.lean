import SieveModel.Model.Machine
/-! Helper lemmas about the parser machine's token loop. -/
namespace Machine

/-- the token loop is a fold: feeding `a ++ b` is feeding `a`, then (if not stopped) `b` -/
theorem feed_append (T : Table) (a b : List Tok) (s : PState) (n : Nat) :
    feed T (a ++ b) s n =
      match feed T a s n with
      | .stop o => .stop o
      | .done s' n' => feed T b s' n' := by
  induction a generalizing s n with
  | nil => simp [feed]
  | cons tok rest ih =>
    simp only [List.cons_append, feed]
    cases h : deliver T s tok with
    | error o => simp
    | ok s' => simp [ih]

/-- a stop while feeding a prefix is final: nothing that follows can change it -/
theorem feed_prefix_stop (T : Table) (a b : List Tok) (s : PState) (n : Nat) (o : Outcome)
    (h : feed T a s n = .stop o) : feed T (a ++ b) s n = .stop o := by
  rw [feed_append, h]

/-- `deliver` never produces `accept` -/
theorem deliver_error_cases (T : Table) (s : PState) (tok : Tok) (o : Outcome)
    (h : deliver T s tok = .error o) :
    o = .hang ∨ (∃ w, o = .crash w) ∨
      (∃ e, o = .reject tok.pos tok.text.length e) ∨ (∃ e, o = .reject (tok.pos - 1) tok.text.length e) := by
  unfold deliver at h
  split at h
  · simp at h
  · rename_i e rew _
    simp at h; subst h
    cases rew <;> simp
  · simp at h; subst h; simp
  · split at h
    · simp at h
    · rename_i e rew _
      simp at h; subst h
      cases rew <;> simp
    · simp at h; subst h; simp
    · simp at h; subst h; simp

/-- every stop of the token loop is located at one of the tokens fed: the reported offset is the
    start of that token (or one byte before it, after a lexer rewind) and the reported length is
    the token's length -/
theorem feed_stop_located (T : Table) (toks : List Tok) (s : PState) (n : Nat) (o : Outcome)
    (h : feed T toks s n = .stop o) :
    o = .hang ∨ (∃ w, o = .crash w) ∨
      ∃ tok ∈ toks, ∃ e, (o = .reject tok.pos tok.text.length e ∨ o = .reject (tok.pos - 1) tok.text.length e) := by
  induction toks generalizing s n with
  | nil => simp [feed] at h
  | cons tok rest ih =>
    simp only [feed] at h
    cases hd : deliver T s tok with
    | error o' =>
      rw [hd] at h; simp at h; subst h
      rcases deliver_error_cases T s tok o' hd with h1 | h1 | ⟨e, h1⟩ | ⟨e, h1⟩
      · exact Or.inl h1
      · exact Or.inr (Or.inl h1)
      · exact Or.inr (Or.inr ⟨tok, by simp, e, Or.inl h1⟩)
      · exact Or.inr (Or.inr ⟨tok, by simp, e, Or.inr h1⟩)
    | ok s' =>
      rw [hd] at h; simp at h
      rcases ih s' _ h with h1 | h1 | ⟨t, ht, e, h1⟩
      · exact Or.inl h1
      · exact Or.inr (Or.inl h1)
      · exact Or.inr (Or.inr ⟨t, by simp [ht], e, h1⟩)

theorem assocHas_append_self (l : List Arg) (a : Arg) : assocHas (l ++ [a]) a.key = true := by
  simp [assocHas]

/-- `reassign_arguments` cannot succeed twice on the same command (the D1 repair):
    once it has moved `variable-list`, `list-of-flags` is present and it returns False -/
theorem reassign_once (f f' : Frame) (h : reassign f = some f') : reassign f' = none := by
  unfold reassign at h
  split at h
  · rename_i hsp
    split at h
    · rename_i a _
      split at h
      · simp at h
      · simp at h
        subst h
        unfold reassign
        simp only [hsp]
        split
        · rename_i b hb
          have : assocHas (assocErase f.st.arguments "variable-list" ++
              [a.rekey "list-of-flags"]) "list-of-flags" = true := by
            cases a <;> simp [assocHas, Arg.key, Arg.rekey]
          rw [if_pos this]
        · rfl
    · simp at h
  · simp at h

end Machine
