import SieveModel.Model.Factory
import SieveModel.Lemmas.Reprint
/-!
# What the factory quotes is one string token

`Factory.quote v` — the value between double quotes, every backslash and double quote escaped — is read by the lexer as
exactly one string token, whatever bytes `v` holds (quotes, backslashes, commas, brackets, semicolons, line breaks, non-ASCII)
and whatever follows; a generated list `[…]` lexes to a bracket, one string token per value with commas between, a bracket.
So no value can end its string early and continue as script text.
-/
namespace QuoteLex
open Lex Factory Reprint

theorem stringEnd_plain (c : UInt8) (rest : Bytes) (h34 : c ≠ 34) (h92 : c ≠ 92) :
    stringEnd (c :: rest) = (stringEnd rest).map (· + 1) := by
  rw [stringEnd.eq_def]
  split <;> simp_all

theorem stringEnd_escape (v rest : Bytes) : stringEnd (escape v ++ 34 :: rest) = some ((escape v).length + 1) := by
  induction v with
  | nil => simp [escape, stringEnd]
  | cons c cs ih =>
    unfold escape
    by_cases h92 : c = 92
    · subst h92
      simp only [beq_self_eq_true, if_true, List.cons_append]
      rw [stringEnd]
      · simp [ih]
    · by_cases h34 : c = 34
      · subst h34
        have : ((34 : UInt8) == 92) = false := by decide
        simp only [this, Bool.false_eq_true, if_false, beq_self_eq_true, if_true, List.cons_append]
        rw [stringEnd]
        · simp [ih]
      · have e1 : (c == 92) = false := by simpa using h92
        have e2 : (c == 34) = false := by simpa using h34
        simp only [e1, e2, Bool.false_eq_true, if_false, List.cons_append]
        rw [stringEnd_plain c _ h34 h92, ih]
        simp

/-- **a quoted value is one string token**, whatever the value and whatever follows it -/
theorem quote_one (v rest : Bytes) : one (quote v ++ rest) = some (.string, (quote v).length) := by
  unfold quote
  simp only [List.cons_append, List.nil_append, List.append_assoc]
  unfold one
  simp [single, stringEnd_escape]

theorem quote_genuine (v : Bytes) : Genuine (.string, quote v) := by
  have := quote_one v []
  simpa [Genuine] using this

theorem quote_head (v : Bytes) : HeadSep (quote v) := by
  unfold quote
  exact headSep_cons 34 _ (by decide)

theorem joinComma_pw : ∀ (vs : List Bytes),
    PW (commaK (vs.map (fun v => (TokKind.string, quote v)))) (ToList.joinComma (vs.map quote)) ∧
      HeadSep (ToList.joinComma (vs.map quote))
  | [] => ⟨by simpa [commaK, ToList.joinComma] using PW_nil, by simpa [ToList.joinComma] using headSep_nil⟩
  | [a] => by
    simp only [List.map_cons, List.map_nil, commaK, ToList.joinComma]
    exact ⟨PW_tok .string (quote a) (quote_genuine a) (by simp) (by simp), quote_head a⟩
  | a :: b :: rest => by
    obtain ⟨ih1, _⟩ := joinComma_pw (b :: rest)
    simp only [List.map_cons, commaK, ToList.joinComma] at ih1 ⊢
    have hcomma : PWc [(TokKind.comma, [44])] [44] := PWc_punct 44 .comma (by decide) (by decide)
    have hac := (PW_tok .string (quote a) (quote_genuine a) (by simp) (by simp)).append_c hcomma (headSep_cons 44 [] (by decide)) (by simp)
    have := hac.append_PW ih1
    refine ⟨by simpa [List.append_assoc] using this, ?_⟩
    exact headSep_append_ne (headSep_append_ne (quote_head a) (by simp [quote])) (by simp [quote])

/-- **a generated list lexes to one string token per value**: `[`, the quoted values with commas between, `]` — and nothing else,
    whatever the values hold -/
theorem quoteList_lexes (vs : List Bytes) :
    ∃ r, lex (quoteList vs) = some r ∧ r.err = none ∧
      r.toks.map kt = (TokKind.left_bracket, [91]) :: commaK (vs.map (fun v => (TokKind.string, quote v))) ++ [(TokKind.right_bracket, [93])] := by
  obtain ⟨h1, _⟩ := joinComma_pw vs
  have hl : PWc [(TokKind.left_bracket, [91])] [91] := PWc_punct 91 .left_bracket (by decide) (by decide)
  have hr : PWc [(TokKind.right_bracket, [93])] [93] := PWc_punct 93 .right_bracket (by decide) (by decide)
  have hpw := hl.append (h1.append_c hr (headSep_cons 93 [] (by decide)) (by simp))
  have hsw := hpw [] [] (SWeave.nil [] (by intro c hc; simp at hc))
  rw [List.append_nil, List.append_nil] at hsw
  have := lex_of_sweave _ _ hsw
  simpa [quoteList, List.append_assoc] using this

/-- the number of string tokens of a generated list is the number of values -/
theorem commaK_strings (l : List KT) (h : ∀ x ∈ l, x.1 = TokKind.string) :
    ((commaK l).filter (fun x => x.1 == TokKind.string)).length = l.length := by
  induction l with
  | nil => simp [commaK]
  | cons a rest ih =>
    cases rest with
    | nil => simp [commaK, h a (by simp)]
    | cons b r =>
      have := ih (fun x hx => h x (by simp [hx]))
      simp only [commaK, List.filter_cons, h a (by simp), beq_self_eq_true, if_true, List.length_cons] at this ⊢
      have hc : ((TokKind.comma, ([44] : Bytes)).1 == TokKind.string) = false := by decide
      simp only [hc, Bool.false_eq_true, if_false]
      omega

end QuoteLex
