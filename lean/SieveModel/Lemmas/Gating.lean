import SieveModel.Model.Machine
/-! Local gating lemmas: every place where the model admits an extension-bound construct tests
    membership in the loaded-extension list first. -/
namespace Gating
open Args Machine

theorem extMissing_false (ext : Option Bytes) (loaded : List Bytes) (h : extMissing ext loaded = false) :
    ∀ e, ext = some e → e ∈ loaded := by
  intro e he; subst he
  simpa [extMissing] using h

theorem getCommand_gated (T : Table) (loaded : List Bytes) (ident : Bytes) (d : CmdDef)
    (h : getCommand T loaded ident true = .ok d) : ∀ e, d.extension = some e → e ∈ loaded := by
  unfold getCommand at h
  split at h
  · simp at h
  · rename_i d' _
    split at h
    · simp at h
    · rename_i hc
      simp at h; subst h
      exact extMissing_false _ _ (by simpa using hc)

theorem getCommand_in_table (T : Table) (loaded : List Bytes) (ident : Bytes) (d : CmdDef) (c : Bool)
    (h : getCommand T loaded ident c = .ok d) : T.lookup ident = some d := by
  unfold getCommand at h
  split at h
  · simp at h
  · rename_i d' hl
    split at h
    · simp at h
    · simp at h; subst h; exact hl

/-- a value admitted through `extension_values` (and not through `values`) has its extension loaded -/
theorem validValue_gated (d : ArgDef) (raw : Bytes) (loaded : List Bytes)
    (h : validValue d (.str raw) loaded true = .ok true)
    (hnot : inValues d.values (B.lower raw) = false) :
    ∀ ext, extLookup d.extValues (B.lower raw) = some ext → ext ∈ loaded := by
  intro ext hext
  unfold validValue at h
  split at h
  · rename_i hempty
    simp at hempty
    unfold extLookup at hext
    simp [hempty.2] at hext
  · simp only [hnot, hext] at h
    by_cases hm : ext ∈ loaded
    · exact hm
    · simp [hm] at h

theorem takeOptional_gated (loaded : List Bytes) (add : Bool) (v : AVal) (st st' : CState) (d : ArgDef)
    (pl : Placement) (h : takeOptional loaded true add v st d = .ok (st', pl)) :
    ∀ e, d.extension = some e → e ∈ loaded := by
  unfold takeOptional at h
  split at h
  · simp at h
  · rename_i hc
    exact extMissing_false _ _ (by simpa using hc)

/-- what `scan` guarantees about the slot that took a value (with extension checking on) -/
theorem scan_gated (cmd : Bytes) (loaded : List Bytes) (add : Bool) (t : ArgType) (v : AVal)
    (st st' : CState) (defs : List ArgDef) (pos : Nat) (k : String)
    (h : scan cmd loaded true add t v st defs pos = .ok (st', .arg k)) :
    ∃ d ∈ defs, d.name = k ∧ validValue d v loaded true = .ok true ∧
      (d.required = false → ∀ e, d.extension = some e → e ∈ loaded) := by
  induction defs generalizing pos with
  | nil => simp [scan] at h
  | cons d rest ih =>
    unfold scan at h
    split at h
    · rename_i hreq
      split at h
      · split at h
        · simp at h
        · split at h
          · split at h <;> simp at h
          · simp at h
      · split at h
        · simp at h
        · split at h
          · simp at h
          · simp at h
          · rename_i hv
            simp only [takeRequired, Except.ok.injEq, Prod.mk.injEq] at h
            have hk := h.2
            split at hk
            · simp at hk
              exact ⟨d, by simp, hk, hv, by intro hf; rw [hf] at hreq; simp at hreq⟩
            · simp at hk
    · split at h
      · split at h
        · simp at h
        · rename_i ok hv
          split at h
          · rename_i hcond
            have hokt : ok = true := by cases ok <;> simp at hcond ⊢
            subst hokt
            have hg := takeOptional_gated loaded add v st st' d (.arg k) h
            unfold takeOptional at h
            split at h
            · simp at h
            · split at h
              · simp at h
              · simp only [Except.ok.injEq, Prod.mk.injEq] at h
                have hk := h.2
                split at hk
                · simp at hk; exact ⟨d, by simp, hk, hv, fun _ => hg⟩
                · simp at hk
          · obtain ⟨d', hd', r⟩ := ih (pos + 1) h
            exact ⟨d', by simp [hd'], r⟩
      · obtain ⟨d', hd', r⟩ := ih (pos + 1) h
        exact ⟨d', by simp [hd'], r⟩

end Gating
