import SieveModel.Model.Args
/-! Lemmas about the insertion-ordered dict operations and about what `scan` records. -/

theorem assocGet_append_new (l : List Arg) (a : Arg) (h : assocHas l a.key = false) :
    assocGet (l ++ [a]) a.key = some a := by
  induction l with
  | nil => simp [assocGet]
  | cons x xs ih =>
    simp only [assocHas, List.any_cons, Bool.or_eq_false_iff] at h
    simp only [List.cons_append, assocGet, List.find?_cons, h.1]
    have := ih (by simpa [assocHas] using h.2)
    simpa [assocGet] using this

/-- `d[k] = v; d[k]` -/
theorem assocGet_assocSet_self (l : List Arg) (a : Arg) : assocGet (assocSet l a) a.key = some a := by
  unfold assocSet
  split
  · rename_i h
    induction l with
    | nil => simp at h
    | cons x xs ih =>
      simp only [List.map_cons, assocGet, List.find?_cons]
      by_cases hx : x.key == a.key
      · simp [hx]
      · simp only [hx, Bool.false_eq_true, if_false]
        simp only [List.any_cons, hx, Bool.false_or] at h
        simpa [assocGet] using ih h
  · rename_i h
    exact assocGet_append_new l a (by simpa [assocHas] using h)

theorem assocGet_map_other (l : List Arg) (a : Arg) (k : String) (hk : (a.key == k) = false) :
    assocGet (l.map (fun p => if p.key == a.key then a else p)) k = assocGet l k := by
  induction l with
  | nil => simp [assocGet]
  | cons x xs ih =>
    simp only [List.map_cons, assocGet, List.find?_cons]
    by_cases hx : x.key == a.key
    · have hxk : (x.key == k) = false := by
        have : x.key = a.key := by simpa using hx
        rw [this]; exact hk
      simp only [hx, if_true, hk, hxk]
      simpa [assocGet] using ih
    · simp only [hx, Bool.false_eq_true, if_false]
      by_cases hxk : x.key == k
      · simp [hxk]
      · simp only [hxk]
        simpa [assocGet] using ih

/-- assigning one key leaves every other key alone -/
theorem assocGet_assocSet_other (l : List Arg) (a : Arg) (k : String) (hk : (a.key == k) = false) :
    assocGet (assocSet l a) k = assocGet l k := by
  unfold assocSet
  split
  · exact assocGet_map_other l a k hk
  · simp only [assocGet, List.find?_append, List.find?_cons, hk, List.find?_nil]
    cases List.find? (fun p => p.key == k) l <;> simp

/-- assigning a key never shortens the dict and keeps the order of the existing keys -/
theorem assocSet_keys (l : List Arg) (a : Arg) :
    (assocSet l a).map Arg.key = if l.any (fun p => p.key == a.key) then l.map Arg.key else l.map Arg.key ++ [a.key] := by
  unfold assocSet
  split
  · rename_i h
    simp only [List.map_map]
    apply List.map_congr_left
    intro x _
    simp only [Function.comp]
    by_cases hx : x.key == a.key
    · simp only [hx, if_true]; exact (by simpa using hx : x.key = a.key).symm
    · simp [hx]
  · simp

namespace Args

@[simp] theorem toArg_key (v : AVal) (k : String) : (v.toArg k).key = k := by
  cases v <;> simp [AVal.toArg, Arg.key]

/-- what `scan` (with `add = True`) records: the value is stored under the slot's name, every
    other argument is untouched, and the tag parameters are untouched -/
theorem scan_records (cmd : Bytes) (loaded : List Bytes) (ce : Bool) (t : ArgType) (v : AVal)
    (st st' : CState) (defs : List ArgDef) (pos : Nat) (k : String)
    (h : scan cmd loaded ce true t v st defs pos = .ok (st', .arg k)) :
    assocGet st'.arguments k = some (v.toArg k) ∧
    (∀ k', (k == k') = false → assocGet st'.arguments k' = assocGet st.arguments k') ∧
    st'.extraArgs = st.extraArgs := by
  induction defs generalizing pos with
  | nil => simp [scan] at h
  | cons d rest ih =>
    unfold scan at h
    split at h
    · split at h
      · split at h
        · simp at h
        · simp only [if_true] at h
          split at h <;> simp at h
      · split at h
        · simp at h
        · split at h
          · simp at h
          · simp at h
          · simp only [takeRequired, if_true, Except.ok.injEq, Prod.mk.injEq, Placement.arg.injEq] at h
            obtain ⟨hst, hk⟩ := h
            subst hst; subst hk
            refine ⟨?_, ?_, rfl⟩
            · simpa [setArg] using assocGet_assocSet_self st.arguments (v.toArg d.name)
            · intro k' hk'
              simpa [setArg] using assocGet_assocSet_other st.arguments (v.toArg d.name) k' (by simpa using hk')
    · split at h
      · split at h
        · simp at h
        · split at h
          · unfold takeOptional at h
            split at h
            · simp at h
            · split at h
              · simp at h
              · simp only [if_true, Except.ok.injEq, Prod.mk.injEq, Placement.arg.injEq] at h
                obtain ⟨hst, hk⟩ := h
                subst hst; subst hk
                refine ⟨?_, ?_, rfl⟩
                · simpa [setArg] using assocGet_assocSet_self st.arguments (v.toArg d.name)
                · intro k' hk'
                  simpa [setArg] using assocGet_assocSet_other st.arguments (v.toArg d.name) k' (by simpa using hk')
          · exact ih (pos + 1) h
      · exact ih (pos + 1) h

/-- with `add = True` the only way `scan` records nothing is to run off the end of the definition -/
theorem scan_nowhere (cmd : Bytes) (loaded : List Bytes) (ce : Bool) (t : ArgType) (v : AVal)
    (st st' : CState) (defs : List ArgDef) (pos : Nat)
    (h : scan cmd loaded ce true t v st defs pos = .ok (st', .nowhere)) : st' = st := by
  induction defs generalizing pos with
  | nil => simp [scan] at h; exact h.symm
  | cons d rest ih =>
    unfold scan at h
    split at h
    · split at h
      · split at h
        · simp at h
        · simp only [if_true] at h
          split at h <;> simp at h
      · split at h
        · simp at h
        · split at h
          · simp at h
          · simp at h
          · simp [takeRequired] at h
    · split at h
      · split at h
        · simp at h
        · split at h
          · unfold takeOptional at h
            split at h
            · simp at h
            · split at h
              · simp at h
              · simp at h
          · exact ih (pos + 1) h
      · exact ih (pos + 1) h

end Args
