import SieveModel.Lemmas.Machine
import SieveModel.Lemmas.Relex
/-!
# The parser's verdict is a function of the token sequence

Positions enter the machine only through error reports: two token lists with the same kinds and texts drive it through
the same states.  Hence two texts that lex (without lexical error) to the same kinds and texts are accepted together, with
the same tree — white space, line breaks and the place of a token on its line do not matter.
-/
namespace Layout
open Machine Lex

theorem step_kt (T : Table) (s : PState) (a b : Tok) (h : kt a = kt b) : step T s a = step T s b := by
  simp only [kt, Prod.mk.injEq] at h
  unfold step
  rw [h.1, h.2]

/-- the state after one delivered token, when there is one -/
def delivered (T : Table) (s : PState) (tok : Tok) : Option PState :=
  match deliver T s tok with
  | .ok s' => some s'
  | .error _ => none

theorem delivered_kt (T : Table) (s : PState) (a b : Tok) (h : kt a = kt b) : delivered T s a = delivered T s b := by
  unfold delivered deliver
  rw [step_kt T s a b h]
  cases hs : step T s b with
  | ok s' => rfl
  | reject e rew => rfl
  | crash w => rfl
  | rewind s' =>
    simp only
    rw [step_kt T s' a b h]
    cases step T s' b <;> rfl

/-- the state after a token list, when every token was taken -/
def fedState (T : Table) (toks : List Tok) (s : PState) (n : Nat) : Option PState :=
  match feed T toks s n with
  | .done s' _ => some s'
  | .stop _ => none

theorem fedState_kt (T : Table) : ∀ (l1 l2 : List Tok) (s : PState) (n1 n2 : Nat), l1.map kt = l2.map kt →
    fedState T l1 s n1 = fedState T l2 s n2
  | [], [], s, n1, n2, _ => by simp [fedState, feed]
  | [], b :: l2, s, n1, n2, h => by simp at h
  | a :: l1, [], s, n1, n2, h => by simp at h
  | a :: l1, b :: l2, s, n1, n2, h => by
    simp only [List.map_cons, List.cons.injEq] at h
    have hd := delivered_kt T s a b h.1
    unfold delivered at hd
    unfold fedState feed
    cases ha : deliver T s a with
    | error o =>
      rw [ha] at hd
      cases hb : deliver T s b with
      | error o' => rfl
      | ok s' => rw [hb] at hd; simp at hd
    | ok s' =>
      rw [ha] at hd
      cases hb : deliver T s b with
      | error o' => rw [hb] at hd; simp at hd
      | ok s'' =>
        rw [hb] at hd
        simp only [Option.some.injEq] at hd
        subst hd
        exact fedState_kt T l1 l2 s' _ _ h.2

/-- **two texts with the same tokens are accepted together, with the same tree** -/
theorem same_tokens_same_tree (T : Table) (t1 t2 : Bytes) (l1 l2 : Lex.Result) (h1 : lex t1 = some l1) (h2 : lex t2 = some l2)
    (he2 : l2.err = none) (hk : l1.toks.map kt = l2.toks.map kt) (prev1 prev2 : PState) (r : List Node)
    (h : parse T t1 prev1 = .accept r) : parse T t2 prev2 = .accept r := by
  unfold parse at h ⊢
  rw [h1] at h
  rw [h2]
  simp only at h ⊢
  unfold run at h ⊢
  have hf := fedState_kt T l1.toks l2.toks {} 0 0 hk
  unfold fedState at hf
  cases hf1 : feed T l1.toks {} 0 with
  | stop o =>
    rw [hf1] at h
    simp only at h
    subst h
    rcases feed_stop_located T l1.toks {} 0 _ hf1 with h0 | ⟨w, h0⟩ | ⟨tok, _, e, h0 | h0⟩ <;> simp at h0
  | done s1 n1 =>
    rw [hf1] at h hf
    cases hf2 : feed T l2.toks {} 0 with
    | stop o => rw [hf2] at hf; simp at hf
    | done s2 n2 =>
      rw [hf2] at hf
      simp only [Option.some.injEq] at hf
      subst hf
      simp only at h ⊢
      rw [he2]
      cases he1 : l1.err with
      | some pe => rw [he1] at h; simp at h
      | none =>
        rw [he1] at h
        simp only at h ⊢
        unfold finish at h ⊢
        cases hx : endExpectation s1 with
        | some e => rw [hx] at h; simp at h
        | none =>
          rw [hx] at h
          simp only at h ⊢
          cases hst : s1.stack with
          | cons f fs => rw [hst] at h; simp at h
          | nil => rw [hst] at h; simpa using h

/-- **layout does not matter**: a text that is the tokens of an accepted script woven with other white space — every token
    still followed by something that cannot continue it — is accepted with the same tree -/
theorem accepted_whatever_the_layout (T : Table) (t1 t2 : Bytes) (l1 : Lex.Result) (h1 : lex t1 = some l1)
    (hw : SWeave (l1.toks.map kt) t2) (prev1 prev2 : PState) (r : List Node) (h : parse T t1 prev1 = .accept r) :
    parse T t2 prev2 = .accept r := by
  obtain ⟨l2, h2, he2, hk⟩ := lex_of_sweave _ _ hw
  exact same_tokens_same_tree T t1 t2 l1 l2 h1 h2 he2 hk.symm prev1 prev2 r h

/-- a layout normal form: every token on a line of its own -/
def onePerLine (toks : List Tok) : Bytes := toks.flatMap (fun t => t.text ++ [10])

theorem sweave_onePerLine (toks : List Tok) (hg : ∀ t ∈ toks, GTok t) : SWeave (toks.map kt) (onePerLine toks) := by
  induction toks with
  | nil => exact SWeave.nil [] (by intro c hc; simp at hc)
  | cons t ts ih =>
    have ih' := ih (fun x hx => hg x (by simp [hx]))
    have hr : SWeave (ts.map kt) (10 :: onePerLine ts) := by
      have := ih'.prepend [10] (by intro c hc; simp at hc; subst hc; decide)
      simpa using this
    have hsep : Sep t.kind (10 :: onePerLine ts) := by
      have h1 : HeadSep (10 :: onePerLine ts) := by
        intro c r h; simp only [List.cons.injEq] at h; rw [← h.1]; decide
      have h2 : HeadLF (10 :: onePerLine ts) := by
        intro c r h; simp only [List.cons.injEq] at h; exact h.1.symm
      cases hk : t.kind <;> simp [Lex.Sep, h1, h2]
    have := SWeave.cons [] (by intro x hx; simp at hx) t.kind t.text (ts.map kt) (10 :: onePerLine ts) (hg t (by simp)) hsep hr
    simpa [onePerLine, kt, List.flatMap_cons, List.append_assoc] using this

/-- **one token per line**: the tokens of an accepted script (comments included), each written on a line of its own, are
    accepted with the same tree -/
theorem accepted_one_token_per_line (T : Table) (t1 : Bytes) (l1 : Lex.Result) (h1 : lex t1 = some l1)
    (prev1 prev2 : PState) (r : List Node) (h : parse T t1 prev1 = .accept r) :
    parse T (onePerLine l1.toks) prev2 = .accept r :=
  accepted_whatever_the_layout T t1 _ l1 h1 (sweave_onePerLine l1.toks (lex_genuine t1 l1 h1)) prev1 prev2 r h

end Layout
