import SieveModel.Lemmas.Loaded
/-!
# Hash comments are attached to the next top-level command that completes

`PState.comments` collects the texts of hash comments; `PState.result` grows only when a top-level
command is finished, and that command's node then carries the collected comments (C11, C03).
-/
namespace Comments
open Machine Args

/-- neither the pending comments nor the result changed -/
def Same (c : List Bytes) (res : List Node) (s' : PState) : Prop := s'.comments = c ∧ s'.result = res

/-- one finished top-level command was appended, carrying the pending comments -/
def Recorded (c : List Bytes) (res : List Node) (s' : PState) : Prop :=
  ∃ n, s'.result = res ++ [n] ∧ Node.comments n = c ∧ s'.comments = []

def Good (c : List Bytes) (res : List Node) (r : FnResult) : Prop :=
  match r with
  | .ret _ s' rew => Same c res s' ∨ (rew = false ∧ Recorded c res s')
  | _ => True

def Keeps (c : List Bytes) (res : List Node) (r : FnResult) : Prop :=
  match r with
  | .ret _ s' _ => Same c res s'
  | _ => True

theorem good_of_keeps {c res r} (h : Keeps c res r) : Good c res r := by
  cases r with
  | ret b s' rew => exact Or.inl h
  | err e r => trivial
  | crash w => trivial

theorem keeps_ofCmdErr (c : List Bytes) (res : List Node) (rew : Bool) (e : CmdErr) : Keeps c res (ofCmdErr rew e) := by
  cases e <;> trivial

theorem withTop_same (s : PState) (f : Frame) : Same s.comments s.result (withTop s f) := by
  unfold withTop; split <;> exact ⟨rfl, rfl⟩

theorem curCheck_same (s : PState) (t : ArgType) (v : AVal) (b : Bool) (s' : PState) (pl : Placement)
    (h : curCheck s t v = .ok (b, s', pl)) : Same s.comments s.result s' := by
  unfold curCheck at h
  split at h
  · simp at h
  · split at h
    · simp at h
    · simp at h; rw [← h.2.1]; exact ⟨rfl, rfl⟩
    · simp at h; rw [← h.2.1]; exact withTop_same _ _

theorem completion_same (s : PState) (ts : Bool) (b : Bool) (s' : PState)
    (h : completion s ts = .ok (b, s')) : Same s.comments s.result s' := by
  unfold completion at h
  split at h
  · simp at h
  · split at h
    · simp at h; rw [← h.2]; exact ⟨rfl, rfl⟩
    · split at h
      · simp at h; rw [← h.2]; split <;> exact ⟨rfl, rfl⟩
      · split at h
        · simp at h
        · simp at h; rw [← h.2]; exact ⟨rfl, rfl⟩

theorem keeps_complThen (s : PState) (c : List Bytes) (res : List Node) (hs : Same c res s) (ts rew : Bool) :
    Keeps c res (complThen s ts rew) := by
  unfold complThen
  split
  · exact keeps_ofCmdErr _ _ _ _
  · rename_i b s' h
    have := completion_same s ts b s' h
    exact ⟨this.1.trans hs.1, this.2.trans hs.2⟩

/-- `__up()`: at top level the finished command is appended to the result with the pending comments -/
theorem up_rel (s s' : PState) (h : up s = .ok s') :
    Same s.comments s.result s' ∨ Recorded s.comments s.result s' := by
  unfold up at h
  split at h
  · simp at h
  · rename_i f rest hst
    simp at h
    rw [← h]
    unfold record
    split
    · right
      exact ⟨Frame.toNode f s.comments, rfl, rfl, rfl⟩
    · left; exact ⟨rfl, rfl⟩

theorem popBracket_same (s s1 : PState) (k : TokKind) (h : popBracket s k = some s1) : Same s.comments s.result s1 := by
  unfold popBracket at h
  split at h
  · simp at h
  · split at h
    · simp at h; rw [← h]; exact ⟨rfl, rfl⟩
    · simp at h

theorem keeps_offer (s : PState) (t : ArgType) (v : AVal) : Keeps s.comments s.result (offer s t v) := by
  unfold offer
  split
  · exact keeps_ofCmdErr _ _ _ _
  · rename_i b s' pl h
    exact curCheck_same s t v b s' pl h

theorem keeps_tryReassign (s : PState) : Keeps s.comments s.result (tryReassign s) := by
  unfold tryReassign
  split
  · trivial
  · split
    · split
      · exact ⟨rfl, rfl⟩
      · exact withTop_same _ _
    · exact ⟨rfl, rfl⟩

theorem keeps_thenCompl (c : List Bytes) (res : List Node) (r : FnResult) (h : Keeps c res r) : Keeps c res (thenCompl r) := by
  unfold thenCompl
  split
  · rename_i s' rew
    exact keeps_complThen s' c res h false rew
  · exact h

theorem keeps_argThenCompl (s : PState) (k : TokKind) (text : Bytes) :
    Keeps s.comments s.result (argThenCompl s k text) := by
  unfold argThenCompl
  apply keeps_thenCompl
  have hoff : ∀ t v, Keeps s.comments s.result
      (if (!Utf8.valid text) = true then FnResult.err PErr.decodeError false else offer s t v) := by
    intro t v; split
    · trivial
    · exact keeps_offer s t v
  cases k with
  | string => exact hoff _ _
  | multiline => exact hoff _ _
  | number => exact keeps_offer _ _ _
  | tag => exact keeps_offer _ _ _
  | left_bracket => exact ⟨rfl, rfl⟩
  | left_cbracket => exact keeps_tryReassign s
  | comma => exact keeps_tryReassign s
  | right_parenthesis => exact keeps_tryReassign s
  | semicolon => exact ⟨rfl, rfl⟩
  | right_bracket => exact ⟨rfl, rfl⟩
  | left_parenthesis => exact ⟨rfl, rfl⟩
  | right_cbracket => exact ⟨rfl, rfl⟩
  | hash_comment => exact ⟨rfl, rfl⟩
  | bracket_comment => exact ⟨rfl, rfl⟩
  | identifier => exact ⟨rfl, rfl⟩

theorem keeps_pushTest (T : Table) (s : PState) (text : Bytes) : Keeps s.comments s.result (pushTest T s text) := by
  unfold pushTest
  split
  · trivial
  · rename_i d hd
    split
    · trivial
    · split
      · exact keeps_ofCmdErr _ _ _ _
      · rename_i s1 pl h
        exact curCheck_same _ _ _ _ _ _ h
      · rename_i s1 pl h
        have h1 := curCheck_same _ _ _ _ _ _ h
        exact keeps_complThen ⟨s1.result, s1.comments, { d := d, attach := .place pl } :: s1.stack, s1.cstate, s1.curlist, d.expectedFirst, s1.brackets, s1.loaded⟩ _ _ h1 false false

theorem good_closeParen (s : PState) : Good s.comments s.result (closeParen s) := by
  unfold closeParen
  split
  · trivial
  · rename_i s1 h1
    have hp := popBracket_same s s1 _ h1
    split
    · trivial
    · rename_i s2 h2
      rcases up_rel s1 s2 h2 with h | h
      · left; exact ⟨h.1.trans hp.1, h.2.trans hp.2⟩
      · right
        rw [hp.1, hp.2] at h
        exact ⟨rfl, h⟩

theorem good_argumentsFn (T : Table) (s : PState) (k : TokKind) (text : Bytes) :
    Good s.comments s.result (argumentsFn T s k text) := by
  unfold argumentsFn
  split
  · trivial
  · split
    · exact good_of_keeps (keeps_pushTest T s text)
    · split
      · exact Or.inl ⟨rfl, rfl⟩
      · exact good_of_keeps (keeps_argThenCompl s _ text)
    · split
      · exact Or.inl ⟨rfl, rfl⟩
      · exact good_of_keeps (keeps_argThenCompl s _ text)
    · split
      · exact good_of_keeps (keeps_argThenCompl s _ text)
      · exact good_closeParen s
    · exact good_of_keeps (keeps_argThenCompl s _ text)

theorem keeps_stringlistFn (s : PState) (k : TokKind) (text : Bytes) :
    Keeps s.comments s.result (stringlistFn s k text) := by
  unfold stringlistFn
  split
  · split
    · trivial
    · exact ⟨rfl, rfl⟩
  · exact ⟨rfl, rfl⟩
  · split
    · trivial
    · rename_i s1 h1
      have hp := popBracket_same s s1 _ h1
      split
      · exact keeps_ofCmdErr _ _ _ _
      · rename_i s2 pl h
        have := curCheck_same _ _ _ _ _ _ h
        exact ⟨this.1.trans hp.1, this.2.trans hp.2⟩
      · rename_i s2 pl h
        have h2 := curCheck_same _ _ _ _ _ _ h
        exact keeps_complThen ⟨s2.result, s2.comments, s2.stack, .arguments, s2.curlist, s2.expected, s2.brackets, s2.loaded⟩ _ _
          ⟨h2.1.trans hp.1, h2.2.trans hp.2⟩ true false
  · exact ⟨rfl, rfl⟩

theorem good_stateFn (T : Table) (s : PState) (k : TokKind) (text : Bytes) :
    Good s.comments s.result (stateFn T s k text) := by
  unfold stateFn
  split
  · exact good_of_keeps (keeps_stringlistFn s k text)
  · exact good_argumentsFn T s k text

theorem good_startCommand (T : Table) (s : PState) (k : TokKind) (text : Bytes) :
    Good s.comments s.result (startCommand T s k text) := by
  unfold startCommand
  split
  · split
    · trivial
    · rename_i s1 h1
      have hp := popBracket_same s s1 _ h1
      split
      · trivial
      · rename_i s2 h2
        rcases up_rel s1 s2 h2 with h | h
        · left; exact ⟨h.1.trans hp.1, h.2.trans hp.2⟩
        · right
          rw [hp.1, hp.2] at h
          exact ⟨rfl, h⟩
  · split
    · exact Or.inl ⟨rfl, rfl⟩
    · split
      · trivial
      · rename_i d hd
        split
        · trivial
        · split
          · trivial
          · have ha : Same s.comments s.result (announce s d) := by unfold announce; split <;> exact ⟨rfl, rfl⟩
            unfold pushCommand
            split
            · exact Or.inl ha
            · split
              · trivial
              · exact Or.inl ha

/-- `{` or `;` after the state function declined, given that the rewind flag handed over is `false`
    whenever the token is `;` -/
theorem good_closeCommand (s' : PState) (k : TokKind) (rew : Bool) (hrew : k = .semicolon → rew = false) :
    Good s'.comments s'.result (closeCommand s' k rew) := by
  unfold closeCommand
  by_cases hk1 : (k == .left_cbracket) = true
  · simp only [hk1, if_true]
    split
    · trivial
    · split
      · exact Or.inl ⟨rfl, rfl⟩
      · exact Or.inl ⟨rfl, rfl⟩
  · simp only [hk1, Bool.false_eq_true, if_false]
    by_cases hk2 : (k == .semicolon) = true
    · simp only [hk2, if_true]
      have hr : rew = false := hrew (by simpa using hk2)
      subst hr
      split
      · trivial
      · split
        · exact Or.inl ⟨rfl, rfl⟩
        · split
          · rename_i e _; cases e <;> trivial
          · rename_i s2 h
            exact Or.inl (completion_same { s' with cstate := .none } false _ _ h)
          · rename_i s2 h
            have hc := completion_same { s' with cstate := .none } false _ _ h
            simp only at hc
            split
            · trivial
            · split
              · trivial
              · rename_i s4 hup
                rcases up_rel _ s4 hup with h4 | h4
                · left
                  simp only at h4
                  exact ⟨h4.1.trans hc.1, h4.2.trans hc.2⟩
                · right
                  simp only at h4
                  rw [hc.1, hc.2] at h4
                  exact ⟨rfl, h4⟩
    · simp only [hk2, Bool.false_eq_true, if_false]
      exact Or.inl ⟨rfl, rfl⟩

/-- a state function that answers `False` has not recorded anything -/
theorem stateFn_false_same (T : Table) (s : PState) (k : TokKind) (text : Bytes) (s' : PState) (rew : Bool)
    (hr : stateFn T s k text = .ret false s' rew) : Same s.comments s.result s' := by
  unfold stateFn at hr
  split at hr
  · have := keeps_stringlistFn s k text
    rw [hr] at this
    exact this
  · unfold argumentsFn at hr
    split at hr
    · simp at hr
    · split at hr
      · have := keeps_pushTest T s text; rw [hr] at this; exact this
      · split at hr
        · simp at hr
        · have := keeps_argThenCompl s .left_parenthesis text; rw [hr] at this; exact this
      · split at hr
        · simp at hr
        · have := keeps_argThenCompl s .comma text; rw [hr] at this; exact this
      · split at hr
        · have := keeps_argThenCompl s .right_parenthesis text; rw [hr] at this; exact this
        · unfold closeParen at hr
          split at hr
          · simp at hr
          · split at hr <;> simp at hr
      · have := keeps_argThenCompl s k text; rw [hr] at this; exact this

theorem good_commandFn (T : Table) (s : PState) (k : TokKind) (text : Bytes) :
    Good s.comments s.result (commandFn T s k text) := by
  unfold commandFn
  split
  · exact good_startCommand T s k text
  · have hg := good_stateFn T s k text
    cases hr : stateFn T s k text with
    | crash w => trivial
    | err e r => trivial
    | ret b s' rew =>
      rw [hr] at hg
      cases b with
      | true => exact hg
      | false =>
        simp only
        have hrew : k = .semicolon → rew = false := by
          intro hk
          subst hk
          rcases Loaded.stateFn_semicolon T s text with h1 | ⟨w, h1⟩
          · rw [h1] at hr; injection hr with _ _ h3; exact h3.symm
          · rw [h1] at hr; simp at hr
        have hc := good_closeCommand s' k rew hrew
        have hs' := stateFn_false_same T s k text s' rew hr
        rw [hs'.1, hs'.2] at hc
        exact hc

/-- effect of one token on the pending comments and on the result -/
def TokRel (s : PState) (tok : Tok) (s' : PState) : Prop :=
  (tok.kind = .hash_comment ∧ s'.comments = s.comments ++ [stripWs tok.text] ∧ s'.result = s.result) ∨
  (tok.kind ≠ .hash_comment ∧ (Same s.comments s.result s' ∨ Recorded s.comments s.result s'))

theorem step_comments (T : Table) (s : PState) (tok : Tok) (s' : PState) :
    (step T s tok = .ok s' → TokRel s tok s') ∧
    (step T s tok = .rewind s' → tok.kind ≠ .hash_comment ∧ Same s.comments s.result s') := by
  unfold step
  split
  · rename_i hk
    constructor
    · intro h; simp at h; rw [← h]; exact Or.inl ⟨hk, rfl, rfl⟩
    · intro h; simp at h
  · rename_i hk
    constructor
    · intro h; simp at h; rw [← h]; exact Or.inr ⟨by rw [hk]; simp, Or.inl ⟨rfl, rfl⟩⟩
    · intro h; simp at h
  · rename_i k hk1 hk2
    have hne : tok.kind ≠ .hash_comment := fun h => hk1 h
    unfold stepTok
    split
    · constructor <;> (intro h; simp at h)
    · rename_i s1 hadm
      have hs1 : s1.comments = s.comments ∧ s1.result = s.result := by
        unfold admitTok at hadm
        split at hadm
        · simp at hadm; subst hadm; exact ⟨rfl, rfl⟩
        · split at hadm
          · simp at hadm; subst hadm; exact ⟨rfl, rfl⟩
          · simp at hadm
      have hg := good_commandFn T s1 tok.kind tok.text
      rw [hs1.1, hs1.2] at hg
      unfold ofFn
      split
      · rename_i s2 heq
        rw [heq] at hg
        constructor
        · intro h; simp at h; subst h
          rcases hg with h | ⟨_, h⟩
          · exact Or.inr ⟨hne, Or.inl h⟩
          · exact Or.inr ⟨hne, Or.inr h⟩
        · intro h; simp at h
      · rename_i s2 heq
        rw [heq] at hg
        constructor
        · intro h; simp at h
        · intro h; simp at h; subst h
          rcases hg with h | ⟨hf, _⟩
          · exact ⟨hne, h⟩
          · simp at hf
      · constructor <;> (intro h; simp at h)
      · constructor <;> (intro h; simp at h)
      · constructor <;> (intro h; simp at h)

/-- **one delivered token**: a hash comment is added to the pending comments; any other token leaves
    comments and result alone, or finishes one top-level command, which is appended to the result
    carrying exactly the pending comments, and the pending list is emptied -/
theorem deliver_comments (T : Table) (s : PState) (tok : Tok) (s' : PState) (h : deliver T s tok = .ok s') :
    TokRel s tok s' := by
  unfold deliver at h
  cases hst : step T s tok with
  | ok s1 =>
    rw [hst] at h
    simp at h
    subst h
    exact (step_comments T s tok s1).1 hst
  | reject e r => rw [hst] at h; simp at h
  | crash w => rw [hst] at h; simp at h
  | rewind s1 =>
    rw [hst] at h
    simp only at h
    obtain ⟨hne, hsame⟩ := (step_comments T s tok s1).2 hst
    cases hst2 : step T s1 tok with
    | ok s2 =>
      rw [hst2] at h
      simp at h
      subst h
      rcases (step_comments T s1 tok s2).1 hst2 with ⟨hk, _⟩ | ⟨_, h2⟩
      · exact absurd hk hne
      · rw [hsame.1, hsame.2] at h2
        exact Or.inr ⟨hne, h2⟩
    | reject e r => rw [hst2] at h; simp at h
    | crash w => rw [hst2] at h; simp at h
    | rewind s2 => rw [hst2] at h; simp at h

/-- `bytes.strip()` leaves alone a text whose first and last bytes are not white space -/
theorem strip_keeps (b : Bytes) (hne : b ≠ []) (hf : B.isWs (b.head hne) = false) (hl : B.isWs (b.getLast hne) = false) :
    stripWs b = b := by
  have keep : ∀ (c : UInt8) (l : Bytes), B.isWs c = false → (c :: l).dropWhile B.isWs = c :: l := by
    intro c l h; simp [List.dropWhile, h]
  unfold stripWs
  have h1 : b.dropWhile B.isWs = b := by
    cases b with
    | nil => exact absurd rfl hne
    | cons c cs => exact keep c cs hf
  rw [h1]
  have hr : b.reverse ≠ [] := by simpa using hne
  have h2 : b.reverse.dropWhile B.isWs = b.reverse := by
    cases hb : b.reverse with
    | nil => exact absurd hb hr
    | cons c cs =>
      have : c = b.getLast hne := by
        have := List.head_reverse (l := b) (by simpa using hne)
        simp [hb] at this
        exact this
      exact keep c cs (this ▸ hl)
  rw [h2, List.reverse_reverse]

end Comments
