import SieveModel.Lemmas.Factory
/-!
# The requirement list of a filter set covers every filter it ever built, through any editing history

`addfilter` / `updatefilter` build a filter with `__create_filter`, threading the set's requirement list (also when the
call ends by raising); every other editing operation leaves the list alone.  So the list only grows, and by
`createFilter_sim` every filter built in the history — still in the set or not, enabled or wrapped in `if false` — can be
re-built with every extension check on against the list as it is now.
-/
namespace Factory

/-- one filter description -/
structure Desc where
  conds : List (List Val)
  acts : List (List Val)
  mt : Bytes

/-- an editing operation, as far as the requirement list and the filters' trees are concerned -/
inductive SOp where
  /-- `addfilter` -/
  | add (d : Desc)
  /-- `updatefilter` of the filter at position `i` -/
  | update (i : Nat) (d : Desc)
  /-- `removefilter` -/
  | remove (i : Nat)
  /-- `movefilter`, `enablefilter`, `disablefilter`, a refused operation: the built filters are re-ordered or re-wrapped -/
  | shuffle (f : List Nat)

/-- what the set remembers about a filter it built: the description, the requirement list before and after, the tree -/
structure Built where
  d : Desc
  start : List Bytes
  after : List Bytes
  node : Node

structure SetState where
  reqs : List Bytes := []
  built : List Built := []

def stepS (cfg : Cfg) (st : SetState) : SOp → SetState
  | .add d =>
    match createFilter cfg st.reqs d.conds d.acts d.mt with
    | (r, .ok n) => { reqs := r, built := st.built ++ [⟨d, st.reqs, r, n⟩] }
    | (r, .error _) => { st with reqs := r }
  | .update i d =>
    match createFilter cfg st.reqs d.conds d.acts d.mt with
    | (r, .ok n) => { reqs := r, built := st.built.set i ⟨d, st.reqs, r, n⟩ }
    | (r, .error _) => { st with reqs := r }
  | .remove i => { st with built := st.built.eraseIdx i }
  | .shuffle f => { st with built := f.filterMap (fun i => st.built[i]?) }

def runS (cfg : Cfg) : List SOp → SetState → SetState
  | [], st => st
  | op :: rest, st => runS cfg rest (stepS cfg st op)

/-- every built filter was built by the code, from a list the current one contains, to a list the current one contains -/
def InvS (cfg : Cfg) (st : SetState) : Prop :=
  ∀ b ∈ st.built, createFilter cfg b.start b.d.conds b.d.acts b.d.mt = (b.after, .ok b.node) ∧ ∀ x ∈ b.after, x ∈ st.reqs

/-- the requirement list of an outcome contains `reqs` -/
def Grows {α : Type} (reqs : List Bytes) (o : Out α) : Prop := ∀ x ∈ reqs, x ∈ o.1

theorem Grows.andThen {α β : Type} {reqs : List Bytes} {o : Out α} (h : Grows reqs o) (f : List Bytes → α → Out β)
    (hf : ∀ r a, Grows r (f r a)) : Grows reqs (o.andThen f) := by
  obtain ⟨r, res⟩ := o
  cases res with
  | error e => exact h
  | ok a => intro x hx; exact hf r a x (h x hx)

theorem runStep_grows (cfg : Cfg) (reqs : List Bytes) (c : Cmd) (s : Step) : Grows reqs (runStep cfg reqs c s) := by
  cases s with
  | matchTag t => exact subset_requireOpt _ _
  | arg t v => intro x hx; exact hx
  | fail e => intro x hx; exact hx

theorem runSteps_grows (cfg : Cfg) : ∀ (steps : List Step) (reqs : List Bytes) (c : Cmd), Grows reqs (runSteps cfg reqs c steps) := by
  intro steps
  induction steps with
  | nil => intro reqs c x hx; exact hx
  | cons s rest ih =>
    intro reqs c
    unfold runSteps
    have h1 := runStep_grows cfg reqs c s
    cases hst : runStep cfg reqs c s with
    | mk r res =>
      rw [hst] at h1
      cases res with
      | error e => exact h1
      | ok c' => intro x hx; exact ih r c' x (h1 x hx)

theorem runActs_grows (cfg : Cfg) : ∀ (acts : List Val) (reqs : List Bytes) (c : Cmd), Grows reqs (runActs cfg reqs c acts) := by
  intro acts
  induction acts with
  | nil => intro reqs c x hx; exact hx
  | cons v rest ih =>
    intro reqs c
    unfold runActs
    have h1 : Grows reqs (runAct cfg reqs c v) := subset_requireOpt _ _
    cases hst : runAct cfg reqs c v with
    | mk r res =>
      rw [hst] at h1
      cases res with
      | error e => exact h1
      | ok c' => intro x hx; exact ih r c' x (h1 x hx)

theorem coverReqs_grows (reqs : List Bytes) (d : CmdDef) (cv : Cover) : Grows reqs (coverReqs reqs d cv) := by
  cases cv with
  | checked => intro x hx; exact hx
  | nothing => intro x hx; exact hx
  | lit e => exact subset_require _ _
  | ownIfAny => exact subset_requireOpt _ _
  | own =>
    unfold coverReqs
    cases d.extension with
    | none => intro x hx; exact hx
    | some e => exact subset_require _ _

theorem runPlan_grows (cfg : Cfg) (reqs : List Bytes) (p : Plan) : Grows reqs (runPlan cfg reqs p) := by
  unfold runPlan
  cases newCmd cfg p.name (p.cover == .checked) with
  | error e => intro x hx; exact hx
  | ok cmd =>
    simp only
    have h0 := coverReqs_grows reqs cmd.d p.cover
    cases hc : coverReqs reqs cmd.d p.cover with
    | mk r res =>
      rw [hc] at h0
      cases res with
      | error e => exact h0
      | ok u =>
        simp only
        intro x hx
        exact (Grows.andThen (runSteps_grows cfg p.steps r cmd) _ (fun r1 c1 => runActs_grows cfg p.acts r1 c1)) x (h0 x hx)

theorem buildCond_grows (cfg : Cfg) (reqs : List Bytes) (c : List Val) : Grows reqs (buildCond cfg reqs c) := by
  unfold buildCond
  cases condPlan c with
  | error e => intro x hx; exact hx
  | ok pn =>
    obtain ⟨plan, neg⟩ := pn
    simp only
    apply Grows.andThen (runPlan_grows cfg reqs plan)
    intro r cmd
    split
    · cases newCmd cfg (sb "not") with
      | error e => intro x hx; exact hx
      | ok nc => intro x hx; exact hx
    · intro x hx; exact hx

theorem buildConds_grows (cfg : Cfg) : ∀ (conds : List (List Val)) (reqs : List Bytes) (mt : Cmd),
    Grows reqs (buildConds cfg reqs mt conds) := by
  intro conds
  induction conds with
  | nil => intro reqs mt x hx; exact hx
  | cons c rest ih =>
    intro reqs mt
    unfold buildConds
    apply Grows.andThen (buildCond_grows cfg reqs c)
    intro r n
    cases mt.arg cfg .test (.test n) with
    | error e => intro x hx; exact hx
    | ok mt' => exact ih r mt'

theorem buildAction_grows (cfg : Cfg) (reqs : List Bytes) (act : List Val) : Grows reqs (buildAction cfg reqs act) := by
  unfold buildAction
  cases actionPlan act with
  | error e => intro x hx; exact hx
  | ok plan =>
    simp only
    apply Grows.andThen (runPlan_grows cfg reqs plan)
    intro r c x hx; exact hx

theorem buildActions_grows (cfg : Cfg) : ∀ (acts : List (List Val)) (reqs : List Bytes) (ifc : Cmd),
    Grows reqs (buildActions cfg reqs ifc acts) := by
  intro acts
  induction acts with
  | nil => intro reqs ifc x hx; exact hx
  | cons a rest ih =>
    intro reqs ifc
    unfold buildActions
    apply Grows.andThen (buildAction_grows cfg reqs a)
    intro r n
    exact ih r _

theorem createFilter_grows (cfg : Cfg) (reqs : List Bytes) (conds acts : List (List Val)) (mt : Bytes) :
    Grows reqs (createFilter cfg reqs conds acts mt) := by
  unfold createFilter
  cases newCmd cfg (sb "if") with
  | error e => intro x hx; exact hx
  | ok ifc =>
    simp only
    cases newCmd cfg mt with
    | error e => intro x hx; exact hx
    | ok mtc =>
      simp only
      apply Grows.andThen (buildConds_grows cfg conds reqs mtc)
      intro r mt'
      cases ifc.arg cfg .test (.test mt'.node) with
      | error e => intro x hx; exact hx
      | ok ifc1 =>
        simp only
        apply Grows.andThen (buildActions_grows cfg acts r ifc1)
        intro r' ifc2 x hx; exact hx

/-- every editing step keeps the invariant and only adds to the requirement list -/
theorem stepS_inv (cfg : Cfg) (st : SetState) (op : SOp) (h : InvS cfg st) :
    InvS cfg (stepS cfg st op) ∧ ∀ x ∈ st.reqs, x ∈ (stepS cfg st op).reqs := by
  cases op with
  | add d =>
    have hg := createFilter_grows cfg st.reqs d.conds d.acts d.mt
    simp only [stepS]
    cases hc : createFilter cfg st.reqs d.conds d.acts d.mt with
    | mk r res =>
      rw [hc] at hg
      cases res with
      | error e =>
        refine ⟨?_, hg⟩
        intro b hb
        exact ⟨(h b hb).1, fun x hx => hg x ((h b hb).2 x hx)⟩
      | ok n =>
        refine ⟨?_, hg⟩
        intro b hb
        simp only [List.mem_append, List.mem_singleton] at hb
        rcases hb with hb | rfl
        · exact ⟨(h b hb).1, fun x hx => hg x ((h b hb).2 x hx)⟩
        · exact ⟨hc, fun x hx => hx⟩
  | update i d =>
    have hg := createFilter_grows cfg st.reqs d.conds d.acts d.mt
    simp only [stepS]
    cases hc : createFilter cfg st.reqs d.conds d.acts d.mt with
    | mk r res =>
      rw [hc] at hg
      cases res with
      | error e =>
        refine ⟨?_, hg⟩
        intro b hb
        exact ⟨(h b hb).1, fun x hx => hg x ((h b hb).2 x hx)⟩
      | ok n =>
        refine ⟨?_, hg⟩
        intro b hb
        rcases List.mem_or_eq_of_mem_set hb with hb | rfl
        · exact ⟨(h b hb).1, fun x hx => hg x ((h b hb).2 x hx)⟩
        · exact ⟨hc, fun x hx => hx⟩
  | remove i =>
    refine ⟨?_, fun x hx => hx⟩
    intro b hb
    exact h b (List.mem_of_mem_eraseIdx hb)
  | shuffle f =>
    refine ⟨?_, fun x hx => hx⟩
    intro b hb
    simp only [stepS, List.mem_filterMap] at hb
    obtain ⟨i, _, hi⟩ := hb
    exact h b (List.mem_of_getElem? hi)

theorem runS_inv (cfg : Cfg) : ∀ (ops : List SOp) (st : SetState), InvS cfg st → InvS cfg (runS cfg ops st) := by
  intro ops
  induction ops with
  | nil => intro st h; exact h
  | cons op rest ih => intro st h; exact ih _ (stepS_inv cfg st op h).1

/-- **the set's requirement list covers every filter built in its history**: after any sequence of editing operations
    starting from an empty set, every filter the set built — in whatever order, wrapped or not — is re-built with every
    extension check on against the requirement list as it is now (and what was loaded globally), giving the same tree -/
theorem set_requirements_cover_every_filter (cfg : Cfg) (hs : cfg.strict = none) (hT : TableOK cfg) (ops : List SOp)
 :
    let st := runS cfg ops {}
    ∀ b ∈ st.built, (∀ a ∈ b.d.acts, ActOK cfg a) →
      createFilter (cfg.strictWith (st.reqs ++ cfg.gl)) b.start b.d.conds b.d.acts b.d.mt = (b.after, .ok b.node) := by
  intro st b hb hact
  have hinv : InvS cfg st := runS_inv cfg ops {} (by intro b hb; simp at hb)
  obtain ⟨hbuilt, hsub⟩ := hinv b hb
  exact (createFilter_sim cfg hs hT b.start b.d.conds b.d.acts b.d.mt hact b.after b.node hbuilt).2 _
    (fun x hx => List.mem_append_left _ (hsub x hx)) (fun x hx => List.mem_append_right _ hx)

end Factory
