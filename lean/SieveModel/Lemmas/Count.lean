import SieveModel.Lemmas.StackThread
import SieveModel.Lemmas.NoCrash
import SieveModel.Lemmas.Roles
/-!
# Every command and test of the script is in the tree exactly once (count form)

`cntN n`: number of nodes of the tree `n`.  `mu s`: nodes of the finished top-level commands, plus, for every stack
frame, the nodes already inside it and one for the frame itself — except for a frame that stands for a test, whose own
node is already counted in its parent (as the placeholder `check_next_arg("test", cmd)` stored).  Every delivered
token changes `mu` by one if it is an identifier the machine accepts and by nothing otherwise; at acceptance the stack
is empty, so the trees of an accepted script have exactly as many nodes as the script has identifier tokens.
-/
namespace Count
open Machine Args ArgsSafe Safe

mutual
def cntN : Node → Nat
  | .mk _ a e c _ => 1 + cntAs a + cntAs e + cntNs c
def cntNs : List Node → Nat
  | [] => 0
  | n :: r => cntN n + cntNs r
def cntA : Arg → Nat
  | .test _ n => cntN n
  | .tests _ l => cntNs l
  | .str _ _ => 0
  | .strs _ _ => 0
def cntAs : List Arg → Nat
  | [] => 0
  | a :: r => cntA a + cntAs r
end

theorem cntNs_append (a b : List Node) : cntNs (a ++ b) = cntNs a + cntNs b := by
  induction a with
  | nil => simp [cntNs]
  | cons x xs ih => simp [cntNs, ih]; omega

theorem cntAs_append (a b : List Arg) : cntAs (a ++ b) = cntAs a + cntAs b := by
  induction a with
  | nil => simp [cntAs]
  | cons x xs ih => simp [cntAs, ih]; omega

theorem cntNs_single (n : Node) : cntNs [n] = cntN n := by simp [cntNs]
theorem cntAs_single (a : Arg) : cntAs [a] = cntA a := by simp [cntAs]

/-- the placeholder `check_next_arg("test", cmd)` stores for a test that is still being parsed -/
def ph (d : CmdDef) : Node := .mk d.name [] [] [] []
theorem cntN_ph (d : CmdDef) : cntN (ph d) = 1 := by simp [ph, cntN, cntAs, cntNs]

def inner (f : Frame) : Nat := cntAs f.st.arguments + cntAs f.st.extraArgs + cntNs f.children

theorem cntN_toNode (f : Frame) (c : List Bytes) : cntN (Frame.toNode f c) = 1 + inner f := by
  simp [Frame.toNode, cntN, inner]; omega

def isPlace : Attach → Bool
  | .place _ => true
  | _ => false

/-- what a frame adds to the count -/
def w (f : Frame) : Nat := inner f + (if isPlace f.attach then 0 else 1)

def wsum : List Frame → Nat
  | [] => 0
  | f :: r => w f + wsum r

def mu (s : PState) : Nat := cntNs s.result + wsum s.stack

theorem cntA_rekey (k : String) (a : Arg) : cntA (a.rekey k) = cntA a := by
  cases a <;> simp [Arg.rekey, cntA]

theorem cntAs_zero_of_all (l : List Arg) (h : ∀ a ∈ l, cntA a = 0) : cntAs l = 0 := by
  induction l with
  | nil => rfl
  | cons x xs ih =>
    simp only [cntAs]
    rw [h x (by simp), ih (fun a ha => h a (by simp [ha]))]

theorem cntA_le_cntAs (l : List Arg) (a : Arg) (h : a ∈ l) : cntA a ≤ cntAs l := by
  induction l with
  | nil => simp at h
  | cons x xs ih =>
    simp only [List.mem_cons] at h
    simp only [cntAs]
    rcases h with rfl | h
    · omega
    · have := ih h; omega

theorem all_zero_of_cntAs (l : List Arg) (h : cntAs l = 0) : ∀ a ∈ l, cntA a = 0 := by
  intro a ha
  have := cntA_le_cntAs l a ha
  omega


/-! ## the shape of the arguments of a frame that takes tests -/

/-- a definition that takes tests has one slot; its arguments are nothing, the one test (then the command has its
    required argument), or the one test list -/
def HostShape (f : Frame) : Prop :=
  ∃ slot, f.d.args = [slot] ∧
    (f.st.arguments = [] ∨
     (slot.types = [.test] ∧ ∃ n, f.st.arguments = [.test slot.name n] ∧ f.st.rargsCnt = 1) ∨
     (slot.types = [.testlist] ∧ ∃ ts, f.st.arguments = [.tests slot.name ts]))

structure CF (f : Frame) : Prop where
  ok : FrameOK f
  extra0 : cntAs f.st.extraArgs = 0
  nonhost : isHost f.d = false → cntAs f.st.arguments = 0
  host : isHost f.d = true → HostShape f

/-- the frame below a frame that stands for a test holds that test's placeholder, exactly where the finished test will go -/
def Rel (d : CmdDef) (a : Attach) (p : Frame) : Prop :=
  match a with
  | .place (.arg k) => p.st.arguments = [.test k (ph d)] ∧ plOK p.d (.arg k)
  | .place (.elem k) => (∃ ts, p.st.arguments = [.tests k (ts ++ [ph d])]) ∧ plOK p.d (.elem k)
  | .place (.extra _) => False
  | .place .nowhere => False
  | .top => False
  | .child => True

/-- the bottom frame is a command, not a test -/
def Bot (d : CmdDef) (a : Attach) (_res : List Node) : Prop := isPlace a = false ∧ d.kind ≠ .test

theorem CF.fresh (d : CmdDef) (hd : cmdSafe d = true) (a : Attach) : CF { d := d, attach := a } := by
  refine ⟨⟨hd, StOK.init d⟩, rfl, fun _ => rfl, ?_⟩
  intro hh
  obtain ⟨slot, hargs, _⟩ := cmdSafe_host d hd hh
  exact ⟨slot, hargs, Or.inl rfl⟩

theorem isComplete_host_one (d : CmdDef) (slot : ArgDef) (hargs : d.args = [slot]) (hs : hostSlotOK slot = true)
    (hv : d.variableArgs = false) (st : CState) (hcur : ∀ c, st.curarg = some c → c ∈ d.args) (hr : st.rargsCnt = 1)
    (a : Option (ArgType × AVal)) : isComplete d.variableArgs d.args st a = true := by
  simp only [hostSlotOK, Bool.and_eq_true, Option.isNone_iff_eq_none] at hs
  have hreq : slot.required = true := hs.1.1.1.1
  have hextra : slot.extra = none := hs.1.1.2
  unfold isComplete
  simp only [hv, Bool.false_eq_true, if_false, Bool.and_eq_true, beq_iff_eq]
  refine ⟨?_, ?_⟩
  · unfold pendingOk
    cases hc : st.curarg with
    | none => rfl
    | some c =>
      have := hcur c hc
      rw [hargs] at this
      simp at this
      subst this
      simp [hextra]
  · rw [hr, hargs]; simp [requiredCount, hreq]


theorem mem_single_drop {α} (x a : α) (n : Nat) (h : a ∈ ([x] : List α).drop n) : a = x := by
  have := List.mem_of_mem_drop h
  simpa using this

/-- a frame that accepts a test: where the placeholder goes, and what the frame looks like afterwards -/
theorem host_takes_test (f : Frame) (hcf : CF f) (d : CmdDef) (ld : List Bytes) (st' : CState) (pl : Placement)
    (h : checkNextArg f.d ld f.st .test (.test (ph d)) = .ok (some (st', pl))) :
    CF { f with st := st' } ∧ Rel d (.place pl) { f with st := st' } ∧
      cntAs st'.arguments = cntAs f.st.arguments + 1 ∧ st'.extraArgs = f.st.extraArgs := by
  have hd := hcf.ok.1
  have hst := hcf.ok.2
  obtain ⟨hh, _, hplok⟩ := test_accept_host f.d hd ld f.st _ true true hst st' pl h
  obtain ⟨slot, hargs, hshape⟩ := hcf.host hh
  obtain ⟨slot', hargs', hslot, _, _, _⟩ := cmdSafe_host f.d hd hh
  have hsl : slot' = slot := by rw [hargs] at hargs'; simpa using hargs'.symm
  subst hsl
  have hreq : slot'.required = true := by
    simp only [hostSlotOK, Bool.and_eq_true] at hslot; exact hslot.1.1.1.1
  have htypes : slot'.types = [.test] ∨ slot'.types = [.testlist] := by
    simp only [hostSlotOK, Bool.and_eq_true, Bool.or_eq_true, beq_iff_eq] at hslot; exact hslot.1.1.1.2
  have hstok' : StOK f.d st' := checkNextArg_StOK f.d hd ld f.st .test _ true true hst (by simp [Consistent]) st' pl h
  obtain ⟨hinc, hcase⟩ := checkNextArg_cases f.d ld f.st .test _ true true st' pl h
  rcases hcase with ⟨c, e, hp, _, _, _⟩ | ⟨hp, hscan⟩
  · exfalso
    obtain ⟨hcur, hce⟩ := pendingExtra_some f.st c e hp
    have hmem := hst.cur c hcur
    rw [hargs] at hmem
    simp at hmem
    subst hmem
    simp only [hostSlotOK, Bool.and_eq_true, Option.isNone_iff_eq_none] at hslot
    rw [hslot.1.1.2] at hce
    cases hce
  · have hnf := no_fallthrough f.d hd f.st hst _ hinc hp
    rcases scan_cases f.d.name ld true true .test _ f.st _ _ st' pl hscan with ⟨_, _, h0⟩ | ⟨pre, a, post, hsplit, _, hit⟩
    · exact absurd h0 hnf
    · have ha : a = slot' := by
        apply mem_single_drop slot' a f.st.nextargpos
        rw [← hargs, hsplit]; simp
      subst ha
      cases hit with
      | testlistSkip hr ht htt hadd hst2 hpl => cases hadd
      | optional hr ht hres hval => rw [hreq] at hr; cases hr
      | testlistAdd hr ht htt hadd args happ hst2 hpl =>
        subst hst2 hpl
        simp only [appendTest] at happ
        rcases hshape with hsh | ⟨ht2, _⟩ | ⟨_, ts, hsh⟩
        · -- nothing yet: the list is started
          rw [hsh] at happ
          simp only [assocGet, List.find?_nil, List.nil_append, Except.ok.injEq] at happ
          subst happ
          refine ⟨⟨⟨hd, hstok'⟩, hcf.extra0, fun hn => (by rw [hh] at hn; cases hn), fun _ => ⟨a, hargs, Or.inr (Or.inr ⟨ht, [ph d], rfl⟩)⟩⟩,
            ⟨⟨[], rfl⟩, hplok⟩, ?_, rfl⟩
          simp [hsh, cntAs, cntA, cntNs, cntN_ph]
        · rw [ht] at ht2; cases ht2
        · rw [hsh] at happ
          have hget : assocGet [Arg.tests a.name ts] a.name = some (Arg.tests a.name ts) := by
            simp [assocGet, Arg.key]
          rw [hget] at happ
          simp only [Except.ok.injEq] at happ
          subst happ
          have hset : assocSet [Arg.tests a.name ts] (Arg.tests a.name (ts ++ [ph d])) = [Arg.tests a.name (ts ++ [ph d])] := by
            simp [assocSet, Arg.key]
          refine ⟨⟨⟨hd, hstok'⟩, hcf.extra0, fun hn => (by rw [hh] at hn; cases hn),
              fun _ => ⟨a, hargs, Or.inr (Or.inr ⟨ht, ts ++ [ph d], by simp only; exact hset⟩)⟩⟩,
            ⟨⟨ts, by simp only; exact hset⟩, hplok⟩, ?_, rfl⟩
          simp only [hset, hsh, cntAs, cntA, cntNs_append, cntNs, cntN_ph]
      | required hr ht hv hres hval =>
        have ht1 : a.types = [.test] := by
          rcases htypes with h1 | h1
          · exact h1
          · exact absurd h1 ht
        have hvar : f.d.variableArgs = false := by
          cases hv' : f.d.variableArgs with
          | false => rfl
          | true =>
            obtain ⟨a', ha', hty, _⟩ := var_single f.d hd hv'
            rw [hargs] at ha'
            simp at ha'
            subst ha'
            rw [ht1] at hty; cases hty
        unfold takeRequired at hres
        simp only [Prod.mk.injEq] at hres
        obtain ⟨hs', hpl⟩ := hres
        subst hs' hpl
        rcases hshape with hsh | ⟨_, n, hsh, hr1⟩ | ⟨ht2, _⟩
        · have hcnt : f.st.rargsCnt = 0 := by
            have hle : f.st.rargsCnt ≤ 1 := by
              have hrc : requiredCount f.d.args = 1 := by rw [hargs]; simp [requiredCount, hreq]
              rcases hst.cnt with h1 | h1
              · omega
              · omega
            have hne : f.st.rargsCnt ≠ 1 := by
              intro h1
              have := isComplete_host_one f.d a hargs hslot hvar f.st hst.cur h1 (some (.test, .test (ph d)))
              rw [this] at hinc; cases hinc
            omega
          have hset : setArg true f.st.arguments (AVal.toArg a.name (.test (ph d))) = [Arg.test a.name (ph d)] := by
            simp [setArg, hsh, assocSet, AVal.toArg]
          refine ⟨⟨⟨hd, hstok'⟩, hcf.extra0, fun hn => (by rw [hh] at hn; cases hn),
              fun _ => ⟨a, hargs, Or.inr (Or.inl ⟨ht1, ph d, by simp only; exact hset, by simp only; omega⟩)⟩⟩,
            ⟨by simp only; exact hset, hplok⟩, ?_, rfl⟩
          rw [hsh] at hset
          simp only [hset, hsh, cntAs, cntA, cntN_ph]
        · exfalso
          have := isComplete_host_one f.d a hargs hslot hvar f.st hst.cur hr1 (some (.test, .test (ph d)))
          rw [this] at hinc; cases hinc
        · rw [ht1] at ht2; cases ht2


theorem host_not_var_of_test (d : CmdDef) (hd : cmdSafe d = true) (slot : ArgDef) (hargs : d.args = [slot])
    (ht : slot.types = [.test]) : d.variableArgs = false := by
  cases hv : d.variableArgs with
  | false => rfl
  | true =>
    obtain ⟨a', ha', hty, _⟩ := var_single d hd hv
    rw [hargs] at ha'
    simp at ha'
    subst ha'
    rw [ht] at hty; cases hty

/-- a scalar or list value: only frames that take no tests accept it, and it weighs nothing -/
theorem value_keeps (f : Frame) (hcf : CF f) (ld : List Bytes) (t : ArgType) (v : AVal) (hc : Consistent t v)
    (hn : ∀ n, v ≠ .test n) (st' : CState) (pl : Placement)
    (h : checkNextArg f.d ld f.st t v = .ok (some (st', pl))) :
    CF { f with st := st' } ∧ cntAs st'.arguments = cntAs f.st.arguments ∧ cntAs st'.extraArgs = cntAs f.st.extraArgs := by
  have hd := hcf.ok.1
  have hst := hcf.ok.2
  have htt : t ≠ .test := by
    intro ht
    subst ht
    cases v with
    | str b => simp [Consistent] at hc
    | strs l => simp [Consistent] at hc
    | test n => exact hn n rfl
  cases hh : isHost f.d with
  | true => exact absurd h (host_rejects_scalar f.d hd hh ld f.st t v true true hst htt st' pl)
  | false =>
    have hz := hcf.nonhost hh
    have hv0 : ∀ k, cntA (v.toArg k) = 0 := by
      intro k
      cases v with
      | str b => rfl
      | strs l => rfl
      | test n => exact absurd rfl (hn n)
    have := Roles.cna_mem (fun a => cntA a = 0) f.d ld f.st t v true true st' pl hv0
      (fun n hv => absurd hv (hn n)) (all_zero_of_cntAs _ hz) (all_zero_of_cntAs _ hcf.extra0) h
    have ha0 := cntAs_zero_of_all _ this.1
    have he0 := cntAs_zero_of_all _ this.2
    refine ⟨⟨⟨hd, checkNextArg_StOK f.d hd ld f.st t v true true hst hc st' pl h⟩, he0, fun _ => ha0,
      fun hh' => by simp only at hh'; rw [hh] at hh'; cases hh'⟩, by rw [ha0, hz], by rw [he0, hcf.extra0]⟩

/-- with `add` off nothing is stored -/
theorem dry_same (d : CmdDef) (ld : List Bytes) (st : CState) (v : AVal) (st' : CState) (pl : Placement)
    (hcna : checkNextArg d ld st .test v false true = .ok (some (st', pl))) :
    st'.arguments = st.arguments ∧ st'.extraArgs = st.extraArgs := by
  obtain ⟨_, hc⟩ := checkNextArg_cases d ld st .test v false true st' pl hcna
  rcases hc with ⟨c, e, _, _, hst, _⟩ | ⟨_, hscan⟩
  · subst hst; exact ⟨rfl, by simp [setArg]⟩
  · rcases scan_cases d.name ld true false .test v st _ _ st' pl hscan with ⟨h1, _, _⟩ | ⟨pre, a, post, _, _, hit⟩
    · subst h1; exact ⟨rfl, rfl⟩
    · cases hit with
      | testlistAdd hr ht htt hadd args happ hst hpl => cases hadd
      | testlistSkip hr ht htt hadd hst hpl => subst hst; exact ⟨rfl, rfl⟩
      | required hr ht hvt hres hval =>
        unfold takeRequired at hres
        simp only [Prod.mk.injEq] at hres
        rw [hres.1]; exact ⟨by simp [setArg], rfl⟩
      | optional hr ht hres hval =>
        unfold takeOptional at hres
        split at hres
        · simp at hres
        · split at hres
          · simp at hres
          · simp only [Except.ok.injEq, Prod.mk.injEq] at hres
            rw [← hres.1]; exact ⟨by simp [setArg], rfl⟩

theorem dry_keeps (f : Frame) (hcf : CF f) (ld : List Bytes) (n : Node) (st' : CState) (pl : Placement)
    (h : checkNextArg f.d ld f.st .test (.test n) (add := false) = .ok (some (st', pl))) :
    CF { f with st := st' } ∧ st'.arguments = f.st.arguments ∧ st'.extraArgs = f.st.extraArgs := by
  have hd := hcf.ok.1
  have hst := hcf.ok.2
  obtain ⟨hsa, hse⟩ := dry_same f.d ld f.st _ st' pl h
  have hstok' := checkNextArg_StOK f.d hd ld f.st .test _ false true hst (by simp [Consistent]) st' pl h
  refine ⟨⟨⟨hd, hstok'⟩, by simp only; rw [hse]; exact hcf.extra0, fun hh => by simp only; rw [hsa]; exact hcf.nonhost hh, ?_⟩, hsa, hse⟩
  intro hh
  obtain ⟨slot, hargs, hshape⟩ := hcf.host hh
  obtain ⟨slot', hargs', hslot, _, _, _⟩ := cmdSafe_host f.d hd hh
  have hsl : slot' = slot := by rw [hargs] at hargs'; simpa using hargs'.symm
  subst hsl
  refine ⟨slot', hargs, ?_⟩
  simp only
  rw [hsa]
  rcases hshape with hsh | ⟨ht, m, hsh, hr1⟩ | hsh
  · exact Or.inl hsh
  · -- the command already has its test: it is complete and refuses
    exfalso
    have hvar := host_not_var_of_test f.d hd slot' hargs ht
    have hcomp := isComplete_host_one f.d slot' hargs hslot hvar f.st hst.cur hr1 (some (.test, .test n))
    obtain ⟨hinc, _⟩ := checkNextArg_cases f.d ld f.st .test _ false true st' pl h
    rw [hcomp] at hinc; cases hinc
  · exact Or.inr (Or.inr hsh)


theorem replaceLast_snoc (ts : List Node) (x n : Node) : replaceLast (ts ++ [x]) n = ts ++ [n] := by
  simp [replaceLast]

/-- a finished frame goes into the frame below it: that frame stays in shape, and its count grows by the nodes of the
    finished tree, less the placeholder it replaces -/
theorem plug_keeps (p f : Frame) (hp : CF p) (_hf : CF f) (hr : Rel f.d f.attach p) :
    CF (plug p f.attach (Frame.toNode f)) ∧
      inner (plug p f.attach (Frame.toNode f)) + (if isPlace f.attach then 1 else 0) = inner p + cntN (Frame.toNode f) := by
  have hd := hp.ok.1
  cases hat : f.attach with
  | top => rw [hat] at hr; exact absurd hr (by simp [Rel])
  | child =>
    have hok : FrameOK (plug p .child (Frame.toNode f)) := plug_ok p _ _ hp.ok (by intro pl h; cases h)
    refine ⟨⟨hok, hp.extra0, hp.nonhost, hp.host⟩, ?_⟩
    simp only [plug, inner, isPlace, cntNs_append, cntNs_single, Bool.false_eq_true, if_false]
    omega
  | place pl =>
    rw [hat] at hr
    cases pl with
    | nowhere => exact absurd hr (by simp [Rel])
    | extra k => exact absurd hr (by simp [Rel])
    | arg k =>
      simp only [Rel] at hr
      obtain ⟨hargs, hplok⟩ := hr
      have hok : FrameOK (plug p (.place (.arg k)) (Frame.toNode f)) :=
        plug_ok p _ _ hp.ok (by intro pl h; injection h with h; subst h; exact hplok)
      have hset : assocSet p.st.arguments (Arg.test k (Frame.toNode f)) = [Arg.test k (Frame.toNode f)] := by
        rw [hargs]; simp [assocSet, Arg.key]
      have hhost : isHost p.d = true := by
        cases hh : isHost p.d with
        | true => rfl
        | false =>
          have := hp.nonhost hh
          rw [hargs] at this
          simp [cntAs, cntA, cntN_ph] at this
      obtain ⟨slot, hsl, hshape⟩ := hp.host hhost
      refine ⟨⟨hok, hp.extra0, fun hn => (by simp only [plug] at hn; rw [hhost] at hn; cases hn), ?_⟩, ?_⟩
      · intro _
        refine ⟨slot, hsl, ?_⟩
        simp only [plug]
        rw [hset]
        rcases hshape with hsh | ⟨ht, n0, hsh, hr1⟩ | ⟨_, ts, hsh⟩
        · rw [hargs] at hsh; cases hsh
        · rw [hargs] at hsh
          have hk : k = slot.name := by simp at hsh; exact hsh.1
          exact Or.inr (Or.inl ⟨ht, Frame.toNode f, by rw [hk], hr1⟩)
        · rw [hargs] at hsh; simp at hsh
      · simp only [plug, inner, isPlace, if_true]
        rw [hset, hargs]
        simp only [cntAs, cntA, cntN_ph]
        omega
    | elem k =>
      simp only [Rel] at hr
      obtain ⟨⟨ts, hargs⟩, hplok⟩ := hr
      have hok : FrameOK (plug p (.place (.elem k)) (Frame.toNode f)) :=
        plug_ok p _ _ hp.ok (by intro pl h; injection h with h; subst h; exact hplok)
      have hget : assocGet p.st.arguments k = some (Arg.tests k (ts ++ [ph f.d])) := by
        rw [hargs]; simp [assocGet, Arg.key]
      have hset : assocSet p.st.arguments (Arg.tests k (replaceLast (ts ++ [ph f.d]) (Frame.toNode f))) =
          [Arg.tests k (ts ++ [Frame.toNode f])] := by
        rw [hargs, replaceLast_snoc]; simp [assocSet, Arg.key]
      have hhost : isHost p.d = true := by
        cases hh : isHost p.d with
        | true => rfl
        | false =>
          have := hp.nonhost hh
          rw [hargs] at this
          simp [cntAs, cntA, cntNs_append, cntNs, cntN_ph] at this
      obtain ⟨slot, hsl, hshape⟩ := hp.host hhost
      have hplug : plug p (.place (.elem k)) (Frame.toNode f) =
          { p with st := { p.st with arguments := [Arg.tests k (ts ++ [Frame.toNode f])] } } := by
        simp only [plug, hget]
        rw [hset]
      refine ⟨⟨hok, by rw [hplug]; exact hp.extra0, fun hn => (by rw [hplug] at hn; simp only at hn; rw [hhost] at hn; cases hn), ?_⟩, ?_⟩
      · intro _
        rw [hplug]
        refine ⟨slot, hsl, ?_⟩
        rcases hshape with hsh | ⟨_, n0, hsh, _⟩ | ⟨ht, ts0, hsh⟩
        · rw [hargs] at hsh; cases hsh
        · rw [hargs] at hsh; simp at hsh
        · rw [hargs] at hsh
          have hk : k = slot.name := by simp at hsh; exact hsh.1
          exact Or.inr (Or.inr ⟨ht, ts ++ [Frame.toNode f], by rw [hk]⟩)
      · rw [hplug]
        simp only [inner, isPlace, if_true]
        rw [hargs]
        simp only [cntAs, cntA, cntNs_append, cntNs, cntN_ph]
        omega

theorem reassign_keeps (f f' : Frame) (hf : CF f) (h : reassign f = some f') :
    CF f' ∧ inner f' = inner f ∧ f'.attach = f.attach ∧ f'.d = f.d := by
  obtain ⟨hok', hd', ha'⟩ := reassign_ok f f' hf.ok h
  unfold reassign at h
  split at h
  · rename_i hsp
    split at h
    · rename_i a hget
      split at h
      · simp at h
      · simp at h
        subst h
        have hnh : isHost f.d = false := by
          cases hh : isHost f.d with
          | false => rfl
          | true =>
            obtain ⟨_, _, _, _, _, hsn⟩ := cmdSafe_host f.d hf.ok.1 hh
            rw [hsp] at hsn; cases hsn
        have hz := hf.nonhost hnh
        have hall := all_zero_of_cntAs _ hz
        have hmem : a ∈ f.st.arguments := by
          unfold assocGet at hget
          exact List.mem_of_find?_eq_some hget
        have hnew : cntAs (assocErase f.st.arguments "variable-list" ++ [a.rekey "list-of-flags"]) = 0 := by
          apply cntAs_zero_of_all
          intro x hx
          simp only [List.mem_append, List.mem_singleton] at hx
          rcases hx with hx | rfl
          · unfold assocErase at hx
            exact hall x (List.mem_filter.mp hx).1
          · rw [cntA_rekey]; exact hall a hmem
        refine ⟨⟨hok', hf.extra0, fun _ => hnew, fun hh => (by simp only at hh; rw [hnh] at hh; cases hh)⟩, ?_, rfl, rfl⟩
        simp only [inner]
        rw [hnew, hz]
    · simp at h
  · simp at h

/-- the counting shape is closed under the ways the machine builds frames (for a safe table) -/
theorem closedC {T : Table} (hT : TableSafe T) :
    StackThread.Closed T CF Rel Bot (fun _ => True) where
  nil := trivial
  pushTop := fun d hd _ _ hk _ => ⟨CF.fresh d (hT d hd) .top, rfl, hk⟩
  pushChild := fun d hd _ _ _ _ _ => ⟨CF.fresh d (hT d hd) .child, trivial⟩
  pushTest := by
    intro d hd f ld st' pl hf _ hcna
    obtain ⟨h1, h2, _, _⟩ := host_takes_test f hf d ld st' pl hcna
    exact ⟨h1, CF.fresh d (hT d hd) _, h2⟩
  value := fun f ld t v st' pl hf hc hn hcna => (value_keeps f hf ld t v hc hn st' pl hcna).1
  dry := fun f ld n st' pl hf hcna => (dry_keeps f hf ld n st' pl hcna).1
  plug := fun p f hp hf hr => (plug_keeps p f hp hf hr).1
  reassign := fun f f' hf h => (reassign_keeps f f' hf h).1
  record := fun _ _ _ _ _ _ => trivial


/-! ## what each parser function does to the count -/

abbrev SPc (s : PState) : Prop := StackThread.SP CF Rel Bot (fun _ => True) s
abbrev StackC : List Frame → List Node → Prop := StackThread.StackP CF Rel Bot

def MuRet (m : Nat) (r : FnResult) : Prop :=
  match r with
  | .ret _ s' _ => mu s' = m
  | _ => True

theorem muRet_ofCmdErr (m : Nat) (rew : Bool) (e : CmdErr) : MuRet m (ofCmdErr rew e) := by
  cases e <;> trivial

theorem mu_fields {s s' : PState} (h1 : s'.stack = s.stack) (h2 : s'.result = s.result) : mu s' = mu s := by
  simp [mu, h1, h2]

theorem w_eq {f f' : Frame} (hi : inner f' = inner f) (ha : f'.attach = f.attach) : w f' = w f := by
  simp [w, hi, ha]

theorem mu_withTop (s : PState) (f f' : Frame) (rest : List Frame) (hs : s.stack = f :: rest) (hw : w f' = w f) :
    mu (withTop s f') = mu s := by
  simp [mu, withTop, hs, wsum, hw]

/-- a scalar or list argument does not change the count -/
theorem mu_curCheck_scalar (s : PState) (hsp : SPc s) (t : ArgType) (v : AVal) (hc : Consistent t v)
    (hn : ∀ n, v ≠ .test n) (b : Bool) (s' : PState) (pl : Placement) (h : curCheck s t v = .ok (b, s', pl)) :
    mu s' = mu s := by
  cases b with
  | false => rw [StackThread.curCheck_false s t v s' pl h]
  | true =>
    obtain ⟨f, rest, st', hst, hcna, rfl⟩ := StackThread.curCheck_true s t v s' pl h
    have hS := hsp.1
    rw [hst] at hS
    obtain ⟨_, ha, he⟩ := value_keeps f hS.head s.loaded t v hc hn st' pl hcna
    exact mu_withTop s f _ rest hst (w_eq (by simp only [inner]; rw [ha, he]) rfl)

theorem w_plug (p f : Frame) (hp : CF p) (hf : CF f) (hr : Rel f.d f.attach p) :
    w (plug p f.attach (Frame.toNode f)) = w p + w f := by
  obtain ⟨_, hacc⟩ := plug_keeps p f hp hf hr
  rw [cntN_toNode] at hacc
  simp only [w, plug_attach]
  cases hpl : isPlace f.attach <;> simp only [hpl, Bool.false_eq_true, if_false, if_true] at hacc ⊢ <;> omega

theorem wsum_upLoop (res : List Node) (rest : List Frame) : ∀ (f : Frame), StackC (f :: rest) res → rest ≠ [] →
    wsum (upLoop f rest).1 = wsum (f :: rest) := by
  induction rest with
  | nil => intro f _ hne; exact absurd rfl hne
  | cons p r ih =>
    intro f h _
    have hf : CF f := h.1
    have hp : StackC (p :: r) res := h.2.2
    have hw := w_plug p f hp.head hf h.2.1
    have hcf' := (plug_keeps p f hp.head hf h.2.1).1
    have hst : StackC (plug p f.attach (Frame.toNode f) :: r) res :=
      hp.retop hcf' (plug_d p _ _) (plug_attach p _ _)
    unfold upLoop
    simp only
    split
    · rename_i hcond
      cases r with
      | nil =>
        -- the bottom frame is a command, not a test: the loop stops there
        exfalso
        have hb : p.d.kind ≠ .test := hp.2.2
        simp only [plug_d, Bool.and_eq_true, beq_iff_eq] at hcond
        exact hb hcond.1
      | cons q r' =>
        rw [ih _ hst (by simp)]
        simp only [wsum, hw]; omega
    · simp only [wsum, hw]; omega

theorem wsum_upLoop_single (f : Frame) : wsum (upLoop f []).1 = 0 := by simp [upLoop, wsum]

/-- `__up()` keeps the count: the popped frame's nodes move into its parent, or into the result -/
theorem mu_up (s s' : PState) (hsp : SPc s) (hu : up s = .ok s') : mu s' = mu s := by
  unfold up at hu
  split at hu
  · simp at hu
  · rename_i f rest hst
    simp at hu
    rw [← hu]
    have hS := hsp.1
    rw [hst] at hS
    cases rest with
    | nil =>
      have hbot : isPlace f.attach = false := hS.2.1
      simp only [mu, record, hst, wsum_upLoop_single, wsum, cntNs_append, cntNs_single, cntN_toNode, w, hbot,
        Bool.false_eq_true, if_false]
      omega
    | cons p r =>
      simp only [mu, record, hst]
      rw [wsum_upLoop s.result (p :: r) f hS (by simp)]


theorem wsum_complLoop (ld : List Bytes) (res : List Node) (rest : List Frame) : ∀ (f : Frame),
    StackC (f :: rest) res → ∀ (o : ComplOut), complLoop ld f rest = .ok o → wsum o.stack = wsum (f :: rest) := by
  induction rest with
  | nil =>
    intro f _ o ho
    simp [complLoop] at ho
    subst ho
    rfl
  | cons p r ih =>
    intro f h o ho
    have hf : CF f := h.1
    have hp : StackC (p :: r) res := h.2.2
    have hw := w_plug p f hp.head hf h.2.1
    have hcf' := (plug_keeps p f hp.head hf h.2.1).1
    have hst : StackC (plug p f.attach (Frame.toNode f) :: r) res :=
      hp.retop hcf' (plug_d p _ _) (plug_attach p _ _)
    have hstop : wsum (plug p f.attach (Frame.toNode f) :: r) = wsum (f :: p :: r) := by
      simp only [wsum, hw]; omega
    unfold complLoop at ho
    simp only at ho
    split at ho
    · split at ho
      · split at ho
        · simp at ho; subst ho; exact hstop
        · rw [ih _ hst o ho]; exact hstop
      · split at ho
        · simp at ho
        · simp at ho; subst ho; exact hstop
        · rename_i st' pl hcna
          obtain ⟨hcf'', hsa, hse⟩ := dry_keeps _ hcf' ld _ st' pl hcna
          have hw' : w { plug p f.attach (Frame.toNode f) with st := st' } = w (plug p f.attach (Frame.toNode f)) :=
            w_eq (by simp only [inner]; rw [hsa, hse]) rfl
          have hst' : StackC ({ plug p f.attach (Frame.toNode f) with st := st' } :: r) res := hst.retop hcf'' rfl rfl
          split at ho
          · simp at ho; subst ho
            simp only [wsum, hw']
            exact hstop
          · rw [ih _ hst' o ho]
            simp only [wsum, hw']
            exact hstop
    · rw [ih _ hst o ho]; exact hstop

theorem mu_completion (s : PState) (hsp : SPc s) (ts b : Bool) (s' : PState)
    (hc : completion s ts = .ok (b, s')) : mu s' = mu s := by
  unfold completion at hc
  split at hc
  · simp at hc
  · rename_i f rest hst
    split at hc
    · simp at hc; rw [← hc.2]
    · split at hc
      · simp at hc; rw [← hc.2]; split
        · exact mu_fields rfl rfl
        · rfl
      · split at hc
        · simp at hc
        · rename_i o ho
          simp at hc
          rw [← hc.2]
          have hS := hsp.1
          rw [hst] at hS
          simp only [mu, wsum_complLoop s.loaded s.result rest f hS o ho, hst]

theorem muRet_complThen (s : PState) (hsp : SPc s) (ts rew : Bool) : MuRet (mu s) (complThen s ts rew) := by
  unfold complThen
  split
  · exact muRet_ofCmdErr _ _ _
  · rename_i b s' hc
    exact mu_completion s hsp ts b s' hc

theorem muRet_tryReassign (s : PState) (hsp : SPc s) : MuRet (mu s) (tryReassign s) := by
  unfold tryReassign
  split
  · trivial
  · rename_i f rest hst
    split
    · split
      · rfl
      · rename_i f' hre
        have hS := hsp.1
        rw [hst] at hS
        obtain ⟨_, hi, ha, _⟩ := reassign_keeps f f' hS.head hre
        exact mu_withTop s f f' rest hst (w_eq hi ha)
    · rfl


variable {T : Table}

theorem muRet_thenCompl (hT : TableSafe T) (m : Nat) (r : FnResult) (hk : StackThread.KeepsP CF Rel Bot (fun _ => True) r)
    (h : MuRet m r) : MuRet m (thenCompl r) := by
  unfold thenCompl
  split
  · rename_i s' rew
    have := muRet_complThen s' hk false rew
    simp only [MuRet] at h
    rw [h] at this
    exact this
  · exact h

theorem muRet_offer (s : PState) (hsp : SPc s) (t : ArgType) (v : AVal) (hc : Consistent t v) (hn : ∀ n, v ≠ .test n) :
    MuRet (mu s) (offer s t v) := by
  unfold offer
  split
  · exact muRet_ofCmdErr _ _ _
  · rename_i b s' pl hcc
    exact mu_curCheck_scalar s hsp t v hc hn b s' pl hcc

theorem muRet_argumentFn (s : PState) (hsp : SPc s) (k : TokKind) (text : Bytes) : MuRet (mu s) (argumentFn s k text) := by
  have hoff : ∀ t v, Consistent t v → (∀ n, v ≠ .test n) →
      MuRet (mu s) (if (!Utf8.valid text) = true then FnResult.err PErr.decodeError false else offer s t v) := by
    intro t v hc hn; split
    · trivial
    · exact muRet_offer s hsp t v hc hn
  have nt : ∀ (b : Bytes) (n : Node), AVal.str b ≠ .test n := by intro b n hh; cases hh
  unfold argumentFn
  cases k with
  | string => exact hoff _ _ (by simp [Consistent]) (nt _)
  | multiline => exact hoff _ _ (by simp [Consistent]) (nt _)
  | number => exact muRet_offer s hsp _ _ (by simp [Consistent]) (nt _)
  | tag => exact muRet_offer s hsp _ _ (by simp [Consistent]) (nt _)
  | left_bracket => exact mu_fields rfl rfl
  | left_cbracket => exact muRet_tryReassign s hsp
  | comma => exact muRet_tryReassign s hsp
  | right_parenthesis => exact muRet_tryReassign s hsp
  | semicolon => rfl
  | right_bracket => rfl
  | left_parenthesis => rfl
  | right_cbracket => rfl
  | hash_comment => rfl
  | bracket_comment => rfl
  | identifier => rfl

/-- the argument-level steps (everything but an identifier) keep the count -/
theorem muRet_argThenCompl (hT : TableSafe T) (s : PState) (hsp : SPc s) (k : TokKind) (text : Bytes) :
    MuRet (mu s) (argThenCompl s k text) := by
  unfold argThenCompl
  apply muRet_thenCompl hT
  · -- the state handed on satisfies the invariant
    have := StackThread.keepsP_argThenCompl (closedC hT) s hsp k text
    -- `argThenCompl = thenCompl ∘ argumentFn`: the intermediate state's invariant is what `StackThread` proves on the way
    unfold argumentFn
    have hoff : ∀ t v, Consistent t v → (∀ n, v ≠ .test n) →
        StackThread.KeepsP CF Rel Bot (fun _ => True)
          (if (!Utf8.valid text) = true then FnResult.err PErr.decodeError false else offer s t v) := by
      intro t v hc hn; split
      · trivial
      · exact StackThread.keepsP_offer (closedC hT) s hsp t v hc hn
    have nt : ∀ (b : Bytes) (n : Node), AVal.str b ≠ .test n := by intro b n hh; cases hh
    cases k with
    | string => exact hoff _ _ (by simp [Consistent]) (nt _)
    | multiline => exact hoff _ _ (by simp [Consistent]) (nt _)
    | number => exact StackThread.keepsP_offer (closedC hT) s hsp _ _ (by simp [Consistent]) (nt _)
    | tag => exact StackThread.keepsP_offer (closedC hT) s hsp _ _ (by simp [Consistent]) (nt _)
    | left_bracket => exact hsp.fields rfl rfl
    | left_cbracket => exact StackThread.keepsP_tryReassign (closedC hT) s hsp
    | comma => exact StackThread.keepsP_tryReassign (closedC hT) s hsp
    | right_parenthesis => exact StackThread.keepsP_tryReassign (closedC hT) s hsp
    | semicolon => exact hsp
    | right_bracket => exact hsp
    | left_parenthesis => exact hsp
    | right_cbracket => exact hsp
    | hash_comment => exact hsp
    | bracket_comment => exact hsp
    | identifier => exact hsp
  · exact muRet_argumentFn s hsp k text

/-- what one identifier adds -/
def delta (k : TokKind) : Nat := if k = .identifier then 1 else 0

/-- the count after a step on a token of kind `k`: one more for an accepted identifier, the same otherwise; a step that
    declines an identifier says nothing (the token is then rejected) -/
def MuK (k : TokKind) (m : Nat) (r : FnResult) : Prop :=
  match r with
  | .ret true s' _ => mu s' = m + delta k
  | .ret false s' _ => k ≠ .identifier → mu s' = m
  | _ => True

theorem muK_of (k : TokKind) (m : Nat) (r : FnResult) (h : MuRet m r) (hk : k ≠ .identifier) : MuK k m r := by
  unfold MuRet at h
  unfold MuK
  split
  · simp only at h; simp [delta, hk, h]
  · intro _; exact h
  · trivial

theorem muK_ofCmdErr (k : TokKind) (m : Nat) (rew : Bool) (e : CmdErr) : MuK k m (ofCmdErr rew e) := by
  cases e <;> trivial

/-- a test identifier adds one: its placeholder goes into the current command, its own frame adds nothing more -/
theorem muRet_pushTest (hT : TableSafe T) (s : PState) (hsp : SPc s) (text : Bytes) :
    MuK .identifier (mu s) (pushTest T s text) := by
  unfold pushTest
  split
  · trivial
  · rename_i d hd
    have hdp : d ∈ T := Threading.getCommand_mem' T _ _ _ d hd
    split
    · trivial
    · rename_i hk
      have hkind : d.kind = .test := by simpa using hk
      split
      · exact muK_ofCmdErr _ _ _ _
      · intro hne; exact absurd rfl hne
      · rename_i s1 pl hcc
        obtain ⟨f, rest, st', hst, hcna, rfl⟩ := StackThread.curCheck_true s _ _ s1 pl hcc
        have hS := hsp.1
        rw [hst] at hS
        obtain ⟨h1, h2, hcnt, hext⟩ := host_takes_test f hS.head d s.loaded st' pl hcna
        have hw : w { f with st := st' } = w f + 1 := by
          simp only [w, inner]
          rw [hcnt, hext]; omega
        have hwt : (withTop s { f with st := st' }).stack = { f with st := st' } :: rest := by
          unfold withTop; rw [hst]
        have hrt : (withTop s { f with st := st' }).result = s.result := by
          unfold withTop; rw [hst]
        -- the state handed to the completion check
        let s2 : PState := ⟨s.result, (withTop s { f with st := st' }).comments, { d := d, attach := .place pl } :: { f with st := st' } :: rest,
          (withTop s { f with st := st' }).cstate, (withTop s { f with st := st' }).curlist, d.expectedFirst,
          (withTop s { f with st := st' }).brackets, (withTop s { f with st := st' }).loaded⟩
        have hs2 : s2 = { withTop s { f with st := st' } with expected := d.expectedFirst, stack := { d := d, attach := .place pl } :: (withTop s { f with st := st' }).stack } := by
          simp only [s2, hwt, hrt]
        rw [← hs2]
        have hsp' : SPc s2 := ⟨⟨CF.fresh d (hT d hdp) _, h2, hS.retop h1 rfl rfl⟩, trivial⟩
        have hmu : mu s2 = mu s + 1 := by
          simp only [mu, s2, wsum, hw, hst]
          simp [w, inner, cntAs, cntNs, isPlace]
          omega
        have := muRet_complThen s2 hsp' false false
        cases hr : complThen s2 false false with
        | ret b s3 rw3 =>
          rw [hr] at this
          cases b with
          | true => simp only [MuK, MuRet] at this ⊢; rw [this, hmu]; simp [delta]
          | false => intro hne; exact absurd rfl hne
        | err e rw3 => trivial
        | crash w => trivial


theorem mu_popBracket (s s1 : PState) (k : TokKind) (hp : popBracket s k = some s1) : mu s1 = mu s := by
  unfold popBracket at hp
  split at hp
  · simp at hp
  · split at hp
    · simp at hp; rw [← hp]; exact mu_fields rfl rfl
    · simp at hp

theorem muRet_closeParen (hT : TableSafe T) (s : PState) (hsp : SPc s) : MuRet (mu s) (closeParen s) := by
  unfold closeParen
  split
  · trivial
  · rename_i s1 h1
    split
    · trivial
    · rename_i s2 h2
      show mu s2 = mu s
      rw [mu_up s1 s2 (StackThread.popBracket_P s s1 _ hsp h1) h2, mu_popBracket s s1 _ h1]

theorem muK_argumentsFn (hT : TableSafe T) (s : PState) (hsp : SPc s) (k : TokKind) (text : Bytes) :
    MuK k (mu s) (argumentsFn T s k text) := by
  unfold argumentsFn
  split
  · trivial
  · split
    · exact muRet_pushTest hT s hsp text
    · split
      · exact muK_of _ _ _ (by show mu _ = mu s; exact mu_fields rfl rfl) (by decide)
      · exact muK_of _ _ _ (muRet_argThenCompl hT s hsp _ text) (by decide)
    · split
      · exact muK_of _ _ _ (by show mu _ = mu s; exact mu_fields rfl rfl) (by decide)
      · exact muK_of _ _ _ (muRet_argThenCompl hT s hsp _ text) (by decide)
    · split
      · exact muK_of _ _ _ (muRet_argThenCompl hT s hsp _ text) (by decide)
      · exact muK_of _ _ _ (muRet_closeParen hT s hsp) (by decide)
    · rename_i hne1 hne2 hne3 hne4
      exact muK_of _ _ _ (muRet_argThenCompl hT s hsp _ text) (by intro h; exact hne1 h)

theorem muRet_stringlistFn (hT : TableSafe T) (s : PState) (hsp : SPc s) (k : TokKind) (text : Bytes) :
    MuRet (mu s) (stringlistFn s k text) := by
  unfold stringlistFn
  split
  · split
    · trivial
    · exact mu_fields rfl rfl
  · exact mu_fields rfl rfl
  · split
    · trivial
    · rename_i s1 h1
      have hp := StackThread.popBracket_P s s1 _ hsp h1
      have hm1 := mu_popBracket s s1 _ h1
      have nt : ∀ (n : Node), AVal.strs s1.curlist ≠ .test n := by intro n hh; cases hh
      split
      · exact muRet_ofCmdErr _ _ _
      · rename_i s2 pl hcc
        show mu s2 = mu s
        rw [mu_curCheck_scalar s1 hp .stringlist _ (by simp [Consistent]) nt _ _ _ hcc, hm1]
      · rename_i s2 pl hcc
        have hm2 := mu_curCheck_scalar s1 hp .stringlist _ (by simp [Consistent]) nt _ _ _ hcc
        have h2 := StackThread.curCheck_P (closedC hT) s1 hp .stringlist _ (by simp [Consistent]) nt _ _ _ hcc
        have := muRet_complThen ⟨s2.result, s2.comments, s2.stack, .arguments, s2.curlist, s2.expected, s2.brackets, s2.loaded⟩
          (h2.fields rfl rfl) true false
        have hm3 : mu (⟨s2.result, s2.comments, s2.stack, .arguments, s2.curlist, s2.expected, s2.brackets, s2.loaded⟩ : PState) = mu s := by
          rw [← hm1, ← hm2]; rfl
        rw [hm3] at this
        exact this
  · rfl

theorem muK_stateFn (hT : TableSafe T) (s : PState) (hsp : SPc s) (k : TokKind) (text : Bytes) :
    MuK k (mu s) (stateFn T s k text) := by
  unfold stateFn
  split
  · -- inside a string list an identifier is never accepted
    have h := muRet_stringlistFn hT s hsp k text
    by_cases hk : k = .identifier
    · subst hk
      simp only [stringlistFn]
      intro hne; exact absurd rfl hne
    · exact muK_of _ _ _ h hk
  · exact muK_argumentsFn hT s hsp k text

/-- the name of a new command adds one (its frame); a closing brace moves a finished block owner up -/
theorem muK_startCommand (hT : TableSafe T) (s : PState) (hsp : SPc s) (k : TokKind) (text : Bytes) :
    MuK k (mu s) (startCommand T s k text) := by
  unfold startCommand
  split
  · rename_i hk
    have hk' : k = .right_cbracket := by simpa using hk
    subst hk'
    apply muK_of _ _ _ _ (by decide)
    split
    · trivial
    · rename_i s1 h1
      split
      · trivial
      · rename_i s2 h2
        have e1 := mu_up s1 s2 (StackThread.popBracket_P s s1 _ hsp h1) h2
        have e0 := mu_popBracket s s1 _ h1
        show mu _ = mu s
        simp only [mu] at e1 e0 ⊢
        omega
  · split
    · rename_i hk2
      have hk' : k ≠ .identifier := by simpa using hk2
      intro _; rfl
    · rename_i hk2
      have hk' : k = .identifier := by simpa using hk2
      subst hk'
      split
      · trivial
      · rename_i d hd
        split
        · trivial
        · split
          · trivial
          · have hst : (announce s d).stack = s.stack := by unfold announce; split <;> rfl
            have hre : (announce s d).result = s.result := by unfold announce; split <;> rfl
            unfold pushCommand
            split
            · rename_i hnil
              show mu _ = mu s + delta .identifier
              simp only [mu, wsum, hre]
              rw [hst] at hnil
              simp [hnil, wsum, w, inner, cntAs, cntNs, isPlace, delta]
            · rename_i f rest hcons
              split
              · trivial
              · show mu _ = mu s + delta .identifier
                simp only [mu, wsum, hre]
                rw [hst] at hcons
                simp [hcons, hst, wsum, w, inner, cntAs, cntNs, isPlace, delta]
                omega

theorem muRet_closeCommand (hT : TableSafe T) (s' : PState) (hsp : SPc s') (k : TokKind) (rew : Bool) :
    MuRet (mu s') (closeCommand s' k rew) := by
  unfold closeCommand
  split
  · split
    · trivial
    · split
      · exact mu_fields rfl rfl
      · rfl
  · split
    · split
      · trivial
      · split
        · rfl
        · split
          · rename_i e _; cases e <;> trivial
          · rename_i s2 hc
            show mu s2 = mu s'
            rw [mu_completion ⟨s'.result, s'.comments, s'.stack, .none, s'.curlist, s'.expected, s'.brackets, s'.loaded⟩
              (hsp.fields rfl rfl) _ _ _ hc]
            rfl
          · rename_i s2 hc
            have hm2 := mu_completion ⟨s'.result, s'.comments, s'.stack, .none, s'.curlist, s'.expected, s'.brackets, s'.loaded⟩
              (hsp.fields rfl rfl) _ _ _ hc
            have h2 := StackThread.completion_P (closedC hT) ⟨s'.result, s'.comments, s'.stack, .none, s'.curlist, s'.expected, s'.brackets, s'.loaded⟩
              (hsp.fields rfl rfl) _ _ _ hc
            split
            · trivial
            · rename_i g rest2 hst2
              simp only
              split
              · trivial
              · rename_i s4 hup
                show mu s4 = mu s'
                rw [mu_up ⟨s2.result, s2.comments, s2.stack, s2.cstate, s2.curlist, s2.expected, s2.brackets, completeCb g s2.loaded⟩ s4
                  (h2.fields rfl rfl) hup]
                rw [show mu (⟨s2.result, s2.comments, s2.stack, s2.cstate, s2.curlist, s2.expected, s2.brackets, completeCb g s2.loaded⟩ : PState) = mu s2 from rfl, hm2]
                rfl
    · rfl


abbrev KeepsPc := StackThread.KeepsP CF Rel Bot (fun _ => True)

theorem muK_commandFn (hT : TableSafe T) (s : PState) (hsp : SPc s) (k : TokKind) (text : Bytes) :
    MuK k (mu s) (commandFn T s k text) := by
  unfold commandFn
  split
  · exact muK_startCommand hT s hsp k text
  · have hg := muK_stateFn hT s hsp k text
    have hk := StackThread.keepsP_stateFn (closedC hT) s hsp k text
    split
    · rename_i s' rew heq
      rw [heq] at hg hk
      -- the state function declined the token: `{` or `;` may still close the command
      by_cases hid : k = .identifier
      · subst hid
        -- an identifier the state function declines is not accepted by `closeCommand` either
        unfold closeCommand
        simp only [show (TokKind.identifier == TokKind.left_cbracket) = false from rfl,
          show (TokKind.identifier == TokKind.semicolon) = false from rfl, Bool.false_eq_true, if_false]
        intro hne; exact absurd rfl hne
      · have hm : mu s' = mu s := hg hid
        have := muRet_closeCommand hT s' hk k rew
        rw [hm] at this
        exact muK_of _ _ _ this hid
    · exact hg

theorem mu_step (hT : TableSafe T) (s : PState) (hsp : SPc s) (tok : Tok) (s' : PState)
    (hs : step T s tok = .ok s' ∨ step T s tok = .rewind s') : mu s' = mu s + delta tok.kind := by
  unfold step at hs
  split at hs
  · rename_i hk
    rcases hs with hs | hs <;> simp at hs
    rw [← hs, hk]; simp [delta]; exact mu_fields rfl rfl
  · rename_i hk
    rcases hs with hs | hs <;> simp at hs
    rw [← hs, hk]; simp [delta]
  · unfold stepTok at hs
    split at hs
    · rcases hs with hs | hs <;> simp at hs
    · rename_i s1 hadm
      have h1 : SPc s1 ∧ mu s1 = mu s := by
        unfold admitTok at hadm
        split at hadm
        · simp at hadm; subst hadm; exact ⟨hsp, rfl⟩
        · split at hadm
          · simp at hadm; subst hadm; exact ⟨hsp.fields rfl rfl, mu_fields rfl rfl⟩
          · simp at hadm
      have hg := muK_commandFn hT s1 h1.1 tok.kind tok.text
      unfold ofFn at hs
      split at hs
      · rename_i s2 heq; rw [heq] at hg; rcases hs with hs | hs <;> simp at hs; subst hs
        simp only [MuK] at hg; rw [hg, h1.2]
      · rename_i s2 heq; rw [heq] at hg; rcases hs with hs | hs <;> simp at hs; subst hs
        simp only [MuK] at hg; rw [hg, h1.2]
      · rcases hs with hs | hs <;> simp at hs
      · rcases hs with hs | hs <;> simp at hs
      · rcases hs with hs | hs <;> simp at hs


/-- an identifier is never delivered twice: only `{`, `,` and `)` can make the parser step back -/
theorem isRew_commandFn_ident (s : PState) (text : Bytes) : isRew (commandFn T s .identifier text) = false := by
  unfold commandFn
  split
  · exact isRew_startCommand T s _ text
  · have hst : isRew (stateFn T s .identifier text) = false := by
      unfold stateFn
      split
      · exact isRew_stringlistFn s _ text
      · unfold argumentsFn
        split
        · rfl
        · exact isRew_pushTest T s text
    split
    · rename_i s' rew heq
      rw [heq] at hst
      have hrew : rew = false := by
        cases rew with
        | false => rfl
        | true => simp [isRew] at hst
      subst hrew
      unfold closeCommand
      simp only [show (TokKind.identifier == TokKind.left_cbracket) = false from rfl,
        show (TokKind.identifier == TokKind.semicolon) = false from rfl, Bool.false_eq_true, if_false]
      rfl
    · exact hst

theorem step_rewind_not_ident (s : PState) (tok : Tok) (s' : PState) (h : step T s tok = .rewind s') :
    tok.kind ≠ .identifier := by
  intro hk
  unfold step at h
  rw [hk] at h
  simp only at h
  unfold stepTok at h
  split at h
  · simp at h
  · rename_i s1 _
    have := isRew_commandFn_ident (T := T) s1 tok.text
    unfold ofFn at h
    split at h
    · simp at h
    · rename_i s2 heq; rw [heq] at this; simp [isRew] at this
    · simp at h
    · simp at h
    · simp at h

theorem mu_deliver (hT : TableSafe T) (s : PState) (hsp : SPc s) (tok : Tok) (s' : PState)
    (hd : deliver T s tok = .ok s') : mu s' = mu s + delta tok.kind := by
  unfold deliver at hd
  cases hst : step T s tok with
  | ok s1 => rw [hst] at hd; simp at hd; subst hd; exact mu_step hT s hsp tok s1 (Or.inl hst)
  | reject e r => rw [hst] at hd; simp at hd
  | crash w => rw [hst] at hd; simp at hd
  | rewind s1 =>
    rw [hst] at hd
    simp only at hd
    have h1 := mu_step hT s hsp tok s1 (Or.inr hst)
    have hsp1 := StackThread.step_P (closedC hT) s hsp tok s1 (Or.inr hst)
    have hk := step_rewind_not_ident s tok s1 hst
    cases hst2 : step T s1 tok with
    | ok s2 =>
      rw [hst2] at hd; simp at hd; subst hd
      have h2 := mu_step hT s1 hsp1 tok s2 (Or.inl hst2)
      simp only [delta, hk, if_false] at h1 h2 ⊢
      omega
    | reject e r => rw [hst2] at hd; simp at hd
    | crash w => rw [hst2] at hd; simp at hd
    | rewind s2 => rw [hst2] at hd; simp at hd

/-- number of identifier tokens -/
def idents : List Tok → Nat
  | [] => 0
  | t :: r => delta t.kind + idents r

theorem mu_feed (hT : TableSafe T) (toks : List Tok) : ∀ (s : PState) (n : Nat), SPc s → ∀ (s' : PState) (m : Nat),
    feed T toks s n = .done s' m → mu s' = mu s + idents toks := by
  induction toks with
  | nil => intro s n _ s' m hf; simp [feed] at hf; rw [← hf.1]; simp [idents]
  | cons tok rest ih =>
    intro s n hsp s' m hf
    unfold feed at hf
    cases hd : deliver T s tok with
    | error o => rw [hd] at hf; simp at hf
    | ok s1 =>
      rw [hd] at hf
      have h1 := mu_deliver hT s hsp tok s1 hd
      have hsp1 := StackThread.deliver_P (closedC hT) s hsp tok s1 hd
      have := ih s1 _ hsp1 s' m hf
      simp only [idents]
      omega

/-- **every command and test of an accepted script is in its tree exactly once, and nothing else is**: the trees have as
    many nodes as the script has identifier tokens -/
theorem accepted_node_count (hT : TableSafe T) (text : Bytes) (prev : PState) (r : List Node)
    (h : parse T text prev = .accept r) : ∃ lr, Lex.lex text = some lr ∧ cntNs r = idents lr.toks := by
  unfold parse at h
  split at h
  · simp at h
  · rename_i lr hl
    refine ⟨lr, hl, ?_⟩
    unfold run at h
    split at h
    · rename_i o ho
      subst h
      rcases feed_stop_located T lr.toks {} 0 _ ho with h1 | ⟨w, h1⟩ | ⟨tok, _, e, h1 | h1⟩ <;> simp at h1
    · rename_i s' m hfeed
      split at h
      · simp at h
      · unfold finish at h
        split at h
        · simp at h
        · split at h
          · simp at h
          · rename_i hstack
            simp at h
            subst h
            have h0 : SPc ({} : PState) := ⟨by simp [StackThread.StackP], trivial⟩
            have := mu_feed hT lr.toks {} 0 h0 s' m hfeed
            have hs : s'.stack = [] := by
              cases hsk : s'.stack with
              | nil => rfl
              | cons f fr => rw [hsk] at hstack; simp at hstack
            simp only [mu, hs, wsum, cntNs] at this
            omega

end Count
