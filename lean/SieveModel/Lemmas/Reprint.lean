import SieveModel.Lemmas.Relex
import SieveModel.Lemmas.Typed
import SieveModel.Lemmas.Roles
import SieveModel.Model.Serialize
/-!
# What the printer writes lexes back to the tokens it was given

`flatNs T r`: the token sequence of a forest — per node its name, the recorded values in definition order (a value as the
token it was read from, a list between brackets with commas, tests between parentheses), `;` or a braced block.
`script_pw`: for an accepted forest `r`, if `Ser.script T r = some out` then `out` is exactly those tokens woven with
white space, every token followed by a byte that cannot continue it (`Lex.SWeave`), hence (`Lex.lex_of_sweave`) the
lexer reads `out` without error as `flatNs T r`.  Conditions on the table (decidable, `TableL`): names are identifiers,
only controls and tests take blocks, a slot that admits strings prints them as strings (so a multi-line block gets its
line feed) and is not a tag slot.
-/
namespace Reprint
open Lex Ser

/-- an *open* piece of output: these tokens, in front of anything that starts with a separator -/
def PW (ks : List KT) (b : Bytes) : Prop :=
  ∀ ks' rest, SWeave ks' rest → HeadSep rest → SWeave (ks ++ ks') (b ++ rest)

/-- a *closed* piece: these tokens in front of anything (it ends in punctuation or white space) -/
def PWc (ks : List KT) (b : Bytes) : Prop :=
  ∀ ks' rest, SWeave ks' rest → SWeave (ks ++ ks') (b ++ rest)

theorem PWc.toPW {ks : List KT} {b : Bytes} (h : PWc ks b) : PW ks b := fun ks' rest hr _ => h ks' rest hr

theorem PW_nil : PW [] [] := fun _ _ hr _ => by simpa using hr
theorem PWc_nil : PWc [] [] := fun _ _ hr => by simpa using hr

theorem PWc_ws (w : Bytes) (hw : ∀ c ∈ w, B.isWs c = true) : PWc [] w :=
  fun _ _ hr => by simpa using hr.prepend w hw

theorem headSep_append {a b : Bytes} (ha : HeadSep a) (hb : HeadSep b) : HeadSep (a ++ b) := by
  intro c r h
  cases a with
  | nil => exact hb c r (by simpa using h)
  | cons x xs => simp only [List.cons_append, List.cons.injEq] at h; rw [← h.1]; exact ha x xs rfl

theorem headSep_append_ne {a b : Bytes} (ha : HeadSep a) (hne : a ≠ []) : HeadSep (a ++ b) := by
  intro c r h
  cases a with
  | nil => exact absurd rfl hne
  | cons x xs => simp only [List.cons_append, List.cons.injEq] at h; rw [← h.1]; exact ha x xs rfl

theorem headSep_cons (c : UInt8) (r : Bytes) (h : sepOK c = true) : HeadSep (c :: r) := by
  intro c' r' h'; simp only [List.cons.injEq] at h'; rw [← h'.1]; exact h

theorem headSep_nil : HeadSep [] := by intro c r h; simp at h

theorem PWc.append {k1 k2 : List KT} {a b : Bytes} (ha : PWc k1 a) (hb : PWc k2 b) : PWc (k1 ++ k2) (a ++ b) := by
  intro ks' rest hr
  have := ha _ _ (hb ks' rest hr)
  simpa [List.append_assoc] using this

theorem PWc.append_PW {k1 k2 : List KT} {a b : Bytes} (ha : PWc k1 a) (hb : PW k2 b) : PW (k1 ++ k2) (a ++ b) := by
  intro ks' rest hr hs
  have := ha _ _ (hb ks' rest hr hs)
  simpa [List.append_assoc] using this

theorem PW.append {k1 k2 : List KT} {a b : Bytes} (ha : PW k1 a) (hb : PW k2 b) (hh : HeadSep b) : PW (k1 ++ k2) (a ++ b) := by
  intro ks' rest hr hs
  have := ha _ _ (hb ks' rest hr hs) (headSep_append hh hs)
  simpa [List.append_assoc] using this

theorem PW.append_c {k1 k2 : List KT} {a b : Bytes} (ha : PW k1 a) (hb : PWc k2 b) (hh : HeadSep b) (hne : b ≠ []) :
    PWc (k1 ++ k2) (a ++ b) := by
  intro ks' rest hr
  have := ha _ _ (hb ks' rest hr) (headSep_append_ne hh hne)
  simpa [List.append_assoc] using this

/-- the punctuation kinds -/
def punct (k : TokKind) : Bool :=
  match k with
  | .left_bracket | .right_bracket | .left_parenthesis | .right_parenthesis | .left_cbracket | .right_cbracket
  | .semicolon | .comma => true
  | _ => false

theorem PWc_punct (c : UInt8) (k : TokKind) (h : single c = some k) (hk : punct k = true) : PWc [(k, [c])] [c] := by
  intro ks' rest hr
  have hg : Genuine (k, [c]) := by simp [Genuine, one, h]
  have hsep : Lex.Sep k rest := by cases k <;> simp_all [Lex.Sep, punct]
  have := SWeave.cons [] (by intro x hx; simp at hx) k [c] ks' rest hg hsep hr
  simpa using this

theorem sep_of_headSep (k : TokKind) (rest : Bytes) (h1 : k ≠ .multiline) (h2 : k ≠ .hash_comment) (h : HeadSep rest) :
    Lex.Sep k rest := by
  cases k <;> simp_all [Lex.Sep]

theorem sep_lf (k : TokKind) (rest : Bytes) : Lex.Sep k (10 :: rest) := by
  have h1 : HeadSep (10 :: rest) := headSep_cons 10 rest (by decide)
  have h2 : HeadLF (10 :: rest) := by intro c r h; simp only [List.cons.injEq] at h; exact h.1.symm
  cases k <;> simp [Lex.Sep, h1, h2]

/-- a token that is not a multi-line block, written as it stands -/
theorem PW_tok (k : TokKind) (txt : Bytes) (hg : Genuine (k, txt)) (h1 : k ≠ .multiline) (h2 : k ≠ .hash_comment) :
    PW [(k, txt)] txt := by
  intro ks' rest hr hs
  have := SWeave.cons [] (by intro x hx; simp at hx) k txt ks' rest hg (sep_of_headSep k rest h1 h2 hs) hr
  simpa using this

/-- any token followed by a line feed -/
theorem PWc_tok_lf (k : TokKind) (txt : Bytes) (hg : Genuine (k, txt)) : PWc [(k, txt)] (txt ++ [10]) := by
  intro ks' rest hr
  have hr' : SWeave ks' (10 :: rest) := by
    have := hr.prepend [10] (by intro c hc; simp at hc; subst hc; decide)
    simpa using this
  have := SWeave.cons [] (by intro x hx; simp at hx) k txt ks' (10 :: rest) hg (sep_lf k rest) hr'
  simpa [List.append_assoc] using this

/-! ## what a string token and a multi-line token look like -/

theorem one_string (t : Bytes) (n : Nat) (h : one t = some (.string, n)) :
    ∃ rest m, t = 34 :: rest ∧ stringEnd rest = some m ∧ n = m + 1 := by
  unfold one at h
  split at h
  · simp at h
  · rename_i c rest
    split at h
    · rename_i k hk
      simp only [Option.some.injEq, Prod.mk.injEq] at h
      obtain ⟨rfl, _⟩ := h
      simp only [single] at hk
      repeat (split at hk <;> try (simp at hk))
    · split at h
      · simp at h
      · split at h
        · split at h
          · simp only [Option.map_eq_some_iff] at h
            obtain ⟨m, _, h2⟩ := h
            simp at h2
          · simp at h
        · split at h
          · rename_i hc34
            simp only [Option.map_eq_some_iff] at h
            obtain ⟨m, hm, h2⟩ := h
            simp only [Prod.mk.injEq, true_and] at h2
            have : c = 34 := by simpa using hc34
            subst this
            exact ⟨rest, m, rfl, hm, h2.symm⟩
          · split at h
            · split at h
              · split at h <;> simp at h
              · simp at h
            · split at h
              · split at h
                · split at h <;> simp at h
                · simp at h
              · split at h
                · dsimp only at h
                  split at h
                  · split at h <;> simp at h
                  · simp at h
                · simp at h

theorem one_multiline (t : Bytes) (n : Nat) (h : one t = some (.multiline, n)) : isText t = true := by
  unfold one at h
  split at h
  · simp at h
  · rename_i c rest
    split at h
    · rename_i k hk
      simp only [Option.some.injEq, Prod.mk.injEq] at h
      obtain ⟨rfl, _⟩ := h
      simp only [single] at hk
      repeat (split at hk <;> try (simp at hk))
    · split at h
      · simp at h
      · split at h
        · split at h
          · simp only [Option.map_eq_some_iff] at h
            obtain ⟨m, _, h2⟩ := h
            simp at h2
          · simp at h
        · split at h
          · simp only [Option.map_eq_some_iff] at h
            obtain ⟨m, _, h2⟩ := h
            simp at h2
          · split at h
            · split at h
              · rename_i ht; exact ht
              · simp at h
            · split at h
              · split at h
                · split at h <;> simp at h
                · simp at h
              · split at h
                · dsimp only at h
                  split at h
                  · split at h <;> simp at h
                  · simp at h
                · simp at h

theorem stringEnd_last (t : Bytes) (n : Nat) (h : stringEnd t = some n) : (t.take n).getLast? = some 34 := by
  fun_induction stringEnd t generalizing n with
  | case1 => simp at h
  | case2 => simp at h; subst h; simp
  | case3 c rest hc => simp at h
  | case4 c rest hc ih =>
    simp only [Option.map_eq_some_iff] at h
    obtain ⟨m, hm, rfl⟩ := h
    have := ih m hm
    have hb := stringEnd_le _ _ hm
    have hm1 : 1 ≤ m := by
      cases m with
      | zero => simp at this
      | succ m => omega
    simp only [List.take_succ_cons]
    rw [List.getLast?_cons_cons, List.getLast?_cons]
    cases hl : (List.take m rest).getLast? with
    | none => rw [hl] at this; simp at this
    | some x => rw [hl] at this; simpa using this
  | case5 => simp at h
  | case6 x rest h1 h2 h3 ih =>
    simp only [Option.map_eq_some_iff] at h
    obtain ⟨m, hm, rfl⟩ := h
    have := ih m hm
    simp only [List.take_succ_cons]
    rw [List.getLast?_cons]
    cases hl : (List.take m rest).getLast? with
    | none => rw [hl] at this; simp at this
    | some x => rw [hl] at this; simpa using this

/-- a string token is a quoted string: it is printed verbatim as a list item -/
theorem renderItem_string (v : Bytes) (h : Genuine (.string, v)) : renderItem v = v ∧ v.head? = some 34 := by
  obtain ⟨rest, m, rfl, hm, hn⟩ := one_string _ _ h
  have hlast := stringEnd_last _ _ hm
  have hml : m = rest.length := by simp at hn; omega
  rw [hml, List.take_length] at hlast
  refine ⟨?_, rfl⟩
  unfold renderItem
  have hne : rest ≠ [] := by intro h0; rw [h0] at hlast; simp at hlast
  have h3 : ((34 : UInt8) :: rest).getLast? = some 34 := by
    cases rest with
    | nil => exact absurd rfl hne
    | cons x xs => rw [List.getLast?_cons_cons]; exact hlast
  have hlen : 2 ≤ ((34 : UInt8) :: rest).length := by
    cases rest with
    | nil => exact absurd rfl hne
    | cons x xs => simp
  simp [h3, hne]

theorem multiline_head (v : Bytes) (h : Genuine (.multiline, v)) : v.head? = some 116 := by
  obtain ⟨r, hr⟩ := (isText_iff _).mp (one_multiline _ _ h)
  have : (TokKind.multiline, v).2 = v := rfl
  rw [this] at hr; rw [hr]; rfl

/-- the kind a value is read as -/
def kindOf (v : Bytes) : TokKind :=
  match one v with
  | some (k, _) => k
  | none => .string

theorem kindOf_genuine (k : TokKind) (v : Bytes) (h : Genuine (k, v)) : kindOf v = k := by
  have : one v = some (k, v.length) := h
  simp [kindOf, this]

/-! ## the token sequence of a tree -/

def commaK : List KT → List KT
  | [] => []
  | [a] => [a]
  | a :: rest => a :: (TokKind.comma, [44]) :: commaK rest

def flatList (items : List Bytes) : List KT :=
  (TokKind.left_bracket, [91]) :: commaK (items.map (fun v => (TokKind.string, renderItem v))) ++ [(TokKind.right_bracket, [93])]

def lookupK (l : List (String × List KT)) (k : String) : Option (List KT) := (l.find? (fun p => p.1 == k)).map (·.2)

/-- the tokens of the arguments, in definition order (mirrors `Ser.assemble`) -/
def asm : List ArgDef → List (String × List KT) → List (String × List KT) → List KT
  | [], _, _ => []
  | d :: rest, fa, fe =>
    match lookupK fa d.name with
    | none => asm rest fa fe
    | some v =>
      v ++ (if decide (ArgType.tag ∈ d.types) then (match lookupK fe d.name with | some p => p | none => []) else []) ++
        asm rest fa fe

mutual
def flatN (T : Table) : Node → List KT
  | .mk name args extra children _ =>
    match T.byName name with
    | none => []
    | some d =>
      let head := (TokKind.identifier, name) :: asm d.args (flatAs T d false args) (flatAs T d true extra)
      if !d.acceptChildren then (if d.kind != .test then head ++ [(TokKind.semicolon, [59])] else head)
      else if d.kind != .control then head
      else head ++ [(TokKind.left_cbracket, [123])] ++ flatNs T children ++ [(TokKind.right_cbracket, [125])]

def flatNs (T : Table) : List Node → List KT
  | [] => []
  | n :: rest => flatN T n ++ flatNs T rest

def flatTs (T : Table) : List Node → List KT
  | [] => []
  | [n] => flatN T n
  | n :: m :: rest => flatN T n ++ [(TokKind.comma, [44])] ++ flatTs T (m :: rest)

def flatA (T : Table) (d : CmdDef) (isExtra : Bool) : Arg → String × List KT
  | .str k v => (k, [(kindOf v, v)])
  | .strs k items =>
    match slotOf d k with
    | none => (k, [])
    | some _ => (k, flatList items)
  | .test k n => (k, flatN T n)
  | .tests k l =>
    match slotOf d k with
    | none => (k, [])
    | some _ => (k, [(TokKind.left_parenthesis, [40])] ++ flatTs T l ++ [(TokKind.right_parenthesis, [41])])

def flatAs (T : Table) (d : CmdDef) (isExtra : Bool) : List Arg → List (String × List KT)
  | [] => []
  | a :: rest => flatA T d isExtra a :: flatAs T d isExtra rest
end

/-! ## lists -/

theorem commaSep_pw : ∀ (items : List Bytes), (∀ x ∈ items, Genuine (.string, x)) →
    PW (commaK (items.map (fun v => (TokKind.string, renderItem v)))) (joinCommaSp (items.map renderItem)) ∧
      HeadSep (joinCommaSp (items.map renderItem))
  | [], _ => ⟨by simpa [commaK, joinCommaSp] using PW_nil, by simpa [joinCommaSp] using headSep_nil⟩
  | [a], h => by
    have ha := h a (by simp)
    obtain ⟨h1, h2⟩ := renderItem_string a ha
    simp only [List.map_cons, List.map_nil, commaK, joinCommaSp, h1]
    refine ⟨PW_tok .string a ha (by simp) (by simp), ?_⟩
    intro c r hc
    rw [hc] at h2; simp at h2; rw [h2]; decide
  | a :: b :: rest, h => by
    have ha := h a (by simp)
    obtain ⟨h1, h2⟩ := renderItem_string a ha
    obtain ⟨ih1, ih2⟩ := commaSep_pw (b :: rest) (fun x hx => h x (by simp [hx]))
    simp only [List.map_cons, commaK, joinCommaSp, h1] at ih1 ih2 ⊢
    have hcomma : PWc [(TokKind.comma, [44])] [44, 32] :=
      (PWc_punct 44 .comma (by decide) (by decide)).append (PWc_ws [32] (by decide))
    have hac := (PW_tok .string a ha (by simp) (by simp)).append_c hcomma (headSep_cons 44 [32] (by decide)) (by simp)
    have := hac.append_PW ih1
    refine ⟨by simpa [List.append_assoc] using this, ?_⟩
    intro c r hc
    cases a with
    | nil => simp at h2
    | cons x xs =>
      simp only [List.cons_append, List.cons.injEq] at hc
      simp at h2
      rw [← hc.1, h2]; decide

theorem renderList_pw (items : List Bytes) (h : ∀ x ∈ items, Genuine (.string, x)) :
    PWc (flatList items) (renderList items) := by
  obtain ⟨h1, h2⟩ := commaSep_pw items h
  have hl : PWc [(TokKind.left_bracket, [91])] [91] := PWc_punct 91 .left_bracket (by decide) (by decide)
  have hr : PWc [(TokKind.right_bracket, [93])] [93] := PWc_punct 93 .right_bracket (by decide) (by decide)
  have := hl.append (h1.append_c hr (headSep_cons 93 [] (by decide)) (by simp))
  simpa [flatList, renderList, List.append_assoc] using this

/-! ## scalars and the argument loop -/

/-- a scalar value as the printer writes it, given the token it was read from: verbatim, or (a multi-line block in a slot
    printed as a string) with a line feed after it -/
theorem renderScalar_pw (st : Bool) (k : TokKind) (v : Bytes) (hg : Genuine (k, v)) (hk : k ≠ .hash_comment)
    (hst : k = .multiline → st = true) : PW [(k, v)] (renderScalar st v) := by
  unfold renderScalar
  cases st with
  | false =>
    simp only [Bool.false_eq_true, if_false]
    exact PW_tok k v hg (by intro h; have := hst h; simp at this) hk
  | true =>
    simp only [if_true]
    split
    · rename_i hc
      refine PW_tok k v hg ?_ hk
      intro hm
      subst hm
      rw [multiline_head v hg] at hc
      simp at hc
    · exact (PWc_tok_lf k v hg).toPW

/-- rendered pieces and their tokens, key by key -/
inductive Rel : List (String × Bytes) → List (String × List KT) → Prop
  | nil : Rel [] []
  | cons {x : String × Bytes} {y : String × List KT} {xs : List (String × Bytes)} {ys : List (String × List KT)}
      (hk : x.1 = y.1) (hp : PW y.2 x.2) (h : Rel xs ys) : Rel (x :: xs) (y :: ys)

theorem lookup_rel {ra : List (String × Bytes)} {fa : List (String × List KT)} (h : Rel ra fa) (k : String) :
    (lookupR ra k = none ∧ lookupK fa k = none) ∨ ∃ b ks, lookupR ra k = some b ∧ lookupK fa k = some ks ∧ PW ks b := by
  induction h with
  | nil => left; simp [lookupR, lookupK]
  | @cons x y xs ys hxy hp _ ih =>
    by_cases hk : (x.1 == k) = true
    · right
      have hk' : (y.1 == k) = true := by rw [← hxy]; exact hk
      exact ⟨x.2, y.2, by simp [lookupR, List.find?, hk], by simp [lookupK, List.find?, hk'], hp⟩
    · have hk' : (y.1 == k) = false := by rw [← hxy]; simpa using hk
      have hk0 : (x.1 == k) = false := by simpa using hk
      rcases ih with ⟨h1, h2⟩ | ⟨b, ks, h1, h2, h3⟩
      · left
        exact ⟨by simpa [lookupR, List.find?, hk0] using h1, by simpa [lookupK, List.find?, hk'] using h2⟩
      · right
        exact ⟨b, ks, by simpa [lookupR, List.find?, hk0] using h1, by simpa [lookupK, List.find?, hk'] using h2, h3⟩

theorem asm_step {ks pk krest : List KT} {b pb brest : Bytes} (hp : PW ks b) (hpp : PW pk pb) (hph : HeadSep pb)
    (ih1 : PW krest brest) (ih2 : HeadSep brest) :
    PW (ks ++ pk ++ krest) ([32] ++ b ++ pb ++ brest) ∧ HeadSep ([32] ++ b ++ pb ++ brest) := by
  have hsp : PWc [] [32] := PWc_ws [32] (by decide)
  have h3 := hpp.append ih1 ih2
  have h4 := hp.append h3 (headSep_append hph ih2)
  have h5 := hsp.append_PW h4
  exact ⟨by simpa [List.append_assoc] using h5, headSep_cons 32 _ (by decide)⟩

theorem assemble_pw (defs : List ArgDef) (ra re : List (String × Bytes)) (fa fe : List (String × List KT))
    (h1 : Rel ra fa) (h2 : Rel re fe) :
    PW (asm defs fa fe) (assemble defs ra re) ∧ HeadSep (assemble defs ra re) := by
  induction defs with
  | nil => exact ⟨by simpa [asm, assemble] using PW_nil, by simpa [assemble] using headSep_nil⟩
  | cons d rest ih =>
    obtain ⟨ih1, ih2⟩ := ih
    rcases lookup_rel h1 d.name with ⟨ha, hb⟩ | ⟨b, ks, ha, hb, hp⟩
    · simp only [asm, assemble, ha, hb]
      exact ⟨ih1, ih2⟩
    · simp only [asm, assemble, ha, hb]
      have hsp : PWc [] [32] := PWc_ws [32] (by decide)
      by_cases ht : ArgType.tag ∈ d.types
      · simp only [ht, decide_true, if_true]
        rcases lookup_rel h2 d.name with ⟨ha', hb'⟩ | ⟨b', ks', ha', hb', hp'⟩
        · simp only [ha', hb']
          exact asm_step hp PW_nil headSep_nil ih1 ih2
        · simp only [ha', hb']
          exact asm_step hp (by simpa using hsp.append_PW hp') (headSep_cons 32 b' (by decide)) ih1 ih2
      · simp only [ht, decide_false, Bool.false_eq_true, if_false]
        exact asm_step hp PW_nil headSep_nil ih1 ih2

/-! ## conditions on the table, hypotheses on the tree -/

/-- a slot that admits a string prints it as a string (so a multi-line block gets its line feed) and is not a tag slot;
    likewise a tag parameter -/
def slotL (a : ArgDef) : Bool :=
  (!Args.validType .string a.types || (!decide (ArgType.tag ∈ a.types) && hasStringType a.types false)) &&
  (match a.extra with
   | none => true
   | some e => !Args.atypeIn .string e || hasStringType e.types e.typeIsStr)

/-- the name is an identifier; only controls and tests take a block -/
def defL (d : CmdDef) : Bool :=
  (Lex.one d.name == some (TokKind.identifier, d.name.length)) &&
  (!d.acceptChildren || d.kind == .control || d.kind == .test) && d.args.all slotL

def TableL (T : Table) : Prop := ∀ d ∈ T, defL d = true
instance (T : Table) : Decidable (TableL T) := by unfold TableL; infer_instance

def NodeOK (TokP : Tok → Prop) (T : Table) (n : Node) : Prop := Typed.NodeT TokP T n ∧ Roles.NodeR T n

def SubOK (TokP : Tok → Prop) (T : Table) : Arg → Prop
  | .test _ n => NodeOK TokP T n
  | .tests _ l => ∀ n ∈ l, NodeOK TokP T n
  | _ => True

def ArgH (TokP : Tok → Prop) (T : Table) (d : CmdDef) (e : Bool) (a : Arg) : Prop :=
  (if e then Typed.ExtraT TokP d a else Typed.ArgT TokP d a) ∧ SubOK TokP T a

structure Ctx (TokP : Tok → Prop) (T : Table) : Prop where
  hL : TableL T
  hP : Printable.TableP T
  hG : ∀ tok, TokP tok → GTok tok

theorem tokArg_genuine {TokP : Tok → Prop} (hG : ∀ tok, TokP tok → GTok tok) (v : Bytes) (t : ArgType)
    (h : Typed.TokArg TokP v t) :
    ∃ k, Genuine (k, v) ∧ k ≠ .hash_comment ∧ (k = .multiline → t = .string) := by
  obtain ⟨tok, htok, hv, hk⟩ := h
  have hg := hG tok htok
  have hnh : tok.kind ≠ .hash_comment := by
    rcases hk with ⟨h1 | h1, _⟩ | ⟨h1, _⟩ | ⟨h1, _⟩ <;> rw [h1] <;> simp
  refine ⟨tok.kind, ?_, hnh, ?_⟩
  · have := hg
    simpa [GTok, kt, hv] using this
  · intro hm
    rcases hk with ⟨_, h2⟩ | ⟨h1, _⟩ | ⟨h1, _⟩
    · exact h2
    · rw [h1] at hm; simp at hm
    · rw [h1] at hm; simp at hm

/-- a scalar value is printed as the token it was read from -/
theorem str_pw {TokP : Tok → Prop} {T : Table} (C : Ctx TokP T) (d : CmdDef) (hd : d ∈ T) (i : Nat) (e : Bool) (k : String)
    (v : Bytes) (x : String × Bytes) (h : ArgH TokP T d e (.str k v)) (hs : renderArg T i d e (.str k v) = some x) :
    x.1 = k ∧ PW [(kindOf v, v)] x.2 := by
  have hdef := C.hP d hd
  have hdl := C.hL d hd
  simp only [defL, Bool.and_eq_true, List.all_eq_true] at hdl
  cases e with
  | false =>
    obtain ⟨a, ha, hak, _, t, htok, hvt⟩ := (show Typed.ArgT TokP d (.str k v) from by simpa [ArgH] using h.1)
    have hslot := (Printable.defP_slot hdef a ha).1
    rw [hak] at hslot
    obtain ⟨kk, hg, hnh, hml⟩ := tokArg_genuine C.hG v t htok
    rw [kindOf_genuine kk v hg]
    have hsl := hdl.2 a ha
    simp only [slotL, Bool.and_eq_true, Bool.or_eq_true, Bool.not_eq_true', decide_eq_false_iff_not, decide_eq_true_eq] at hsl
    have hstr : kk = .multiline → (ArgType.tag ∉ a.types ∧ hasStringType a.types false = true) := by
      intro hm
      have ht := hml hm
      subst ht
      rcases hsl.1 with h0 | h0
      · rw [hvt] at h0; simp at h0
      · exact h0
    simp only [renderArg, hslot, Bool.false_eq_true, if_false] at hs
    split at hs
    · rename_i htag
      simp only [Option.some.injEq] at hs
      subst hs
      refine ⟨rfl, PW_tok kk v hg ?_ hnh⟩
      intro hm
      exact (hstr hm).1 (by simpa using htag)
    · simp only [Option.some.injEq] at hs
      subst hs
      exact ⟨rfl, renderScalar_pw _ kk v hg hnh (fun hm => (hstr hm).2)⟩
  | true =>
    obtain ⟨c, hc, hck, e', hce, _, t, htok, hat⟩ := (show Typed.ExtraT TokP d (.str k v) from by simpa [ArgH] using h.1)
    have hslot := (Printable.defP_slot hdef c hc).1
    rw [hck] at hslot
    obtain ⟨kk, hg, hnh, hml⟩ := tokArg_genuine C.hG v t htok
    rw [kindOf_genuine kk v hg]
    have hsl := hdl.2 c hc
    simp only [slotL, hce, Bool.and_eq_true, Bool.or_eq_true, Bool.not_eq_true'] at hsl
    simp only [renderArg, hslot, if_true, hce] at hs
    simp only [Option.some.injEq] at hs
    subst hs
    refine ⟨rfl, renderScalar_pw _ kk v hg hnh ?_⟩
    intro hm
    have ht := hml hm
    subst ht
    rcases hsl.2 with h0 | h0
    · rw [hat] at h0; simp at h0
    · exact h0

theorem items_genuine {TokP : Tok → Prop} (hG : ∀ tok, TokP tok → GTok tok) (l : List Bytes) (h : TokThread.ItemsP TokP l) :
    ∀ x ∈ l, Genuine (.string, x) := by
  intro x hx
  obtain ⟨tok, htok, hk, ht⟩ := h x hx
  have := hG tok htok
  simpa [GTok, kt, hk, ht] using this

/-- a string list is printed as its items between brackets -/
theorem strs_pw {TokP : Tok → Prop} {T : Table} (C : Ctx TokP T) (d : CmdDef) (i : Nat) (e : Bool) (k : String)
    (items : List Bytes) (x : String × Bytes) (h : ArgH TokP T d e (.strs k items))
    (hs : renderArg T i d e (.strs k items) = some x) :
    x.1 = (flatA T d e (.strs k items)).1 ∧ PW (flatA T d e (.strs k items)).2 x.2 := by
  have hitems : TokThread.ItemsP TokP items := by
    cases e with
    | false => exact (show Typed.ArgT TokP d (.strs k items) from by simpa [ArgH] using h.1).2
    | true => exact (show Typed.ExtraT TokP d (.strs k items) from by simpa [ArgH] using h.1).2
  simp only [renderArg, flatA] at hs ⊢
  split at hs
  · rename_i hslot
    simp only [Option.some.injEq] at hs
    subst hs
    simp only [hslot]
    exact ⟨trivial, PW_nil⟩
  · rename_i slot hslot
    split at hs
    · simp at hs
    · simp only [Option.some.injEq] at hs
      subst hs
      simp only [hslot]
      exact ⟨trivial, (renderList_pw items (items_genuine C.hG items hitems)).toPW⟩

/-! ## the tree -/

theorem spaces_ws (n : Nat) : ∀ c ∈ spaces n, B.isWs c = true := by
  intro c hc
  simp only [spaces, List.mem_replicate] at hc
  rw [hc.2]; decide

mutual
theorem node_pw {TokP : Tok → Prop} {T : Table} (C : Ctx TokP T) : ∀ (n : Node) (i : Nat) (out : Bytes),
    NodeOK TokP T n → Ser.node T i n = some out → PW (flatN T n) out ∧ (Roles.isCmd T n → PWc (flatN T n) out)
  | .mk name args extra children comments, i, out, hn, hs => by
    obtain ⟨ht, hr⟩ := hn
    cases ht with
    | mk _ _ _ _ _ d hnamed hname hargs hextra hkids htest htests =>
    cases hr with
    | mk _ _ _ _ _ d' hd' hkidsK hkidsR hblock hsib hargsK hargsR harglK harglR =>
    have hd : d ∈ T := Typed.named_mem hnamed
    have hbn : T.byName name = some d := by rw [← hname]; exact Printable.defP_byName (C.hP d hd)
    have hdd : d' = d := by rw [hbn] at hd'; exact (Option.some.inj hd').symm
    subst hdd
    have hdl := C.hL d' hd
    simp only [defL, Bool.and_eq_true, beq_iff_eq, Bool.or_eq_true, Bool.not_eq_true'] at hdl
    have hsub : ∀ a ∈ args ++ extra, SubOK TokP T a := by
      intro a ha
      cases a with
      | str k v => trivial
      | strs k l => trivial
      | test k n => exact ⟨htest k n ha, hargsR k n ha⟩
      | tests k l => exact fun n hn => ⟨htests k l ha n hn, harglR k l ha n hn⟩
    have hA : ∀ a ∈ args, ArgH TokP T d' false a := fun a ha =>
      ⟨by simpa using hargs a ha, hsub a (List.mem_append_left _ ha)⟩
    have hE : ∀ a ∈ extra, ArgH TokP T d' true a := fun a ha =>
      ⟨by simpa using hextra a ha, hsub a (List.mem_append_right _ ha)⟩
    simp only [Ser.node, hbn] at hs
    simp only [flatN, hbn]
    cases hra : renderArgs T i d' false args with
    | none => rw [hra] at hs; simp at hs
    | some ra =>
      cases hre : renderArgs T i d' true extra with
      | none => rw [hra, hre] at hs; simp at hs
      | some re =>
        rw [hra, hre] at hs
        simp only at hs
        have r1 := args_pw C d' hd args i false ra hA hra
        have r2 := args_pw C d' hd extra i true re hE hre
        obtain ⟨hasm, hash⟩ := assemble_pw d'.args ra re _ _ r1 r2
        have hname_tok : PW [(TokKind.identifier, name)] name := by
          refine PW_tok .identifier name ?_ (by simp) (by simp)
          show one name = some (TokKind.identifier, name.length)
          rw [← hname]; exact hdl.1.1
        have hhead : PW ((TokKind.identifier, name) :: asm d'.args (flatAs T d' false args) (flatAs T d' true extra))
            (spaces i ++ name ++ assemble d'.args ra re) := by
          have := (PWc_ws (spaces i) (spaces_ws i)).append_PW (hname_tok.append hasm hash)
          simpa [List.append_assoc] using this
        have hsemi : PWc [(TokKind.semicolon, [59])] [59, 10] :=
          (PWc_punct 59 .semicolon (by decide) (by decide)).append (PWc_ws [10] (by decide))
        split at hs
        · -- no block
          rename_i hac
          simp only [hac, if_true]
          split at hs
          · rename_i hk
            simp only [Option.some.injEq] at hs
            subst hs
            simp only [hk, if_true]
            have := hhead.append_c hsemi (headSep_cons 59 [10] (by decide)) (by simp)
            exact ⟨this.toPW, fun _ => this⟩
          · rename_i hk
            simp only [Option.some.injEq] at hs
            subst hs
            simp only [hk]
            refine ⟨hhead, ?_⟩
            intro ⟨d2, hd2, hk2⟩
            have hd2 : T.byName name = some d2 := hd2
            rw [hbn] at hd2
            have : d2 = d' := (Option.some.inj hd2).symm
            subst this
            exact absurd (by simpa using hk) hk2
        · rename_i hac
          simp only [hac]
          split at hs
          · rename_i hk
            simp only [Option.some.injEq] at hs
            subst hs
            simp only [hk, if_true]
            refine ⟨hhead, ?_⟩
            intro ⟨d2, hd2, hk2⟩
            have hd2 : T.byName name = some d2 := hd2
            rw [hbn] at hd2
            have : d2 = d' := (Option.some.inj hd2).symm
            subst this
            have hac' : d2.acceptChildren = true := by simpa using hac
            rcases hdl.1.2 with (h0 | h0) | h0
            · rw [hac'] at h0; simp at h0
            · exact absurd h0 (by simpa using hk)
            · exact absurd h0 hk2
          · rename_i hk
            cases hb : nodes T (i + 4) children with
            | none => rw [hb] at hs; simp at hs
            | some body =>
              rw [hb] at hs
              simp only [Option.some.injEq] at hs
              subst hs
              simp only [hk]
              have hbody := nodes_pw C children (i + 4) body (fun n hn => ⟨⟨hkids n hn, hkidsR n hn⟩, hkidsK n hn⟩) hb
              have hopen : PWc [(TokKind.left_cbracket, [123])] [32, 123, 10] := by
                have := (PWc_ws [32] (by decide)).append ((PWc_punct 123 .left_cbracket (by decide) (by decide)).append (PWc_ws [10] (by decide)))
                simpa using this
              have hclose : PWc [(TokKind.right_cbracket, [125])] (spaces i ++ [125, 10]) := by
                have := (PWc_ws (spaces i) (spaces_ws i)).append ((PWc_punct 125 .right_cbracket (by decide) (by decide)).append (PWc_ws [10] (by decide)))
                simpa using this
              have h1 := hhead.append_c hopen (headSep_cons 32 _ (by decide)) (by simp)
              have h2 := (h1.append hbody).append hclose
              have h3 : PWc ((TokKind.identifier, name) :: asm d'.args (flatAs T d' false args) (flatAs T d' true extra) ++
                  [(TokKind.left_cbracket, [123])] ++ flatNs T children ++ [(TokKind.right_cbracket, [125])])
                  (spaces i ++ name ++ assemble d'.args ra re ++ [32, 123, 10] ++ body ++ spaces i ++ [125, 10]) := by
                simpa [List.append_assoc] using h2
              exact ⟨h3.toPW, fun _ => h3⟩

theorem nodes_pw {TokP : Tok → Prop} {T : Table} (C : Ctx TokP T) : ∀ (l : List Node) (i : Nat) (out : Bytes),
    (∀ n ∈ l, NodeOK TokP T n ∧ Roles.isCmd T n) → Ser.nodes T i l = some out → PWc (flatNs T l) out
  | [], i, out, _, hs => by
    simp only [Ser.nodes, Option.some.injEq] at hs
    subst hs
    simpa [flatNs] using PWc_nil
  | n :: rest, i, out, h, hs => by
    simp only [Ser.nodes] at hs
    cases ha : Ser.node T i n with
    | none => rw [ha] at hs; simp at hs
    | some a =>
      cases hb : Ser.nodes T i rest with
      | none => rw [ha, hb] at hs; simp at hs
      | some b =>
        rw [ha, hb] at hs
        simp only [Option.some.injEq] at hs
        subst hs
        have h1 := (node_pw C n i a (h n (by simp)).1 ha).2 (h n (by simp)).2
        have h2 := nodes_pw C rest i b (fun m hm => h m (by simp [hm])) hb
        simpa [flatNs] using h1.append h2

theorem tests_pw {TokP : Tok → Prop} {T : Table} (C : Ctx TokP T) : ∀ (l : List Node) (out : Bytes),
    (∀ n ∈ l, NodeOK TokP T n) → Ser.testsOut T l = some out → PW (flatTs T l) out
  | [], out, _, hs => by
    simp only [Ser.testsOut, Option.some.injEq] at hs
    subst hs
    simpa [flatTs] using PW_nil
  | [n], out, h, hs => by
    simp only [Ser.testsOut] at hs
    simpa [flatTs] using (node_pw C n 0 out (h n (by simp)) hs).1
  | n :: m :: rest, out, h, hs => by
    simp only [Ser.testsOut] at hs
    cases ha : Ser.node T 0 n with
    | none => rw [ha] at hs; simp at hs
    | some a =>
      cases hb : Ser.testsOut T (m :: rest) with
      | none => rw [ha, hb] at hs; simp at hs
      | some b =>
        rw [ha, hb] at hs
        simp only [Option.some.injEq] at hs
        subst hs
        have h1 := (node_pw C n 0 a (h n (by simp)) ha).1
        have h2 := tests_pw C (m :: rest) b (fun x hx => h x (by simp at hx ⊢; exact Or.inr hx)) hb
        have hcomma : PWc [(TokKind.comma, [44])] [44, 32] :=
          (PWc_punct 44 .comma (by decide) (by decide)).append (PWc_ws [32] (by decide))
        have := (h1.append_c hcomma (headSep_cons 44 [32] (by decide)) (by simp)).append_PW h2
        simpa [flatTs, List.append_assoc] using this

theorem arg_pw {TokP : Tok → Prop} {T : Table} (C : Ctx TokP T) (d : CmdDef) (hd : d ∈ T) : ∀ (a : Arg) (i : Nat) (e : Bool)
    (x : String × Bytes), ArgH TokP T d e a → renderArg T i d e a = some x →
    x.1 = (flatA T d e a).1 ∧ PW (flatA T d e a).2 x.2
  | .str k v, i, e, x, h, hs => by
    simpa [flatA] using str_pw C d hd i e k v x h hs
  | .strs k items, i, e, x, h, hs => strs_pw C d i e k items x h hs
  | .test k n, i, e, x, h, hs => by
    simp only [renderArg] at hs
    cases hb : Ser.node T i n with
    | none => rw [hb] at hs; simp at hs
    | some b =>
      rw [hb] at hs
      simp only [Option.some.injEq] at hs
      subst hs
      exact ⟨rfl, (node_pw C n i b h.2 hb).1⟩
  | .tests k l, i, e, x, h, hs => by
    simp only [renderArg, flatA] at hs ⊢
    split at hs
    · rename_i hslot
      simp only [Option.some.injEq] at hs
      subst hs
      simp only [hslot]
      exact ⟨trivial, PW_nil⟩
    · rename_i slot hslot
      split at hs
      · cases hb : Ser.testsOut T l with
        | none => rw [hb] at hs; simp at hs
        | some b =>
          rw [hb] at hs
          simp only [Option.some.injEq] at hs
          subst hs
          simp only [hslot]
          have h1 := tests_pw C l b h.2 hb
          have hl : PWc [(TokKind.left_parenthesis, [40])] [40] := PWc_punct 40 .left_parenthesis (by decide) (by decide)
          have hr : PWc [(TokKind.right_parenthesis, [41])] [41] := PWc_punct 41 .right_parenthesis (by decide) (by decide)
          have := hl.append (h1.append_c hr (headSep_cons 41 [] (by decide)) (by simp))
          exact ⟨trivial, by simpa [List.append_assoc] using this.toPW⟩
      · simp at hs

theorem args_pw {TokP : Tok → Prop} {T : Table} (C : Ctx TokP T) (d : CmdDef) (hd : d ∈ T) : ∀ (l : List Arg) (i : Nat) (e : Bool)
    (ra : List (String × Bytes)), (∀ a ∈ l, ArgH TokP T d e a) → renderArgs T i d e l = some ra → Rel ra (flatAs T d e l)
  | [], i, e, ra, _, hs => by
    simp only [renderArgs, Option.some.injEq] at hs
    subst hs
    exact Rel.nil
  | a :: rest, i, e, ra, h, hs => by
    simp only [renderArgs] at hs
    cases hx : renderArg T i d e a with
    | none => rw [hx] at hs; simp at hs
    | some x =>
      cases hxs : renderArgs T i d e rest with
      | none => rw [hx, hxs] at hs; simp at hs
      | some xs =>
        rw [hx, hxs] at hs
        simp only [Option.some.injEq] at hs
        subst hs
        obtain ⟨h1, h2⟩ := arg_pw C d hd a i e x (h a (by simp)) hx
        exact Rel.cons h1 h2 (args_pw C d hd rest i e xs (fun b hb => h b (by simp [hb])) hxs)
end

/-! ## recorded values are among the tokens -/

theorem lookupK_flatAs (T : Table) (d : CmdDef) (e : Bool) : ∀ (l : List Arg) (k : String) (a : Arg),
    assocGet l k = some a → lookupK (flatAs T d e l) k = some (flatA T d e a).2 ∧ (flatA T d e a).1 = k
  | [], k, a, h => by simp [assocGet] at h
  | b :: rest, k, a, h => by
    have hkey : ∀ x : Arg, (flatA T d e x).1 = x.key := by
      intro x
      cases x with
      | str k v => rfl
      | strs k l => simp only [flatA, Arg.key]; split <;> rfl
      | test k n => rfl
      | tests k l => simp only [flatA, Arg.key]; split <;> rfl
    simp only [assocGet, List.find?] at h
    by_cases hb : (b.key == k) = true
    · simp only [hb] at h
      injection h with h
      subst h
      refine ⟨?_, by rw [hkey]; simpa using hb⟩
      simp [flatAs, lookupK, List.find?, hkey, hb]
    · have hb' : (b.key == k) = false := by simpa using hb
      simp only [hb'] at h
      have ih := lookupK_flatAs T d e rest k a (by simpa [assocGet] using h)
      refine ⟨?_, ih.2⟩
      simpa [flatAs, lookupK, List.find?, hkey, hb'] using ih.1

theorem asm_mem (defs : List ArgDef) (fa fe : List (String × List KT)) (a : ArgDef) (ha : a ∈ defs) (ks : List KT)
    (hl : lookupK fa a.name = some ks) : ∀ x ∈ ks, x ∈ asm defs fa fe := by
  induction defs with
  | nil => simp at ha
  | cons d rest ih =>
    intro x hx
    simp only [List.mem_cons] at ha
    rcases ha with rfl | ha
    · simp only [asm, hl]
      simp [hx]
    · have := ih ha x hx
      simp only [asm]
      split
      · exact this
      · simp [this]

/-- a scalar value recorded under a slot of the node's definition is one of the node's tokens, with the kind it is read as -/
theorem recorded_value_in_flatN (T : Table) (name : Bytes) (args extra : List Arg) (children : List Node) (comments : List Bytes)
    (d : CmdDef) (hd : T.byName name = some d) (k : String) (v : Bytes) (h : assocGet args k = some (.str k v))
    (a : ArgDef) (ha : a ∈ d.args) (hak : a.name = k) :
    (kindOf v, v) ∈ flatN T (.mk name args extra children comments) := by
  obtain ⟨h1, _⟩ := lookupK_flatAs T d false args k _ h
  have hm := asm_mem d.args (flatAs T d false args) (flatAs T d true extra) a ha _ (by rw [hak]; exact h1) (kindOf v, v) (by simp [flatA])
  simp only [flatN, hd]
  split
  · split <;> simp [hm]
  · split <;> simp [hm]

theorem flatN_sub_flatNs (T : Table) (l : List Node) (n : Node) (hn : n ∈ l) : ∀ x ∈ flatN T n, x ∈ flatNs T l := by
  induction l with
  | nil => simp at hn
  | cons m rest ih =>
    intro x hx
    simp only [List.mem_cons] at hn
    simp only [flatNs, List.mem_append]
    rcases hn with rfl | hn
    · exact Or.inl hx
    · exact Or.inr (ih hn x hx)

theorem mem_commaK (l : List KT) (x : KT) (h : x ∈ l) : x ∈ commaK l := by
  induction l with
  | nil => simp at h
  | cons a rest ih =>
    cases rest with
    | nil => simpa [commaK] using h
    | cons b r =>
      simp only [List.mem_cons] at h
      simp only [commaK, List.mem_cons]
      rcases h with rfl | h
      · exact Or.inl rfl
      · exact Or.inr (Or.inr (ih (by simpa using h)))

/-- every item of a string list recorded under a slot of the node's definition is one of the node's tokens -/
theorem recorded_item_in_flatN (T : Table) (name : Bytes) (args extra : List Arg) (children : List Node) (comments : List Bytes)
    (d : CmdDef) (hd : T.byName name = some d) (k : String) (items : List Bytes) (h : assocGet args k = some (.strs k items))
    (a : ArgDef) (ha : a ∈ d.args) (hslot : slotOf d k = some a) (x : Bytes) (hx : x ∈ items) :
    (TokKind.string, renderItem x) ∈ flatN T (.mk name args extra children comments) := by
  obtain ⟨h1, h2⟩ := lookupK_flatAs T d false args k _ h
  have hak : a.name = k := by
    have := List.find?_some hslot
    simpa using this
  have hin : (TokKind.string, renderItem x) ∈ (flatA T d false (.strs k items)).2 := by
    simp only [flatA, hslot, flatList]
    have hc := mem_commaK (items.map (fun v => ((TokKind.string, renderItem v) : KT))) (TokKind.string, renderItem x) (List.mem_map.mpr ⟨x, hx, rfl⟩)
    simp [hc]
  have hm := asm_mem d.args (flatAs T d false args) (flatAs T d true extra) a ha _ (by rw [hak]; exact h1) _ hin
  simp only [flatN, hd]
  split
  · split <;> simp [hm]
  · split <;> simp [hm]

end Reprint
