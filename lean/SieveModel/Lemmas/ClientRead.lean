import SieveModel.Lemmas.Reader
import SieveModel.Model.Client
/-! Lifting T-READ to the client operations: the result of every operation, the bytes it writes and
    the state it leaves depend only on the pending bytes, not on their segmentation. -/
namespace Client
open Reader

/-- client states that differ only in buffer/stream split and recv schedule -/
def SameC (a b : Client) : Prop :=
  Same a.r b.r ∧ a.connected = b.connected ∧ a.authenticated = b.authenticated ∧ a.caps = b.caps ∧
    a.tls = b.tls ∧ a.writes = b.writes

def RelC {α : Type} (x y : Res α) : Prop := x.1 = y.1 ∧ SameC x.2 y.2

theorem release_same (a b : RState) (h : Same a b) :
    Same { a with net := a.net.release } { b with net := b.net.release } := by
  obtain ⟨hp, hc, hm, hl⟩ := h
  unfold Net.release
  rw [hl]
  cases hlat : b.net.later with
  | nil => simp only; exact ⟨hp, hc, hm, by rw [hl, hlat]⟩
  | cons seg rest =>
    simp only
    refine ⟨?_, hc, hm, rfl⟩
    simp only [pending] at hp ⊢
    rw [← List.append_assoc, ← List.append_assoc, hp]

theorem write_congr (a b : Client) (h : SameC a b) (x : Bytes) : SameC (write a x) (write b x) := by
  obtain ⟨hr, h1, h2, h3, h4, h5⟩ := h
  unfold write
  exact ⟨release_same a.r b.r hr, h1, h2, h3, h4, by simp only; rw [h4, h5]⟩

theorem foldl_write_congr (ls : List Bytes) (a b : Client) (h : SameC a b) :
    SameC (ls.foldl (fun acc l => write acc (l ++ CRLF)) a) (ls.foldl (fun acc l => write acc (l ++ CRLF)) b) := by
  induction ls generalizing a b with
  | nil => exact h
  | cons l rest ih => exact ih _ _ (write_congr a b h _)

theorem awaitReply_congr (a b : Client) (h : SameC a b) (nbl : Option Nat) :
    RelC (awaitReply a nbl) (awaitReply b nbl) := by
  unfold awaitReply
  have hr := readResponse_congr nbl _ _ h.1
  revert hr
  cases readResponse nbl a.r with
  | error e1 =>
    cases readResponse nbl b.r with
    | error e2 => intro hr; exact ⟨by simp only; rw [show e1 = e2 from hr], h⟩
    | ok _ => intro hr; exact hr.elim
  | ok p1 =>
    cases readResponse nbl b.r with
    | error _ => intro hr; exact hr.elim
    | ok p2 =>
      obtain ⟨r1, s1⟩ := p1
      obtain ⟨r2, s2⟩ := p2
      intro hr
      obtain ⟨hrr, hs⟩ := hr
      subst hrr
      obtain ⟨_, g1, g2, g3, g4, g5⟩ := h
      exact ⟨rfl, hs, g1, g2, g3, g4, g5⟩

/-- one command / one reply: same pending bytes ⇒ same reply, same bytes written, same state -/
theorem sendCommand_congr (a b : Client) (h : SameC a b) (name : Bytes) (args : List WArg)
    (extra : List Bytes) (nbl : Option Nat) :
    RelC (sendCommand a name args extra nbl) (sendCommand b name args extra nbl) := by
  unfold sendCommand
  rw [h.2.1]
  split
  · exact ⟨rfl, h⟩
  · exact awaitReply_congr _ _ (foldl_write_congr extra _ _ (write_congr a b h (commandBytes name args))) nbl


theorem okOf_congr (x y : Res Reply) (h : RelC x y) : RelC (okOf x) (okOf y) := by
  obtain ⟨xv, xc⟩ := x
  obtain ⟨yv, yc⟩ := y
  obtain ⟨hv, hs⟩ := h
  simp only at hv hs
  subst hv
  unfold okOf
  cases xv with
  | error e => exact ⟨rfl, hs⟩
  | ok rep => exact ⟨rfl, hs⟩

theorem guarded_congr {α : Type} (a b : Client) (h : SameC a b) (f g : Client → Res α)
    (hf : RelC (f a) (g b)) : RelC (guarded a f) (guarded b g) := by
  unfold guarded
  rw [h.2.2.1]
  split
  · exact hf
  · exact ⟨rfl, h⟩

/-- C05 for the one-command operations -/
theorem havespace_congr (a b : Client) (h : SameC a b) (name : Bytes) (size : Nat) :
    RelC (havespace a name size) (havespace b name size) :=
  guarded_congr a b h _ _ (okOf_congr _ _ (sendCommand_congr a b h _ _ _ _))

theorem putscript_congr (a b : Client) (h : SameC a b) (name content : Bytes) :
    RelC (putscript a name content) (putscript b name content) :=
  guarded_congr a b h _ _ (okOf_congr _ _ (sendCommand_congr a b h _ _ _ _))

theorem deletescript_congr (a b : Client) (h : SameC a b) (name : Bytes) :
    RelC (deletescript a name) (deletescript b name) :=
  guarded_congr a b h _ _ (okOf_congr _ _ (sendCommand_congr a b h _ _ _ _))

theorem setactive_congr (a b : Client) (h : SameC a b) (name : Bytes) :
    RelC (setactive a name) (setactive b name) :=
  guarded_congr a b h _ _ (okOf_congr _ _ (sendCommand_congr a b h _ _ _ _))

theorem checkscript_congr (a b : Client) (h : SameC a b) (content : Bytes) :
    RelC (checkscript a content) (checkscript b content) := by
  refine guarded_congr a b h _ _ ?_
  have hcap : capHas a (sb "VERSION") = capHas b (sb "VERSION") := by simp only [capHas, h.2.2.2.1]
  simp only [hcap]
  split
  · exact ⟨rfl, h⟩
  · exact okOf_congr _ _ (sendCommand_congr a b h _ _ _ _)

theorem listscripts_congr (a b : Client) (h : SameC a b) : RelC (listscripts a) (listscripts b) := by
  refine guarded_congr a b h _ _ ?_
  have hs := sendCommand_congr a b h (sb "LISTSCRIPTS") [] [] none
  revert hs
  generalize sendCommand a (sb "LISTSCRIPTS") [] [] none = x
  generalize sendCommand b (sb "LISTSCRIPTS") [] [] none = y
  intro hs
  obtain ⟨xv, xc⟩ := x
  obtain ⟨yv, yc⟩ := y
  obtain ⟨hv, hc⟩ := hs
  simp only at hv hc
  subst hv
  cases xv with
  | error e => exact ⟨rfl, hc⟩
  | ok rep =>
    simp only
    split
    · exact ⟨rfl, hc⟩
    · split <;> exact ⟨rfl, hc⟩

theorem getscript_congr (a b : Client) (h : SameC a b) (name : Bytes) :
    RelC (getscript a name) (getscript b name) := by
  refine guarded_congr a b h _ _ ?_
  have hs := sendCommand_congr a b h (sb "GETSCRIPT") [.str name] [] none
  revert hs
  generalize sendCommand a (sb "GETSCRIPT") [.str name] [] none = x
  generalize sendCommand b (sb "GETSCRIPT") [.str name] [] none = y
  intro hs
  obtain ⟨xv, xc⟩ := x
  obtain ⟨yv, yc⟩ := y
  obtain ⟨hv, hc⟩ := hs
  simp only at hv hc
  subst hv
  cases xv with
  | error e => exact ⟨rfl, hc⟩
  | ok rep =>
    simp only
    split
    · split <;> exact ⟨rfl, hc⟩
    · exact ⟨rfl, hc⟩


theorem setErrmsg_congr (a b : Client) (h : SameC a b) (m : Bytes) : SameC (setErrmsg a m) (setErrmsg b m) := by
  obtain ⟨⟨hp, hc, _, hl⟩, g⟩ := h
  exact ⟨⟨hp, hc, rfl, hl⟩, g⟩

/-- C05 for the emulated (multi-command) rename -/
theorem renamescript_congr (a b : Client) (h : SameC a b) (old new : Bytes) :
    RelC (renamescript a old new) (renamescript b old new) := by
  refine guarded_congr a b h _ _ ?_
  have hcap : capHas a (sb "VERSION") = capHas b (sb "VERSION") := by simp only [capHas, h.2.2.2.1]
  simp only [hcap]
  split
  · exact okOf_congr _ _ (sendCommand_congr a b h _ _ _ _)
  · unfold emulatedRename
    have h1 := listscripts_congr a b h
    revert h1
    generalize listscripts a = x1
    generalize listscripts b = y1
    intro h1
    obtain ⟨v1, c1⟩ := x1
    obtain ⟨w1, d1⟩ := y1
    obtain ⟨hv, hc1⟩ := h1
    simp only at hv hc1
    subst hv
    cases v1 with
    | error e => exact ⟨rfl, hc1⟩
    | ok lst =>
      cases lst with
      | none => exact ⟨rfl, hc1⟩
      | some p =>
        obtain ⟨active, scripts⟩ := p
        simp only
        split
        · exact ⟨rfl, setErrmsg_congr _ _ hc1 _⟩
        · split
          · exact ⟨rfl, setErrmsg_congr _ _ hc1 _⟩
          · have h2 := getscript_congr c1 d1 hc1 old
            revert h2
            generalize getscript c1 old = x2
            generalize getscript d1 old = y2
            intro h2
            obtain ⟨v2, c2⟩ := x2
            obtain ⟨w2, d2⟩ := y2
            obtain ⟨hv2, hc2⟩ := h2
            simp only at hv2 hc2
            subst hv2
            cases v2 with
            | error e => exact ⟨rfl, hc2⟩
            | ok ob =>
              cases ob with
              | none => exact ⟨rfl, hc2⟩
              | some body =>
                simp only
                have h3 := putscript_congr c2 d2 hc2 new body
                revert h3
                generalize putscript c2 new body = x3
                generalize putscript d2 new body = y3
                intro h3
                obtain ⟨v3, c3⟩ := x3
                obtain ⟨w3, d3⟩ := y3
                obtain ⟨hv3, hc3⟩ := h3
                simp only at hv3 hc3
                subst hv3
                cases v3 with
                | error e => exact ⟨rfl, hc3⟩
                | ok okb =>
                  cases okb with
                  | false => exact ⟨rfl, hc3⟩
                  | true =>
                    simp only [activateIfNeeded]
                    by_cases hact : active == some old
                    · simp only [hact, if_true]
                      have h4 := setactive_congr c3 d3 hc3 new
                      revert h4
                      generalize setactive c3 new = x4
                      generalize setactive d3 new = y4
                      intro h4
                      obtain ⟨v4, c4⟩ := x4
                      obtain ⟨w4, d4⟩ := y4
                      obtain ⟨hv4, hc4⟩ := h4
                      simp only at hv4 hc4
                      subst hv4
                      cases v4 with
                      | error e => exact ⟨rfl, hc4⟩
                      | ok ab =>
                        cases ab with
                        | false => exact ⟨rfl, hc4⟩
                        | true => exact deletescript_congr c4 d4 hc4 old
                    · simp only [hact, Bool.false_eq_true, if_false]
                      exact deletescript_congr c3 d3 hc3 old

/-! ## the remaining operations: CAPABILITY, LOGOUT, the greeting, SASL, `connect` without STARTTLS -/

/-- a two-branch continuation applied to related results gives related results -/
theorem bind_congr {α β : Type} (x y : Res α) (h : RelC x y) (k : Except RErr α → Client → Res β)
    (hk : ∀ v c d, SameC c d → RelC (k v c) (k v d)) : RelC (k x.1 x.2) (k y.1 y.2) := by
  obtain ⟨hv, hc⟩ := h
  rw [hv]
  exact hk _ _ _ hc

theorem capability_congr (a b : Client) (h : SameC a b) : RelC (capability a) (capability b) := by
  have hs := sendCommand_congr a b h (sb "CAPABILITY") [] [] none
  unfold capability
  revert hs
  generalize sendCommand a (sb "CAPABILITY") [] [] none = x
  generalize sendCommand b (sb "CAPABILITY") [] [] none = y
  intro hs
  obtain ⟨xv, xc⟩ := x
  obtain ⟨yv, yc⟩ := y
  obtain ⟨hv, hc⟩ := hs
  simp only at hv hc
  subst hv
  cases xv with
  | error e => exact ⟨rfl, hc⟩
  | ok rep => exact ⟨rfl, hc⟩

theorem logout_congr (a b : Client) (h : SameC a b) : RelC (logout a) (logout b) := by
  have hs := sendCommand_congr a b h (sb "LOGOUT") [] [] none
  unfold logout
  revert hs
  generalize sendCommand a (sb "LOGOUT") [] [] none = x
  generalize sendCommand b (sb "LOGOUT") [] [] none = y
  intro hs
  obtain ⟨xv, xc⟩ := x
  obtain ⟨yv, yc⟩ := y
  obtain ⟨hv, hc⟩ := hs
  simp only at hv hc
  subst hv
  cases xv with
  | error e => exact ⟨rfl, hc⟩
  | ok rep => exact ⟨rfl, hc⟩

/-- reading a capability block (greeting, or the block after a handshake) -/
theorem getCapabilities_congr (a b : Client) (h : SameC a b) : RelC (getCapabilities a) (getCapabilities b) := by
  unfold getCapabilities
  have hr := readResponse_congr none _ _ h.1
  revert hr
  cases readResponse none a.r with
  | error e1 =>
    cases readResponse none b.r with
    | error e2 => intro hr; exact ⟨by simp only; rw [show e1 = e2 from hr], h⟩
    | ok _ => intro hr; exact hr.elim
  | ok p1 =>
    cases readResponse none b.r with
    | error _ => intro hr; exact hr.elim
    | ok p2 =>
      obtain ⟨r1, s1⟩ := p1
      obtain ⟨r2, s2⟩ := p2
      intro hr
      obtain ⟨hrr, hs⟩ := hr
      subst hrr
      obtain ⟨_, g1, g2, g3, g4, g5⟩ := h
      simp only [g3]
      split
      · exact ⟨rfl, hs, g1, g2, rfl, g4, g5⟩
      · split
        · exact ⟨rfl, hs, g1, g2, rfl, g4, g5⟩
        · exact ⟨rfl, hs, g1, g2, rfl, g4, g5⟩

theorem authWith_congr (a b : Client) (h : SameC a b) (mech login password authz : Bytes) :
    RelC (authWith a mech login password authz) (authWith b mech login password authz) := by
  unfold authWith
  split
  · exact okOf_congr _ _ (sendCommand_congr a b h _ _ _ _)
  · split
    · exact okOf_congr _ _ (sendCommand_congr a b h _ _ _ _)
    · split
      · exact okOf_congr _ _ (sendCommand_congr a b h _ _ _ _)
      · have hs := sendCommand_congr a b h (sb "AUTHENTICATE") [.str (sb "DIGEST-MD5")] [] (some 1)
        revert hs
        generalize sendCommand a (sb "AUTHENTICATE") [.str (sb "DIGEST-MD5")] [] (some 1) = x
        generalize sendCommand b (sb "AUTHENTICATE") [.str (sb "DIGEST-MD5")] [] (some 1) = y
        intro hs
        obtain ⟨xv, xc⟩ := x
        obtain ⟨yv, yc⟩ := y
        obtain ⟨hv, hc⟩ := hs
        simp only at hv hc
        subst hv
        cases xv with
        | error e => exact ⟨rfl, hc⟩
        | ok rep => exact ⟨rfl, hc⟩

theorem finishAuth_congr (a b : Client) (h : SameC a b) (sel : Option Bytes) (login password authz : Bytes) :
    RelC (finishAuth a sel login password authz) (finishAuth b sel login password authz) := by
  unfold finishAuth
  cases sel with
  | none => exact ⟨rfl, setErrmsg_congr a b h _⟩
  | some m =>
    simp only
    have hs := authWith_congr a b h m login password authz
    revert hs
    generalize authWith a m login password authz = x
    generalize authWith b m login password authz = y
    intro hs
    obtain ⟨xv, xc⟩ := x
    obtain ⟨yv, yc⟩ := y
    obtain ⟨hv, hc⟩ := hs
    simp only at hv hc
    subst hv
    cases xv with
    | error e => exact ⟨rfl, hc⟩
    | ok okb =>
      cases okb with
      | false => exact ⟨rfl, hc⟩
      | true =>
        obtain ⟨g0, g1, _, g3, g4, g5⟩ := hc
        exact ⟨rfl, g0, g1, rfl, g3, g4, g5⟩

theorem authenticate_congr (a b : Client) (h : SameC a b) (login password authz : Bytes) (authmech : Option Bytes) :
    RelC (authenticate a login password authz authmech) (authenticate b login password authz authmech) := by
  unfold authenticate
  have hcap : capGet a (sb "SASL") = capGet b (sb "SASL") := by simp only [capGet, h.2.2.2.1]
  rw [hcap]
  cases capGet b (sb "SASL") with
  | none => exact ⟨rfl, h⟩
  | some v => exact finishAuth_congr a b h _ _ _ _

/-- two deliveries of the same server bytes to a fresh connection -/
theorem freshConn_same (c : Client) (n1 n2 : Net) (hs : n1.stream = n2.stream) (hl : n1.later = n2.later) :
    SameC (freshConn c n1) (freshConn c n2) := by
  refine ⟨⟨?_, rfl, rfl, hl⟩, rfl, rfl, rfl, rfl, rfl⟩
  simp only [freshConn, pending, hs]

/-- **C05 for `connect` without STARTTLS**: the greeting, the mechanism choice, the AUTHENTICATE
    exchange (all its steps) and the final state do not depend on how the server's bytes are cut into
    recv results.  (With STARTTLS the statement is deliberately false: bytes that reached the buffer before
    the handshake are discarded, bytes still in the socket are not — see C10.) -/
theorem connect_plain_congr (c : Client) (env : ConnEnv) (n1 n2 : Net) (hs : n1.stream = n2.stream)
    (hl : n1.later = n2.later) (login password authz : Bytes) (authmech : Option Bytes) :
    RelC (connect c env n1 login password authz false authmech) (connect c env n2 login password authz false authmech) := by
  unfold connect
  split
  · exact ⟨rfl, ⟨rfl, rfl, rfl, rfl⟩, rfl, rfl, rfl, rfl, rfl⟩
  · have hg := getCapabilities_congr _ _ (freshConn_same c n1 n2 hs hl)
    revert hg
    generalize getCapabilities (freshConn c n1) = x
    generalize getCapabilities (freshConn c n2) = y
    intro hg
    obtain ⟨xv, xc⟩ := x
    obtain ⟨yv, yc⟩ := y
    obtain ⟨hv, hc⟩ := hg
    simp only at hv hc
    subst hv
    cases xv with
    | error e => exact ⟨rfl, hc⟩
    | ok okb =>
      cases okb with
      | false => exact ⟨rfl, hc⟩
      | true =>
        simp only [maybeTls, Bool.false_eq_true, if_false]
        exact authenticate_congr xc yc hc _ _ _ _

end Client
