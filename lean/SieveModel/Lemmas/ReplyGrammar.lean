import SieveModel.Lemmas.ReplyLine
import SieveModel.Lemmas.Codec
/-!
# Lemmas for the reply grammar (T-REPLY, second part)

Pieces the two grammar-wide theorems of `Props/C09.lean` are assembled from: a `NO` line whose text is decoded by
`__parse_error` (possibly reading a literal), where a size indication is recognised (`trailingSize`: only at the very
end of an `OK` line), an `OK` line followed by a literal.
-/
namespace ReplyGrammar
open Reader Client ReplyDecode ReplyLine

theorem no_reply_general (nbl : Option Nat) (st : RState) (c : UInt8) (t after : Bytes)
    (hp : pending st = 78 :: 79 :: 32 :: (c :: t) ++ 13 :: 10 :: after) (hws : B.isWs c = false) (hlf : NoLF (c :: t)) :
    ∃ st1, pending st1 = after ∧
      ∀ st2, parseError (some (c :: t)) st1 = .ok st2 →
        readResponse nbl st = .ok (⟨some .NO, some (c :: t), []⟩, st2) := by
  have hl : splitCRLF (78 :: 79 :: 32 :: c :: t) = none := by
    apply splitCRLF_none_of_noLF
    intro x hx
    simp only [List.mem_cons] at hx
    rcases hx with rfl | rfl | rfl | hx
    · decide
    · decide
    · decide
    · exact hlf x (by simpa using hx)
  obtain ⟨st1, h2, _, _, hok, _⟩ := readLine_no st (78 :: 79 :: 32 :: c :: t) after (some (c :: t)) hp hl (by simp) rfl
    (respMatch_no (c :: t) c t rfl hws hlf)
  exact ⟨st1, h2, fun st2 h => readResponse_status nbl st _ .NO _ (hok _ h)⟩

theorem natToDec_noLF (n : Nat) : NoLF (B.natToDec n) := by
  intro x hx
  have := (Codec.natToDec_spec n).2.1 x hx
  intro e; subst e; simp [B.isDigit] at this

theorem atom_noLF (c : Bytes) (h : ∀ x ∈ c, isAtomByte x = true) : NoLF c := by
  intro x hx e
  subst e
  have := h 10 hx
  simp [isAtomByte, B.isWs] at this

/-- `NO {n}` CRLF text CRLF (no code) -/
theorem parseError_literal_text_only (text more ds : Bytes) (st : RState) (hds : ds ≠ [])
    (hall : ∀ d ∈ ds, B.isDigit d = true) (hval : B.decToNat ds = text.length) (hp : pending st = text ++ 13 :: 10 :: more) :
    ∃ st', parseError (some (123 :: (ds ++ [125]))) st = .ok st' ∧
      st'.errcode = [] ∧ st'.errmsg = text ∧ pending st' = more := by
  unfold parseError
  have hcm : codeMatch (123 :: (ds ++ [125])) = none := codeMatch_none_of_not_paren _ (by simp)
  simp only [splitCode, hcm, sizeMatch_header text.length ds hds hall hval []]
  have hlen : text.length + 2 ≤ (pending { st with errcode := [], errmsg := [] }).length := by
    have : pending { st with errcode := [], errmsg := [] } = pending st := rfl
    rw [this, hp]; simp
  obtain ⟨st', he, hpend, hcode, _, _⟩ := (readBlock_spec (text.length + 2) { st with errcode := [], errmsg := [] }).1 hlen
  rw [he]
  have hpd : pending { st with errcode := [], errmsg := [] } = text ++ 13 :: 10 :: more := hp
  refine ⟨_, rfl, ?_, ?_, ?_⟩
  · exact hcode
  · simp only [hpd]
    have : List.take (text.length + 2) (text ++ 13 :: 10 :: more) = text ++ [13, 10] := by
      have := List.take_left (l₁ := text ++ [13, 10]) (l₂ := more)
      simpa using this
    rw [this]; simp
  · show pending st' = more
    rw [hpend, hpd]
    have := List.drop_left (l₁ := text ++ [13, 10]) (l₂ := more)
    simpa using this

theorem sizeMatchFull_none_of_last (t : Bytes) (b : UInt8) (h : t.getLast? = some b) (hb : b ≠ 125 ∧ b ≠ 10) :
    trailingSize.sizeMatchFull t = none := by
  unfold trailingSize.sizeMatchFull
  split
  · rename_i rest
    simp only
    split
    · rfl
    · have hsuf : ∀ l : Bytes, List.drop (Lex.spanLen B.isDigit rest) rest = l → l ≠ [] → l.getLast? = some b := by
        intro l hl hne
        have h1 : (123 :: rest).getLast? = some b := h
        have hrne : rest ≠ [] := by
          intro e; subst e; simp at hl; exact hne hl
        have h2 : rest.getLast? = some b := by
          rw [List.getLast?_cons_of_ne_nil hrne] at h1 <;> exact h1
        rw [← hl, List.getLast?_drop]
        split
        · rename_i hle
          have : List.drop (Lex.spanLen B.isDigit rest) rest = [] := List.drop_eq_nil_of_le hle
          rw [this] at hl; exact absurd hl.symm hne
        · exact h2
      split
      · rename_i heq
        have := hsuf _ heq (by simp)
        simp at this; exact absurd this.symm hb.1
      · rename_i heq
        have := hsuf _ heq (by simp)
        simp at this; exact absurd this.symm hb.2
      · rename_i heq
        have := hsuf _ heq (by simp)
        simp at this; exact absurd this.symm hb.1
      · rename_i heq
        have := hsuf _ heq (by simp)
        simp at this; exact absurd this.symm hb.2
      · rfl
  · rfl

/-- a text that does not end with `}` (or LF) does not end with a size indication -/
theorem trailingSize_none_of_last (t : Bytes) (b : UInt8) (h : t.getLast? = some b) (hb : b ≠ 125 ∧ b ≠ 10) :
    trailingSize t = none := by
  induction t with
  | nil => rfl
  | cons c rest ih =>
    unfold trailingSize
    have h1 : (if c == 123 then trailingSize.sizeMatchFull (c :: rest) else none) = none := by
      split
      · exact sizeMatchFull_none_of_last _ b h hb
      · rfl
    rw [h1]
    simp only
    cases rest with
    | nil => rfl
    | cons d r =>
      apply ih
      rw [List.getLast?_cons_of_ne_nil (by simp)] at h <;> exact h

/-- what follows `OK␣` on a line without LF is the reply's data, unchanged -/
theorem respMatch_ok (tail : Bytes) (c : UInt8) (t : Bytes) (ht : tail = c :: t) (hws : B.isWs c = false)
    (hlf : NoLF tail) : respMatch (79 :: 75 :: 32 :: tail) = some (.OK, some tail) := by
  subst ht
  simp only [respMatch]
  have hsp : B.isWs 32 = true := by decide
  have h1 : List.dropWhile B.isWs (32 :: c :: t) = c :: t := by
    simp only [List.dropWhile, hsp, hws]
  have h2 : ∀ l : Bytes, NoLF l → List.takeWhile (fun x => x != 10) l = l := by
    intro l hl
    induction l with
    | nil => rfl
    | cons x r ih =>
      have hx : (x != 10) = true := by simpa using hl x (by simp)
      rw [List.takeWhile_cons, if_pos hx, ih (fun y hy => hl y (by simp [hy]))]
  simp [h1, h2 _ hlf]

theorem spanLen_le (p : UInt8 → Bool) (a : Bytes) (y : UInt8) (b : Bytes) (hy : p y = false) :
    Lex.spanLen p (a ++ y :: b) ≤ a.length := by
  induction a with
  | nil => simp [Lex.spanLen, hy]
  | cons x xs ih =>
    simp only [List.cons_append, Lex.spanLen]
    split
    · simp only [List.length_cons]; omega
    · simp

/-- a size indication is only recognised at the very end: `{…` followed by at least four more bytes after a
    non-digit is not one -/
theorem sizeMatchFull_none_of_long (a : Bytes) (y : UInt8) (b : Bytes) (hy : B.isDigit y = false) (hb : 3 ≤ b.length) :
    trailingSize.sizeMatchFull (123 :: (a ++ y :: b)) = none := by
  unfold trailingSize.sizeMatchFull
  simp only
  split
  · rfl
  · have hle := spanLen_le B.isDigit a y b hy
    have hlen : 4 ≤ (List.drop (Lex.spanLen B.isDigit (a ++ y :: b)) (a ++ y :: b)).length := by
      simp only [List.length_drop, List.length_append, List.length_cons]
      omega
    split <;> rename_i heq <;> first | (rw [heq] at hlen; simp at hlen) | rfl

/-- `(code) {n}`: the size indication at the end is found, whatever the code contains -/
theorem trailingSize_code_literal (code ds : Bytes) (hds : ds ≠ []) (hall : ∀ d ∈ ds, B.isDigit d = true) :
    trailingSize (40 :: (code ++ 41 :: 32 :: (123 :: (ds ++ [125])))) = some (B.decToNat ds) := by
  have hend : trailingSize (123 :: (ds ++ [125])) = some (B.decToNat ds) := by
    unfold trailingSize
    have : trailingSize.sizeMatchFull (123 :: (ds ++ [125])) = some (B.decToNat ds) := by
      unfold trailingSize.sizeMatchFull
      have hk := spanLen_digits_append ds 125 [] hall (by decide)
      have hpos : (ds.length == 0) = false := by
        cases ds with
        | nil => exact absurd rfl hds
        | cons _ _ => simp
      simp only [hk, hpos, Bool.false_eq_true, if_false, List.drop_left, List.take_left]
    simp [this]
  -- every earlier position: either not `{`, or `{` followed by too much
  have hgen : ∀ pre : Bytes, (∀ x ∈ pre, x ≠ 41 ∨ True) →
      trailingSize (pre ++ 41 :: 32 :: (123 :: (ds ++ [125]))) = some (B.decToNat ds) := by
    intro pre _
    induction pre with
    | nil =>
      simp only [List.nil_append]
      unfold trailingSize
      simp only [show ((41 : UInt8) == 123) = false from by decide, Bool.false_eq_true, if_false]
      unfold trailingSize
      simp only [show ((32 : UInt8) == 123) = false from by decide, Bool.false_eq_true, if_false]
      exact hend
    | cons x xs ih =>
      simp only [List.cons_append]
      unfold trailingSize
      have hnone : (if x == 123 then trailingSize.sizeMatchFull (x :: (xs ++ 41 :: 32 :: (123 :: (ds ++ [125])))) else none) = none := by
        split
        · rename_i hx
          have hx' : x = 123 := by simpa using hx
          subst hx'
          -- split the remainder at its first non-digit
          have key : ∀ (a : Bytes), (∀ d ∈ a, B.isDigit d = true) → ∀ rest : Bytes, 
              trailingSize.sizeMatchFull (123 :: (a ++ rest ++ 41 :: 32 :: (123 :: (ds ++ [125])))) = none ∨ True := fun _ _ _ => .inr trivial
          -- direct: the whole tail after `{` is  xs ++ `)` :: …; take a = digits prefix of xs
          let a := xs.takeWhile B.isDigit
          let r := xs.dropWhile B.isDigit
          have hxs : xs = a ++ r := (List.takeWhile_append_dropWhile).symm
          cases hr : r with
          | nil =>
            have : xs ++ 41 :: 32 :: (123 :: (ds ++ [125])) = a ++ 41 :: (32 :: (123 :: (ds ++ [125]))) := by
              rw [hxs, hr]; simp
            rw [this]
            exact sizeMatchFull_none_of_long a 41 _ (by decide) (by simp)
          | cons y ys =>
            have hy : B.isDigit y = false := by
              have h0 := List.head?_dropWhile_not B.isDigit xs
              have hr' : List.dropWhile B.isDigit xs = y :: ys := hr
              rw [hr'] at h0
              simpa using h0
            have : xs ++ 41 :: 32 :: (123 :: (ds ++ [125])) = a ++ y :: (ys ++ 41 :: 32 :: (123 :: (ds ++ [125]))) := by
              rw [hxs, hr]; simp
            rw [this]
            exact sizeMatchFull_none_of_long a y _ hy (by simp; omega)
        · rfl
      rw [hnone]
      exact ih (fun _ _ => .inr trivial)
  have := hgen (40 :: code) (fun _ _ => .inr trivial)
  simpa using this

theorem last_of_snoc (l m : Bytes) (b : UInt8) (h : l = m ++ [b]) : l.getLast? = some b := by
  rw [h]; simp

/-- an `OK` line that ends with a size indication: the literal and its CRLF are consumed with it -/
theorem readLine_ok_literal (st : RState) (line text rest : Bytes) (d : Option Bytes)
    (hp : pending st = line ++ 13 :: 10 :: (text ++ 13 :: 10 :: rest)) (hl : splitCRLF line = none) (hne : line ≠ [])
    (hsz : sizeMatch line = none) (hr : respMatch line = some (.OK, d)) (hts : d.bind trailingSize = some text.length) :
    ∃ st2, readLine st = .ok (.response .OK d, st2) ∧ pending st2 = rest ∧
      st2.errcode = st.errcode ∧ st2.errmsg = st.errmsg := by
  obtain ⟨st1, h1, h2, h3, h4, _⟩ := rawLine_pending st line _ hp hl
  have hlen : text.length + 2 ≤ (pending st1).length := by rw [h2]; simp
  obtain ⟨st2, hb, hp2, hc2, hm2, _⟩ := (readBlock_spec (text.length + 2) st1).1 hlen
  refine ⟨st2, ?_, ?_, hc2.trans h3, hm2.trans h4⟩
  · unfold readLine
    rw [h1]
    have : line.isEmpty = false := by cases line <;> simp at hne ⊢
    simp only [this, Bool.false_eq_true, if_false, hsz, hr, hts, hb]
  · rw [hp2, h2]
    have := List.drop_left (l₁ := text ++ [13, 10]) (l₂ := rest)
    simpa using this

theorem noLF_ok_line (tail : Bytes) (h : NoLF tail) : splitCRLF (79 :: 75 :: 32 :: tail) = none := by
  apply splitCRLF_none_of_noLF
  intro x hx
  simp only [List.mem_cons] at hx
  rcases hx with rfl | rfl | rfl | hx
  · decide
  · decide
  · decide
  · exact h x hx

end ReplyGrammar
