import SieveModel.Lemmas.Reader
import SieveModel.Model.Client
/-! Decoding of status replies: what `__parse_error` extracts from a reply built per RFC 5804. -/
namespace ReplyDecode
open Reader Client

/-- the reply decoder's quoted-string scanner stops exactly at the closing quote of an escaped value -/
theorem quotedBody_escapeQ (v rest : Bytes) :
    quotedBody (escapeQ v ++ 34 :: rest) = some (escapeQ v, rest) := by
  induction v with
  | nil => simp [escapeQ, quotedBody]
  | cons c cs ih =>
    unfold escapeQ
    by_cases h92 : c = 92
    · subst h92
      simp only [beq_self_eq_true, if_true, List.cons_append]
      rw [quotedBody.eq_def]
      simp [ih]
    · have h92' : (c == 92) = false := by simpa using h92
      simp only [h92', Bool.false_eq_true, if_false]
      by_cases h34 : c = 34
      · subst h34
        simp only [beq_self_eq_true, if_true, List.cons_append]
        rw [quotedBody.eq_def]
        simp [ih]
      · have h34' : (c == 34) = false := by simpa using h34
        simp only [h34', Bool.false_eq_true, if_false, List.cons_append]
        rw [quotedBody.eq_def]
        simp [h92, h34, ih]

/-- un-escaping undoes escaping -/
theorem unescape_escapeQ (v : Bytes) : unescape (escapeQ v) = v := by
  induction v with
  | nil => simp [escapeQ, unescape]
  | cons c cs ih =>
    unfold escapeQ
    by_cases h92 : c = 92
    · subst h92
      simp only [beq_self_eq_true, if_true]
      rw [unescape.eq_def]
      simp [ih]
    · have h92' : (c == 92) = false := by simpa using h92
      simp only [h92', Bool.false_eq_true, if_false]
      by_cases h34 : c = 34
      · subst h34
        simp only [beq_self_eq_true, if_true]
        rw [unescape.eq_def]
        simp [ih]
      · have h34' : (c == 34) = false := by simpa using h34
        simp only [h34', Bool.false_eq_true, if_false]
        rw [unescape.eq_def]
        simp [h92, ih]

end ReplyDecode

namespace ReplyDecode
open Reader Client

theorem takeDrop_atom (atom tail : Bytes) (h : ∀ c ∈ atom, isAtomByte c = true) :
    (atom ++ 41 :: tail).takeWhile isAtomByte = atom ∧ (atom ++ 41 :: tail).dropWhile isAtomByte = 41 :: tail := by
  induction atom with
  | nil => simp [List.takeWhile, List.dropWhile, isAtomByte]
  | cons c cs ih =>
    have hc := h c (by simp)
    obtain ⟨a, b⟩ := ih (fun x hx => h x (by simp [hx]))
    simp [List.takeWhile, List.dropWhile, hc, a, b]

/-- a response code `(atom)` in front of the text is split off, with the blanks after it -/
theorem codeMatch_atom (atom tail : Bytes) (hne : atom ≠ []) (h : ∀ c ∈ atom, isAtomByte c = true) :
    codeMatch (40 :: (atom ++ 41 :: tail)) = some (atom, tail.dropWhile B.isWs) := by
  obtain ⟨ht, hd⟩ := takeDrop_atom atom tail h
  unfold codeMatch
  simp only [ht, hd]
  have : atom.isEmpty = false := by
    cases atom with
    | nil => exact absurd rfl hne
    | cons _ _ => rfl
  simp only [this, Bool.false_eq_true, if_false]
  have hws : List.dropWhile B.isWs (41 :: tail) = 41 :: tail := by
    simp [List.dropWhile, B.isWs]
  simp [hws]

theorem codeMatch_none_of_not_paren (t : Bytes) (h : t.head? ≠ some 40) : codeMatch t = none := by
  unfold codeMatch
  split
  · rename_i rest; simp at h
  · rfl

theorem sizeMatch_none_of_quote (t : Bytes) : sizeMatch (34 :: t) = none := by
  simp [sizeMatch]

/-- `NO (code) "text"`: code and unescaped text are what the reply carries -/
theorem parseError_code_and_quoted_text (code text : Bytes) (st : RState) (hne : code ≠ [])
    (hc : ∀ c ∈ code, isAtomByte c = true) :
    parseError (some (40 :: (code ++ 41 :: 32 :: (34 :: (escapeQ text ++ [34]))))) st
      = .ok { st with errcode := code, errmsg := text } := by
  unfold parseError
  have hcm := codeMatch_atom code (32 :: (34 :: (escapeQ text ++ [34]))) hne hc
  have hdw : List.dropWhile B.isWs (32 :: (34 :: (escapeQ text ++ [34]))) = 34 :: (escapeQ text ++ [34]) := by
    simp [List.dropWhile, B.isWs]
  rw [hdw] at hcm
  simp only [splitCode, hcm, sizeMatch_none_of_quote]
  have hq : textMatch (34 :: (escapeQ text ++ [34])) = some (escapeQ text) := by
    simp only [textMatch]
    have := quotedBody_escapeQ text []
    rw [this]; rfl
  simp only [hq, unescape_escapeQ]

/-- `NO "text"` (no response code) -/
theorem parseError_quoted_text_only (text : Bytes) (st : RState) :
    parseError (some (34 :: (escapeQ text ++ [34]))) st = .ok { st with errcode := [], errmsg := text } := by
  unfold parseError
  have hcm : codeMatch (34 :: (escapeQ text ++ [34])) = none := codeMatch_none_of_not_paren _ (by simp)
  simp only [splitCode, hcm, sizeMatch_none_of_quote]
  have hq : textMatch (34 :: (escapeQ text ++ [34])) = some (escapeQ text) := by
    simp only [textMatch]
    have := quotedBody_escapeQ text []
    rw [this]; rfl
  simp only [hq, unescape_escapeQ]

/-- `NO (code)` (no text) -/
theorem parseError_code_only (code : Bytes) (st : RState) (hne : code ≠ [])
    (hc : ∀ c ∈ code, isAtomByte c = true) :
    parseError (some (40 :: (code ++ [41]))) st = .ok { st with errcode := code, errmsg := [] } := by
  unfold parseError
  have hcm := codeMatch_atom code [] hne hc
  simp only [List.dropWhile_nil] at hcm
  simp only [splitCode, hcm]
  simp [sizeMatch, textMatch]

end ReplyDecode

namespace ReplyDecode
open Reader Client

theorem spanLen_digits_append (ds : Bytes) (c : UInt8) (rest : Bytes) (hall : ∀ d ∈ ds, B.isDigit d = true)
    (hc : B.isDigit c = false) : Lex.spanLen B.isDigit (ds ++ c :: rest) = ds.length := by
  induction ds with
  | nil => simp [Lex.spanLen, hc]
  | cons d ds ih =>
    have hd := hall d (by simp)
    simp only [List.cons_append, Lex.spanLen, hd, if_true, List.length_cons]
    rw [ih (fun x hx => hall x (by simp [hx]))]

/-- `{n}` announces `n` -/
theorem sizeMatch_header (n : Nat) (ds : Bytes) (hne : ds ≠ []) (hall : ∀ d ∈ ds, B.isDigit d = true)
    (hval : B.decToNat ds = n) (rest : Bytes) : sizeMatch (123 :: (ds ++ 125 :: rest)) = some n := by
  unfold sizeMatch
  have hk := spanLen_digits_append ds 125 rest hall (by decide)
  simp only [hk]
  have hpos : (ds.length == 0) = false := by
    cases ds with
    | nil => exact absurd rfl hne
    | cons _ _ => simp
  simp only [hpos, Bool.false_eq_true, if_false, List.drop_left, List.take_left, hval]

/-- `NO (code) {n}` CRLF text CRLF: the literal text is taken by count, its CRLF terminator is
    consumed, and nothing else -/
theorem parseError_code_and_literal_text (code text more ds : Bytes) (st : RState) (hne : code ≠ [])
    (hc : ∀ c ∈ code, isAtomByte c = true) (hds : ds ≠ []) (hall : ∀ d ∈ ds, B.isDigit d = true)
    (hval : B.decToNat ds = text.length) (hp : pending st = text ++ 13 :: 10 :: more) :
    ∃ st', parseError (some (40 :: (code ++ 41 :: 32 :: (123 :: (ds ++ [125]))))) st = .ok st' ∧
      st'.errcode = code ∧ st'.errmsg = text ∧ pending st' = more := by
  unfold parseError
  have hcm := codeMatch_atom code (32 :: (123 :: (ds ++ [125]))) hne hc
  have hdw : List.dropWhile B.isWs (32 :: (123 :: (ds ++ [125]))) = 123 :: (ds ++ [125]) := by
    simp [List.dropWhile, B.isWs]
  rw [hdw] at hcm
  simp only [splitCode, hcm, sizeMatch_header text.length ds hds hall hval []]
  have hlen : text.length + 2 ≤ (pending { st with errcode := code, errmsg := [] }).length := by
    have : pending { st with errcode := code, errmsg := [] } = pending st := rfl
    rw [this, hp]; simp
  obtain ⟨st', he, hpend, hcode, _, _⟩ := (readBlock_spec (text.length + 2) { st with errcode := code, errmsg := [] }).1 hlen
  rw [he]
  have hpd : pending { st with errcode := code, errmsg := [] } = text ++ 13 :: 10 :: more := hp
  refine ⟨_, rfl, ?_, ?_, ?_⟩
  · exact hcode
  · simp only [hpd]
    have : List.take (text.length + 2) (text ++ 13 :: 10 :: more) = text ++ [13, 10] := by
      have := List.take_left (l₁ := text ++ [13, 10]) (l₂ := more)
      simpa using this
    rw [this]; simp
  · show pending st' = more
    rw [hpend, hpd]
    have := List.drop_left (l₁ := text ++ [13, 10]) (l₂ := more)
    simpa using this

end ReplyDecode
