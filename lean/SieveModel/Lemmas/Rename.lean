import SieveModel.Model.Rename
/-!
# Safety of the emulated rename (T-RENAME)

For every well-formed store (distinct names, the active script — if any — among them), every pair of
names, every placement of faults over the five commands and every content transformation `f`, the
store after `Rename.run` is one of five shapes, each of which keeps every script the call is not
about untouched and keeps the script being renamed under its old or its new name.
-/
namespace Rename

def WF (s : Store) : Prop := s.names.Nodup ∧ ∀ a, s.active = some a → a ∈ s.names

/-! ## the store operations -/

theorem lookup_eq_none {s : Store} {n : Bytes} (h : n ∉ s.names) : s.lookup n = none := by
  unfold Store.lookup
  have : s.scripts.find? (fun p => p.1 == n) = none := by
    rw [List.find?_eq_none]
    intro p hp hpn
    exact h (List.mem_map.2 ⟨p, hp, by simpa using hpn⟩)
  rw [this]; rfl

theorem lookup_isSome {s : Store} {n : Bytes} (h : n ∈ s.names) : ∃ c, s.lookup n = some c := by
  unfold Store.lookup
  obtain ⟨p, hp, rfl⟩ := List.mem_map.1 h
  cases hf : s.scripts.find? (fun q => q.1 == p.1) with
  | none =>
    rw [List.find?_eq_none] at hf
    exact absurd (by simp) (hf p hp)
  | some q => exact ⟨q.2, rfl⟩

theorem mem_names_of_lookup {s : Store} {n c : Bytes} (h : s.lookup n = some c) : n ∈ s.names := by
  by_cases hn : n ∈ s.names
  · exact hn
  · rw [lookup_eq_none hn] at h
    cases h

theorem names_putList (l : List (Bytes × Bytes)) (n c : Bytes) :
    (putList l n c).map (·.1) = if n ∈ l.map (·.1) then l.map (·.1) else l.map (·.1) ++ [n] := by
  induction l with
  | nil => simp [putList]
  | cons p rest ih =>
    unfold putList
    by_cases hp : p.1 = n
    · simp [hp]
    · have hp' : (p.1 == n) = false := by simpa using hp
      have hne : ¬ n = p.1 := fun h => hp h.symm
      simp only [hp', Bool.false_eq_true, if_false, List.map_cons, ih, List.mem_cons, hne, false_or]
      split <;> simp

theorem find_putList_same (l : List (Bytes × Bytes)) (n c : Bytes) :
    ((putList l n c).find? (fun p => p.1 == n)).map (·.2) = some c := by
  induction l with
  | nil => simp [putList]
  | cons p rest ih =>
    unfold putList
    by_cases hp : p.1 = n
    · simp [hp]
    · have hp' : (p.1 == n) = false := by simpa using hp
      simp only [hp', Bool.false_eq_true, if_false, List.find?_cons]
      exact ih

theorem find_putList_other (l : List (Bytes × Bytes)) (n c m : Bytes) (h : m ≠ n) :
    (putList l n c).find? (fun p => p.1 == m) = l.find? (fun p => p.1 == m) := by
  induction l with
  | nil =>
    have : (n == m) = false := by simpa using fun e => h e.symm
    simp [putList, this]
  | cons p rest ih =>
    unfold putList
    by_cases hp : p.1 = n
    · have h1 : (p.1 == m) = false := by rw [hp]; simpa using fun e => h e.symm
      have h2 : (n == m) = false := by simpa using fun e => h e.symm
      simp [hp, h2]
    · have hp' : (p.1 == n) = false := by simpa using hp
      simp only [hp', Bool.false_eq_true, if_false, List.find?_cons, ih]

theorem lookup_put_same (s : Store) (n c : Bytes) : (s.put n c).lookup n = some c :=
  find_putList_same s.scripts n c

theorem lookup_put_other (s : Store) (n c m : Bytes) (h : m ≠ n) : (s.put n c).lookup m = s.lookup m := by
  unfold Store.lookup Store.put
  simp only [find_putList_other s.scripts n c m h]

theorem names_put_new (s : Store) (n c : Bytes) (h : n ∉ s.names) : (s.put n c).names = s.names ++ [n] := by
  unfold Store.names Store.put
  simp only [names_putList]
  have : ¬ n ∈ s.scripts.map (·.1) := h
  simp [this]

theorem wf_put_new (s : Store) (n c : Bytes) (hw : WF s) (h : n ∉ s.names) : WF (s.put n c) := by
  refine ⟨?_, ?_⟩
  · rw [names_put_new s n c h]
    exact List.nodup_append.2 ⟨hw.1, by simp, by
      intro a ha b hb
      simp at hb
      subst hb
      intro e; subst e; exact h ha⟩
  · intro a ha
    rw [names_put_new s n c h]
    exact List.mem_append_left _ (hw.2 a ha)

/-- the store with `n` made active -/
def act (s : Store) (n : Bytes) : Store := { s with active := some n }
/-- the store without script `n` -/
def del (s : Store) (n : Bytes) : Store := { s with scripts := s.scripts.filter (fun p => !(p.1 == n)) }

theorem activate_eq (s : Store) (n : Bytes) (h : n ∈ s.names) : s.activate n = some (act s n) := by
  unfold Store.activate
  have : s.names.contains n = true := by simpa using h
  simp only [this, if_true, act]

theorem delete_eq (s : Store) (n : Bytes) (h : n ∈ s.names) (ha : s.active ≠ some n) : s.delete n = some (del s n) := by
  unfold Store.delete
  have h1 : s.names.contains n = true := by simpa using h
  have h2 : (s.active == some n) = false := by simpa using ha
  simp only [h1, h2, Bool.not_true, Bool.false_eq_true, if_false, del]

theorem lookup_act (s : Store) (n m : Bytes) : (act s n).lookup m = s.lookup m := rfl
theorem names_act (s : Store) (n : Bytes) : (act s n).names = s.names := rfl

theorem names_del (s : Store) (n : Bytes) : (del s n).names = s.names.filter (fun m => !(m == n)) := by
  unfold del Store.names
  simp only [List.filter_map]
  rfl

theorem not_mem_names_del (s : Store) (n : Bytes) : n ∉ (del s n).names := by
  rw [names_del]
  simp

theorem find_filter_other (l : List (Bytes × Bytes)) (n m : Bytes) (h : m ≠ n) :
    (l.filter (fun p => !(p.1 == n))).find? (fun p => p.1 == m) = l.find? (fun p => p.1 == m) := by
  induction l with
  | nil => rfl
  | cons p rest ih =>
    by_cases hp : p.1 = n
    · have h1 : (p.1 == m) = false := by rw [hp]; simpa using fun e => h e.symm
      have h0 : (p.1 == n) = true := by simpa using hp
      rw [List.filter_cons]
      simp only [h0, Bool.not_true, Bool.false_eq_true, if_false, List.find?_cons, h1, ih]
    · have hp' : (p.1 == n) = false := by simpa using hp
      rw [List.filter_cons]
      simp only [hp', Bool.not_false, if_true, List.find?_cons, ih]

theorem lookup_del_other (s : Store) (n m : Bytes) (h : m ≠ n) : (del s n).lookup m = s.lookup m := by
  unfold del Store.lookup
  simp only [find_filter_other s.scripts n m h]

theorem wf_act (s : Store) (n : Bytes) (hw : WF s) (h : n ∈ s.names) : WF (act s n) := by
  refine ⟨hw.1, ?_⟩
  intro a ha
  have : a = n := by simpa [act] using ha.symm
  subst this
  exact h

theorem wf_del (s : Store) (n : Bytes) (hw : WF s) (ha : s.active ≠ some n) : WF (del s n) := by
  refine ⟨?_, ?_⟩
  · rw [names_del]; exact hw.1.filter _
  · intro a hact
    have ha' : s.active = some a := hact
    rw [names_del]
    refine List.mem_filter.2 ⟨hw.2 a ha', ?_⟩
    have : a ≠ n := by intro e; subst e; exact ha ha'
    simpa using this

/-! ## the five shapes -/

/-- the possible results of the emulated rename -/
inductive Shape (f : Bytes → Bytes) (s : Store) (old new : Bytes) : Store × Outcome → Prop
  /-- nothing was changed; the call did not return True -/
  | same (r : Outcome) (hr : r ≠ .true) : Shape f s old new (s, r)
  /-- the copy exists, the original too; not True -/
  | copied (c : Bytes) (hc : s.lookup old = some c) (hn : new ∉ s.names) (r : Outcome) (hr : r ≠ .true) :
      Shape f s old new (s.put new (f c), r)
  /-- the copy exists and is active (the original was), the original still exists; not True -/
  | activated (c : Bytes) (hc : s.lookup old = some c) (hn : new ∉ s.names) (ha : s.active = some old)
      (r : Outcome) (hr : r ≠ .true) : Shape f s old new (act (s.put new (f c)) new, r)
  /-- done, the original was not active: True, or Error when the last reply was lost -/
  | moved (c : Bytes) (hc : s.lookup old = some c) (hn : new ∉ s.names) (ha : s.active ≠ some old)
      (r : Outcome) (hr : r ≠ .false) : Shape f s old new (del (s.put new (f c)) old, r)
  /-- done, the original was active and the copy is now: True, or Error when the last reply was lost -/
  | movedActive (c : Bytes) (hc : s.lookup old = some c) (hn : new ∉ s.names) (ha : s.active = some old)
      (r : Outcome) (hr : r ≠ .false) : Shape f s old new (del (act (s.put new (f c)) new) old, r)

theorem mem_others {s : Store} {n : Bytes} : s.others.contains n = true ↔ n ∈ s.names ∧ s.active ≠ some n := by
  unfold Store.others
  simp only [List.contains_iff_mem, List.mem_filter, Bool.not_eq_eq_eq_not, Bool.not_true, beq_eq_false_iff_ne, ne_eq]

/-- **every run ends in one of the five shapes** -/
theorem run_shape (f : Bytes → Bytes) (plan : Step → Fault) (s : Store) (old new : Bytes) (hw : WF s) :
    Shape f s old new (run f plan s old new) := by
  unfold run
  cases hl : plan .list <;> simp only
  case no => exact .same _ (by decide)
  case bye => exact .same _ (by decide)
  case silent => exact .same _ (by decide)
  case lost => exact .same _ (by decide)
  -- the listing arrived
  by_cases hold : (!(s.active == some old) && !s.others.contains old) = true
  · simp only [hold, if_true]; exact .same _ (by decide)
  simp only [hold, Bool.false_eq_true, if_false]
  by_cases hnew : (s.others.contains new || s.active == some new) = true
  · simp only [hnew, if_true]; exact .same _ (by decide)
  simp only [hnew, Bool.false_eq_true, if_false]
  -- old exists, new does not
  have hnewN : new ∉ s.names := by
    intro hm
    have h1 : s.others.contains new = false ∧ (s.active == some new) = false := by simpa using hnew
    by_cases ha : s.active = some new
    · simp [ha] at h1
    · have := mem_others.2 ⟨hm, ha⟩
      rw [h1.1] at this; cases this
  have holdN : old ∈ s.names := by
    by_cases ha : s.active = some old
    · exact hw.2 old ha
    · have h1 : (s.active == some old) = false := by simpa using ha
      simp only [h1, Bool.not_false, Bool.true_and, Bool.not_eq_true', Bool.not_eq_false] at hold
      exact (mem_others.1 hold).1
  have hne : old ≠ new := fun e => hnewN (e ▸ holdN)
  obtain ⟨c, hc⟩ := lookup_isSome holdN
  unfold stepGet
  cases hg : plan .get <;> simp only
  case no => exact .same _ (by decide)
  case bye => exact .same _ (by decide)
  case silent => exact .same _ (by decide)
  case lost => exact .same _ (by decide)
  simp only [hc]
  unfold stepPut
  cases hp : plan .put <;> simp only
  case no => exact .same _ (by decide)
  case bye => exact .same _ (by decide)
  case silent => exact .same _ (by decide)
  case lost => exact .copied c hc hnewN _ (by decide)
  -- the copy exists
  have hB : WF (s.put new (f c)) := wf_put_new s new (f c) hw hnewN
  have hBold : old ∈ (s.put new (f c)).names := by
    rw [names_put_new s new (f c) hnewN]; exact List.mem_append_left _ holdN
  have hBnew : new ∈ (s.put new (f c)).names := by
    rw [names_put_new s new (f c) hnewN]; simp
  have hBact : (s.put new (f c)).active = s.active := rfl
  unfold stepActivate
  by_cases ha : s.active = some old
  · have h1 : (s.active == some old) = true := by simpa using ha
    simp only [h1, Bool.not_true, Bool.false_eq_true, if_false]
    cases hs : plan .setactive <;> simp only
    case no => exact .copied c hc hnewN _ (by decide)
    case bye => exact .copied c hc hnewN _ (by decide)
    case silent => exact .copied c hc hnewN _ (by decide)
    case lost =>
      rw [activate_eq _ _ hBnew]
      exact .activated c hc hnewN ha _ (by decide)
    rw [activate_eq _ _ hBnew]
    simp only
    have hCold : old ∈ (act (s.put new (f c)) new).names := hBold
    have hCact : (act (s.put new (f c)) new).active ≠ some old := by
      simp only [act]; intro e; exact hne (Option.some.inj e).symm
    unfold stepDelete
    cases hd : plan .delete <;> simp only
    case no => exact .activated c hc hnewN ha _ (by decide)
    case bye => exact .activated c hc hnewN ha _ (by decide)
    case silent => exact .activated c hc hnewN ha _ (by decide)
    case lost =>
      rw [delete_eq _ _ hCold hCact]
      exact .movedActive c hc hnewN ha _ (by decide)
    rw [delete_eq _ _ hCold hCact]
    exact .movedActive c hc hnewN ha _ (by decide)
  · have h1 : (s.active == some old) = false := by simpa using ha
    simp only [h1, Bool.not_false, if_true]
    have hBact' : (s.put new (f c)).active ≠ some old := by rw [hBact]; exact ha
    unfold stepDelete
    cases hd : plan .delete <;> simp only
    case no => exact .copied c hc hnewN _ (by decide)
    case bye => exact .copied c hc hnewN _ (by decide)
    case silent => exact .copied c hc hnewN _ (by decide)
    case lost =>
      rw [delete_eq _ _ hBold hBact']
      exact .moved c hc hnewN ha _ (by decide)
    rw [delete_eq _ _ hBold hBact']
    exact .moved c hc hnewN ha _ (by decide)

/-! ## what the shapes guarantee -/

/-- the safety statement of the emulated rename for a result `(s', r)` -/
structure Safe (f : Bytes → Bytes) (s : Store) (old new : Bytes) (s' : Store) (r : Outcome) : Prop where
  /-- the store stays well-formed -/
  wf : WF s'
  /-- scripts the call is not about are untouched -/
  others : ∀ m, m ≠ old → m ≠ new → s'.lookup m = s.lookup m
  /-- an existing script named like the target is never written over: nothing at all changes -/
  target : new ∈ s.names → s' = s
  /-- nothing changes when the script to rename does not exist -/
  missing : old ∉ s.names → s' = s
  /-- the script being renamed survives, under its old name unchanged or under the new name as uploaded -/
  survives : ∀ c, s.lookup old = some c → s'.lookup old = some c ∨ s'.lookup new = some (f c)
  /-- no third script becomes active: activity stays where it was, or moves from the old name to the new one -/
  activity : s'.active = s.active ∨ (s.active = some old ∧ s'.active = some new)
  /-- True means done: old name gone, new name holds the content, active iff the old one was -/
  done : r = .true → ∃ c, s.lookup old = some c ∧ new ∉ s.names ∧ old ∉ s'.names ∧ s'.lookup new = some (f c) ∧
      (s'.active = some new ↔ s.active = some old) ∧ (s.active ≠ some old → s'.active = s.active)

theorem shape_safe (f : Bytes → Bytes) (s : Store) (old new : Bytes) (hw : WF s) (x : Store × Outcome)
    (h : Shape f s old new x) : Safe f s old new x.1 x.2 := by
  cases h with
  | same r hr =>
    exact ⟨hw, fun _ _ _ => rfl, fun _ => rfl, fun _ => rfl, fun c hc => .inl hc, .inl rfl, fun e => absurd e hr⟩
  | copied c hc hn r hr =>
    have hold := mem_names_of_lookup hc
    have hne : old ≠ new := fun e => hn (e ▸ hold)
    refine ⟨wf_put_new s new (f c) hw hn, ?_, fun h => absurd h hn, fun h => absurd hold h, ?_, .inl rfl, fun e => absurd e hr⟩
    · intro m _ hm; exact lookup_put_other s new (f c) m hm
    · intro c' hc'; left; rw [lookup_put_other s new (f c) old hne]; exact hc'
  | activated c hc hn ha r hr =>
    have hold := mem_names_of_lookup hc
    have hne : old ≠ new := fun e => hn (e ▸ hold)
    have hBnew : new ∈ (s.put new (f c)).names := by rw [names_put_new s new (f c) hn]; simp
    refine ⟨wf_act _ _ (wf_put_new s new (f c) hw hn) hBnew, ?_, fun h => absurd h hn, fun h => absurd hold h, ?_, .inr ⟨ha, rfl⟩,
      fun e => absurd e hr⟩
    · intro m _ hm; rw [lookup_act]; exact lookup_put_other s new (f c) m hm
    · intro c' hc'; left; rw [lookup_act, lookup_put_other s new (f c) old hne]; exact hc'
  | moved c hc hn ha r hr =>
    have hold := mem_names_of_lookup hc
    have hne : old ≠ new := fun e => hn (e ▸ hold)
    have hBact : (s.put new (f c)).active ≠ some old := ha
    refine ⟨wf_del _ _ (wf_put_new s new (f c) hw hn) hBact, ?_, fun h => absurd h hn, fun h => absurd hold h, ?_, .inl rfl, ?_⟩
    · intro m hmo hm; rw [lookup_del_other _ _ _ hmo]; exact lookup_put_other s new (f c) m hm
    · intro c' hc'
      right
      have : c' = c := Option.some.inj (hc'.symm.trans hc)
      rw [this, lookup_del_other _ _ _ (Ne.symm hne)]
      exact lookup_put_same s new (f c)
    · intro _
      refine ⟨c, hc, hn, not_mem_names_del _ _, ?_, ?_, fun _ => rfl⟩
      · rw [lookup_del_other _ _ _ (Ne.symm hne)]; exact lookup_put_same s new (f c)
      · constructor
        · intro e
          have e' : s.active = some new := e
          exact absurd (hw.2 new e') hn
        · intro e; exact absurd e ha
  | movedActive c hc hn ha r hr =>
    have hold := mem_names_of_lookup hc
    have hne : old ≠ new := fun e => hn (e ▸ hold)
    have hBnew : new ∈ (s.put new (f c)).names := by rw [names_put_new s new (f c) hn]; simp
    have hCact : (act (s.put new (f c)) new).active ≠ some old := by
      simp only [act]; intro e; exact hne (Option.some.inj e).symm
    refine ⟨wf_del _ _ (wf_act _ _ (wf_put_new s new (f c) hw hn) hBnew) hCact, ?_, fun h => absurd h hn, fun h => absurd hold h, ?_,
      .inr ⟨ha, rfl⟩, ?_⟩
    · intro m hmo hm; rw [lookup_del_other _ _ _ hmo, lookup_act]; exact lookup_put_other s new (f c) m hm
    · intro c' hc'
      right
      have : c' = c := Option.some.inj (hc'.symm.trans hc)
      rw [this, lookup_del_other _ _ _ (Ne.symm hne), lookup_act]
      exact lookup_put_same s new (f c)
    · intro _
      refine ⟨c, hc, hn, not_mem_names_del _ _, ?_, ⟨fun _ => ha, fun _ => rfl⟩, fun h => absurd ha h⟩
      rw [lookup_del_other _ _ _ (Ne.symm hne), lookup_act]; exact lookup_put_same s new (f c)

/-- **the emulated rename is safe** under every placement of faults -/
theorem run_safe (f : Bytes → Bytes) (plan : Step → Fault) (s : Store) (old new : Bytes) (hw : WF s) :
    Safe f s old new (run f plan s old new).1 (run f plan s old new).2 :=
  shape_safe f s old new hw _ (run_shape f plan s old new hw)

/-- **without faults the rename goes through**: an existing script renamed to a free name returns True -/
theorem run_succeeds (f : Bytes → Bytes) (s : Store) (old new : Bytes) (hw : WF s) (hold : old ∈ s.names)
    (hnew : new ∉ s.names) : (run f (fun _ => .none) s old new).2 = .true := by
  have hne : old ≠ new := fun e => hnew (e ▸ hold)
  obtain ⟨c, hc⟩ := lookup_isSome hold
  have hBold : old ∈ (s.put new (f c)).names := by
    rw [names_put_new s new (f c) hnew]; exact List.mem_append_left _ hold
  have hBnew : new ∈ (s.put new (f c)).names := by
    rw [names_put_new s new (f c) hnew]; simp
  have h2 : (s.others.contains new || s.active == some new) = false := by
    have h2a : s.others.contains new = false := by
      cases h : s.others.contains new with
      | false => rfl
      | true => exact absurd (mem_others.1 h).1 hnew
    have h2b : (s.active == some new) = false := by
      cases h : (s.active == some new) with
      | false => rfl
      | true => exact absurd (hw.2 new (by simpa using h)) hnew
    rw [h2a, h2b]; rfl
  unfold run
  simp only
  by_cases ha : s.active = some old
  · have h1 : (s.active == some old) = true := by simpa using ha
    have hCact : (act (s.put new (f c)) new).active ≠ some old := by
      simp only [act]; intro e; exact hne (Option.some.inj e).symm
    simp only [h1, Bool.not_true, Bool.false_and, Bool.false_eq_true, if_false, h2, stepGet, hc, stepPut, stepActivate,
      activate_eq _ _ hBnew, stepDelete, delete_eq _ _ (show old ∈ (act (s.put new (f c)) new).names from hBold) hCact]
  · have h1 : (s.active == some old) = false := by simpa using ha
    have h3 : s.others.contains old = true := mem_others.2 ⟨hold, ha⟩
    have hBact' : (s.put new (f c)).active ≠ some old := ha
    simp only [h1, Bool.not_false, Bool.true_and, h3, Bool.not_true, Bool.false_eq_true, if_false, h2, stepGet, hc, stepPut,
      stepActivate, if_true, stepDelete, delete_eq _ _ hBold hBact']

end Rename
