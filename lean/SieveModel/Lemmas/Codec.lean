import SieveModel.Spec.Rfc5804
import SieveModel.Model.Client
/-! T-WIRE: what the client writes decodes, under the strict server-side decoder, to what the caller passed. -/
namespace Codec
open Client Rfc5804

/-- the strict decoder undoes the client's quoting, for every value without CR / LF / NUL -/
theorem quotedTail_escapeQ (a rest : Bytes) (h : hasCtl a = false) :
    quotedTail (escapeQ a ++ 34 :: rest) = some (a, rest) := by
  induction a with
  | nil => simp [escapeQ, quotedTail.eq_def]
  | cons c cs ih =>
    have hc : (c == 13 || c == 10 || c == 0) = false ∧ hasCtl cs = false := by
      simp only [hasCtl, List.any_cons, Bool.or_eq_false_iff] at h
      exact ⟨by simp [h.1.1.1, h.1.1.2, h.1.2], by simpa [hasCtl] using h.2⟩
    have ih' := ih hc.2
    unfold escapeQ
    by_cases h92 : c = 92
    · subst h92
      simp only [beq_self_eq_true, if_true, List.cons_append]
      rw [quotedTail.eq_def]
      simp [ih']
    · have h92' : (c == 92) = false := by simpa using h92
      simp only [h92', Bool.false_eq_true, if_false]
      by_cases h34 : c = 34
      · subst h34
        simp only [beq_self_eq_true, if_true, List.cons_append]
        rw [quotedTail.eq_def]
        simp [ih']
      · have h34' : (c == 34) = false := by simpa using h34
        simp only [h34', Bool.false_eq_true, if_false, List.cons_append]
        rw [quotedTail.eq_def]
        simp only [h34', h92', hc.1, Bool.false_eq_true, if_false, ih']

end Codec

namespace Codec
open Client Rfc5804

theorem digit_val (k : Nat) (h : k < 10) : ((48 + k).toUInt8).toNat - 48 = k ∧ B.isDigit (48 + k).toUInt8 = true := by
  have : k = 0 ∨ k = 1 ∨ k = 2 ∨ k = 3 ∨ k = 4 ∨ k = 5 ∨ k = 6 ∨ k = 7 ∨ k = 8 ∨ k = 9 := by omega
  rcases this with rfl | rfl | rfl | rfl | rfl | rfl | rfl | rfl | rfl | rfl <;> decide

theorem decToNat_snoc (ds : Bytes) (d : UInt8) : B.decToNat (ds ++ [d]) = B.decToNat ds * 10 + (d.toNat - 48) := by
  simp [B.decToNat, List.foldl_append]

/-- the digit string of `n`: non-empty, digits only, and it parses back to `n` -/
theorem decDigits_spec (fuel n : Nat) (acc : Bytes) (h : n < 10 ^ fuel) (hf : 0 < fuel) :
    ∃ ds, B.decDigits fuel n acc = ds ++ acc ∧ ds ≠ [] ∧ (∀ d ∈ ds, B.isDigit d = true) ∧ B.decToNat ds = n := by
  induction fuel generalizing n acc with
  | zero => omega
  | succ fuel ih =>
    unfold B.decDigits
    split
    · rename_i hlt
      obtain ⟨hv, hd⟩ := digit_val n hlt
      refine ⟨[(48 + n).toUInt8], by simp, by simp, ?_, ?_⟩
      · intro d hd'
        rw [List.mem_singleton.mp hd']; exact hd
      · show B.decToNat [(48 + n).toUInt8] = n
        unfold B.decToNat
        simp only [List.foldl_cons, List.foldl_nil, Nat.zero_mul, Nat.zero_add]
        exact hv
    · rename_i hge
      have hfuel : 0 < fuel := by
        cases fuel with
        | zero => simp at h; omega
        | succ k => omega
      have hdiv : n / 10 < 10 ^ fuel := by
        rw [Nat.pow_succ] at h
        omega
      obtain ⟨ds, he, hne, hall, hval⟩ := ih (n / 10) ((48 + n % 10).toUInt8 :: acc) hdiv hfuel
      obtain ⟨hv, hd⟩ := digit_val (n % 10) (Nat.mod_lt _ (by omega))
      refine ⟨ds ++ [(48 + n % 10).toUInt8], by rw [he]; simp, by simp, ?_, ?_⟩
      · intro d hd'
        rcases List.mem_append.mp hd' with h1 | h1
        · exact hall d h1
        · rw [List.mem_singleton.mp h1]; exact hd
      · rw [decToNat_snoc, hval, hv]; omega

theorem natToDec_spec (n : Nat) :
    B.natToDec n ≠ [] ∧ (∀ d ∈ B.natToDec n, B.isDigit d = true) ∧ B.decToNat (B.natToDec n) = n := by
  have hlt : n < 10 ^ (n + 1) := by
    have := Nat.lt_pow_self (n := n) (by omega : 1 < 10)
    calc n < 10 ^ n := this
      _ ≤ 10 ^ (n + 1) := Nat.pow_le_pow_right (by omega) (by omega)
  obtain ⟨ds, he, hne, hall, hval⟩ := decDigits_spec (n + 1) n [] hlt (by omega)
  unfold B.natToDec
  rw [he]; simp only [List.append_nil]
  exact ⟨hne, hall, hval⟩

theorem digitsLen_append (ds : Bytes) (c : UInt8) (rest : Bytes) (hall : ∀ d ∈ ds, B.isDigit d = true)
    (hc : B.isDigit c = false) : digitsLen (ds ++ c :: rest) = ds.length := by
  induction ds with
  | nil => simp [digitsLen, hc]
  | cons d ds ih =>
    have hd := hall d (by simp)
    simp only [List.cons_append, digitsLen, hd, if_true, List.length_cons]
    rw [ih (fun x hx => hall x (by simp [hx]))]

theorem digitsLen_all (ds : Bytes) (hall : ∀ d ∈ ds, B.isDigit d = true) : digitsLen ds = ds.length := by
  induction ds with
  | nil => simp [digitsLen]
  | cons d ds ih =>
    simp only [digitsLen, hall d (by simp), if_true, List.length_cons]
    rw [ih (fun x hx => hall x (by simp [hx]))]

/-- the strict decoder reads a client literal `{n+}` CRLF octets back as exactly those octets -/
theorem literalTail_literalOf (c rest : Bytes) :
    literalTail ((literalOf c).drop 1 ++ rest) = some (c, rest) := by
  obtain ⟨hne, hall, hval⟩ := natToDec_spec c.length
  have hshape : (literalOf c).drop 1 ++ rest = B.natToDec c.length ++ 43 :: ([125, 13, 10] ++ c ++ rest) := by
    simp [literalOf]
  rw [hshape]
  unfold literalTail
  have hk : digitsLen (B.natToDec c.length ++ 43 :: ([125, 13, 10] ++ c ++ rest)) = (B.natToDec c.length).length :=
    digitsLen_append _ 43 _ hall (by decide)
  have hpos : (B.natToDec c.length).length ≠ 0 := by
    intro h0; exact hne (List.eq_nil_of_length_eq_zero h0)
  simp only [hk]
  have hbeq : ((B.natToDec c.length).length == 0) = false := by simpa using hpos
  simp only [hbeq, Bool.false_eq_true, if_false]
  rw [List.drop_left, List.take_left, hval]
  simp

end Codec

namespace Codec
open Client Rfc5804

/-- what the caller passed, as the server should see it -/
def valueOf : WArg → SArg
  | .str a => .str a
  | .lit c => .str c
  | .num n => .num n

theorem literalOf_cons (c : Bytes) : literalOf c = 123 :: (literalOf c).drop 1 := by
  simp [literalOf]

/-- every encoded argument decodes to the caller's value; `rest` is what follows it on the wire
    (a space or the final CR — never a digit) -/
theorem arg_prepareArg (w : WArg) (rest : Bytes) (hr : ∀ c ∈ rest.head?, B.isDigit c = false) :
    arg (prepareArg w ++ rest) = some (valueOf w, rest) := by
  cases w with
  | lit c =>
    simp only [prepareArg, valueOf]
    rw [literalOf_cons, List.cons_append]
    simp only [arg]
    rw [literalTail_literalOf]
    simp
  | str a =>
    simp only [prepareArg, valueOf]
    cases hctl : hasCtl a
    · simp only [Bool.false_eq_true, if_false, quote]
      have : [34] ++ escapeQ a ++ [34] ++ rest = 34 :: (escapeQ a ++ 34 :: rest) := by simp
      rw [this]
      simp only [arg]
      rw [quotedTail_escapeQ a rest hctl]
      simp
    · simp only [if_true]
      rw [literalOf_cons, List.cons_append]
      simp only [arg]
      rw [literalTail_literalOf]
      simp
  | num n =>
    obtain ⟨hne, hall, hval⟩ := natToDec_spec n
    simp only [prepareArg, valueOf]
    cases hds : B.natToDec n with
    | nil => exact absurd hds hne
    | cons d ds =>
      have hd : B.isDigit d = true := hall d (by rw [hds]; simp)
      have hd34 : (d == 34) = false := by
        cases h : d == 34
        · rfl
        · have : d = 34 := by simpa using h
          subst this; simp [B.isDigit] at hd
      have hd123 : (d == 123) = false := by
        cases h : d == 123
        · rfl
        · have : d = 123 := by simpa using h
          subst this; simp [B.isDigit] at hd
      have hlen : digitsLen (d :: ds ++ rest) = (d :: ds).length := by
        cases rest with
        | nil =>
          rw [List.append_nil]
          exact digitsLen_all (d :: ds) (by rw [← hds]; exact hall)
        | cons r rs =>
          exact digitsLen_append (d :: ds) r rs (by rw [← hds]; exact hall) (hr r (by simp))
      simp only [List.cons_append, arg, hd34, hd123, hd, Bool.false_eq_true, if_false, if_true]
      have h2 : digitsLen (d :: (ds ++ rest)) = (d :: ds).length := by simpa using hlen
      rw [h2]
      have ht : List.take (d :: ds).length (d :: (ds ++ rest)) = d :: ds := by
        have := List.take_left (l₁ := d :: ds) (l₂ := rest)
        simpa using this
      have hdr : List.drop (d :: ds).length (d :: (ds ++ rest)) = rest := by
        have := List.drop_left (l₁ := d :: ds) (l₂ := rest)
        simpa using this
      rw [ht, hdr, ← hds, hval]

end Codec

namespace Codec
open Client Rfc5804

/-- `SP arg SP arg …` -/
def encArgs : List WArg → Bytes
  | [] => []
  | w :: ws => 32 :: (prepareArg w ++ encArgs ws)

theorem joinSp_encArgs (w : WArg) (ws : List WArg) :
    [32] ++ joinSp ((w :: ws).map prepareArg) = encArgs (w :: ws) := by
  induction ws generalizing w with
  | nil => simp [joinSp, encArgs]
  | cons v vs ih =>
    have := ih v
    simp only [List.map_cons, joinSp, encArgs] at this ⊢
    simp only [List.singleton_append, List.cons.injEq, true_and] at this ⊢
    rw [List.append_assoc, ← this]
    simp

theorem commandBytes_eq (name : Bytes) (ws : List WArg) :
    commandBytes name ws = name ++ encArgs ws ++ [13, 10] := by
  unfold commandBytes
  cases ws with
  | nil => simp [encArgs, Reader.CRLF]
  | cons w ws =>
    have := joinSp_encArgs w ws
    simp only [List.isEmpty_cons, Bool.false_eq_true, if_false, Reader.CRLF]
    rw [List.append_assoc name, this]

theorem encArgs_head (ws : List WArg) (rest : Bytes) :
    ∀ c ∈ (encArgs ws ++ 13 :: 10 :: rest).head?, B.isDigit c = false := by
  intro c hc
  cases ws with
  | nil => simp [encArgs] at hc; subst hc; decide
  | cons w ws => simp [encArgs] at hc; subst hc; decide

/-- the whole argument list decodes to the caller's values, and the decoder stops exactly at the
    end of the command line: nothing is left over, nothing is smuggled in -/
theorem args_encArgs (ws : List WArg) (rest : Bytes) (fuel : Nat) (hf : ws.length < fuel) :
    args fuel (encArgs ws ++ 13 :: 10 :: rest) = some (ws.map valueOf, rest) := by
  induction ws generalizing fuel with
  | nil =>
    cases fuel with
    | zero => omega
    | succ f => simp [encArgs, args]
  | cons w ws ih =>
    cases fuel with
    | zero => omega
    | succ f =>
      simp only [encArgs, List.cons_append, args]
      rw [List.append_assoc, arg_prepareArg w _ (encArgs_head ws rest)]
      simp only
      rw [ih f (by simp at hf; omega)]
      simp

end Codec

namespace Codec
open Client Rfc5804

theorem takeWhile_alpha (name tail : Bytes) (hn : ∀ c ∈ name, isAlpha c = true)
    (ht : ∀ c ∈ tail.head?, isAlpha c = false) :
    (name ++ tail).takeWhile isAlpha = name ∧ (name ++ tail).dropWhile isAlpha = tail := by
  induction name with
  | nil =>
    cases tail with
    | nil => simp
    | cons t ts =>
      have := ht t (by simp)
      simp [List.takeWhile, List.dropWhile, this]
  | cons c cs ih =>
    have hc := hn c (by simp)
    obtain ⟨a, b⟩ := ih (fun x hx => hn x (by simp [hx]))
    simp [List.takeWhile, List.dropWhile, hc, a, b]

/-- T-WIRE: the bytes of one `__send_command` decode, under the strict RFC 5804 decoder, to exactly
    one command with the intended verb and the caller's argument values, leaving nothing behind -/
theorem command_commandBytes (name : Bytes) (ws : List WArg) (rest : Bytes) (hne : name ≠ [])
    (hn : ∀ c ∈ name, isAlpha c = true) :
    command (commandBytes name ws ++ rest) = some (name, ws.map valueOf, rest) := by
  rw [commandBytes_eq]
  have hshape : name ++ encArgs ws ++ [13, 10] ++ rest = name ++ (encArgs ws ++ 13 :: 10 :: rest) := by simp
  rw [hshape]
  have hhead : ∀ c ∈ (encArgs ws ++ 13 :: 10 :: rest).head?, isAlpha c = false := by
    intro c hc
    cases ws with
    | nil => simp [encArgs] at hc; subst hc; decide
    | cons w ws => simp [encArgs] at hc; subst hc; decide
  obtain ⟨ht, hd⟩ := takeWhile_alpha name _ hn hhead
  unfold command
  simp only [ht, hd]
  have hemp : name.isEmpty = false := by
    cases name with
    | nil => exact absurd rfl hne
    | cons _ _ => rfl
  simp only [hemp, Bool.false_eq_true, if_false]
  have hlen : ws.length ≤ (encArgs ws).length := by
    clear hhead ht hd hshape
    induction ws with
    | nil => simp
    | cons w ws ih => simp only [encArgs, List.length_cons, List.length_append]; omega
  rw [args_encArgs ws rest _ (by simp only [List.length_append, List.length_cons]; omega)]

end Codec
