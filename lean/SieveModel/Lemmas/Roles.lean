import SieveModel.Lemmas.StackThread
import SieveModel.Lemmas.Printable
/-!
# Roles and positions in an accepted tree

`NodeR T n`: in the tree below `n`, every node's name resolves in the table; every child of a block is a
control or an action, sits under a definition that accepts children, and — if its definition says it must
follow certain commands (`elsif`, `else`) — comes directly after a sibling with one of those names; every
node in test position is a test.  `accepted_tree_roles`: every accepted parse result is such a forest.

The only condition on the table is that names identify definitions (`TableN`, decidable).
-/
namespace Roles
open Machine Args ArgsSafe

/-- a definition is found under its own name -/
def TableN (T : Table) : Prop := ∀ d ∈ T, T.byName d.name = some d
instance (T : Table) : Decidable (TableN T) := by unfold TableN; infer_instance

def isTest (T : Table) (n : Node) : Prop := ∃ d, T.byName n.name = some d ∧ d.kind = .test
def isCmd (T : Table) (n : Node) : Prop := ∃ d, T.byName n.name = some d ∧ d.kind ≠ .test

/-- `n` may come after a sibling named `prev` (`none`: it is the first) -/
def followsOk (T : Table) (prev : Option Bytes) (n : Node) : Prop :=
  ∀ d, T.byName n.name = some d → followOk d prev = true

/-- every element of a sibling list may come after its predecessor -/
def SibOK (T : Table) (l : List Node) : Prop :=
  ∀ (pre : List Node) (n : Node) (post : List Node), l = pre ++ n :: post → followsOk T (lastName pre) n

inductive NodeR (T : Table) : Node → Prop
  | mk (name : Bytes) (args extra : List Arg) (children : List Node) (comments : List Bytes) (d : CmdDef)
      (hd : T.byName name = some d)
      (hkidsK : ∀ c ∈ children, isCmd T c)
      (hkids : ∀ c ∈ children, NodeR T c)
      (hblock : children ≠ [] → d.acceptChildren = true)
      (hsib : SibOK T children)
      (hargsK : ∀ k n, Arg.test k n ∈ args ++ extra → isTest T n)
      (hargs : ∀ k n, Arg.test k n ∈ args ++ extra → NodeR T n)
      (harglK : ∀ k l, Arg.tests k l ∈ args ++ extra → ∀ n ∈ l, isTest T n)
      (hargl : ∀ k l, Arg.tests k l ∈ args ++ extra → ∀ n ∈ l, NodeR T n) :
      NodeR T (.mk name args extra children comments)

/-- a stored argument holds only tests, each a well-formed tree -/
def ArgOK (T : Table) : Arg → Prop
  | .test _ n => isTest T n ∧ NodeR T n
  | .tests _ l => ∀ n ∈ l, isTest T n ∧ NodeR T n
  | _ => True

theorem argOK_rekey (T : Table) (k : String) (a : Arg) (h : ArgOK T a) : ArgOK T (a.rekey k) := by
  cases a <;> simpa [Arg.rekey, ArgOK] using h

theorem argOK_toArg (T : Table) (v : AVal) (k : String) (h : ∀ n, v = .test n → isTest T n ∧ NodeR T n) :
    ArgOK T (v.toArg k) := by
  cases v with
  | str b => simp [AVal.toArg, ArgOK]
  | strs l => simp [AVal.toArg, ArgOK]
  | test n => simpa [AVal.toArg, ArgOK] using h n rfl

theorem SibOK.nil (T : Table) : SibOK T [] := by
  intro pre n post h
  cases pre <;> simp at h

theorem SibOK.snoc {T : Table} {l : List Node} {n : Node} (h : SibOK T l) (hn : followsOk T (lastName l) n) :
    SibOK T (l ++ [n]) := by
  intro pre m post heq
  rcases List.eq_nil_or_concat post with rfl | ⟨post', x, rfl⟩
  · have : l ++ [n] = pre ++ [m] := by simpa using heq
    have h2 := List.append_inj' this rfl
    have hm : n = m := by simpa using h2.2
    rw [← h2.1, ← hm]; exact hn
  · have : l ++ [n] = (pre ++ m :: post') ++ [x] := by simp [heq]
    have h2 := List.append_inj' this rfl
    exact h pre m post' h2.1

structure FrameR (T : Table) (f : Frame) : Prop where
  fitTest : ∀ pl, f.attach = .place pl → f.d.kind = .test
  fitCmd : (∀ pl, f.attach ≠ .place pl) → f.d.kind ≠ .test
  dfn : T.byName f.d.name = some f.d
  kids : ∀ c ∈ f.children, isCmd T c ∧ NodeR T c
  block : f.children ≠ [] → f.d.acceptChildren = true
  sib : SibOK T f.children
  args : ∀ a ∈ f.st.arguments, ArgOK T a
  extra : ∀ a ∈ f.st.extraArgs, ArgOK T a

/-- the relation between a frame (definition, attachment) and the frame below it -/
def RelR (d : CmdDef) (a : Attach) (p : Frame) : Prop :=
  a = .child → p.d.acceptChildren = true ∧ followOk d (lastName p.children) = true

/-- the bottom frame and the result list -/
def BotR (d : CmdDef) (a : Attach) (res : List Node) : Prop :=
  (∀ pl, a ≠ .place pl) ∧ followOk d (lastName res) = true

def ResR (T : Table) (res : List Node) : Prop := SibOK T res ∧ ∀ n ∈ res, isCmd T n ∧ NodeR T n

theorem FrameR.node {T : Table} {f : Frame} (h : FrameR T f) (c : List Bytes) : NodeR T (Frame.toNode f c) := by
  unfold Frame.toNode
  have hall : ∀ a ∈ f.st.arguments ++ f.st.extraArgs, ArgOK T a := by
    intro a ha
    simp only [List.mem_append] at ha
    rcases ha with ha | ha
    · exact h.args a ha
    · exact h.extra a ha
  refine .mk _ _ _ _ _ f.d h.dfn (fun c hc => (h.kids c hc).1) (fun c hc => (h.kids c hc).2) h.block h.sib ?_ ?_ ?_ ?_
  · intro k n hm; exact (hall _ hm).1
  · intro k n hm; exact (hall _ hm).2
  · intro k l hm n hn; exact (hall _ hm n hn).1
  · intro k l hm n hn; exact (hall _ hm n hn).2

theorem FrameR.fresh {T : Table} (d : CmdDef) (hd : T.byName d.name = some d) (a : Attach)
    (h1 : ∀ pl, a = .place pl → d.kind = .test) (h2 : (∀ pl, a ≠ .place pl) → d.kind ≠ .test) :
    FrameR T { d := d, attach := a } :=
  ⟨h1, h2, hd, by intro c hc; simp at hc, by intro h; simp at h, SibOK.nil T, by intro x hx; simp at hx, by intro x hx; simp at hx⟩

/-- the effect of an accepted argument on the stored arguments, for any predicate on stored arguments -/
theorem cna_mem (P : Arg → Prop) (d : CmdDef) (ld : List Bytes) (st : CState) (t : ArgType) (v : AVal) (add ce : Bool)
    (st' : CState) (pl : Placement)
    (hv : ∀ k, P (v.toArg k))
    (htl : ∀ n, v = .test n → ∀ k, P (.tests k [n]) ∧ ∀ k' ts, P (.tests k' ts) → P (.tests k (ts ++ [n])))
    (hargs : ∀ x ∈ st.arguments, P x) (hext : ∀ x ∈ st.extraArgs, P x)
    (h : checkNextArg d ld st t v add ce = .ok (some (st', pl))) :
    (∀ x ∈ st'.arguments, P x) ∧ (∀ x ∈ st'.extraArgs, P x) := by
  have hset : ∀ (l : List Arg) (k : String), (∀ x ∈ l, P x) → ∀ x ∈ setArg add l (v.toArg k), P x := by
    intro l k hl x hx
    rcases Printable.mem_setArg add l _ x hx with h1 | h1
    · exact hl x h1
    · rw [h1]; exact hv k
  obtain ⟨_, hc⟩ := Safe.checkNextArg_cases d ld st t v add ce st' pl h
  rcases hc with ⟨c, e, _, _, hst, _⟩ | ⟨_, hscan⟩
  · subst hst
    exact ⟨hargs, hset _ _ hext⟩
  · rcases Safe.scan_cases d.name ld ce add t v st _ _ st' pl hscan with ⟨h1, _, _⟩ | ⟨pre, a, post, _, _, hit⟩
    · subst h1; exact ⟨hargs, hext⟩
    · cases hit with
      | testlistAdd hr ht htt hadd args happ hst hpl =>
        subst hst
        refine ⟨?_, hext⟩
        cases v with
        | str b => simp [appendTest] at happ
        | strs l => simp [appendTest] at happ
        | test n =>
          have hn := htl n rfl a.name
          simp only [appendTest] at happ
          split at happ
          · rename_i k' ts hget
            simp at happ
            subst happ
            intro x hx
            rcases Printable.mem_assocSet _ _ x hx with h1 | h1
            · exact hargs x h1
            · rw [h1]
              have hmem : Arg.tests k' ts ∈ st.arguments := by
                unfold assocGet at hget
                exact List.mem_of_find?_eq_some hget
              exact hn.2 k' ts (hargs _ hmem)
          · simp at happ
          · simp at happ
            subst happ
            intro x hx
            simp only [List.mem_append, List.mem_singleton] at hx
            rcases hx with h1 | h1
            · exact hargs x h1
            · rw [h1]; exact hn.1
      | testlistSkip hr ht htt hadd hst hpl => subst hst; exact ⟨hargs, hext⟩
      | required hr ht hvt hres =>
        unfold takeRequired at hres
        simp only [Prod.mk.injEq] at hres
        rw [hres.1]
        exact ⟨hset _ _ hargs, hext⟩
      | optional hr ht hres =>
        unfold takeOptional at hres
        split at hres
        · simp at hres
        · split at hres
          · simp at hres
          · simp only [Except.ok.injEq, Prod.mk.injEq] at hres
            rw [← hres.1]
            exact ⟨hset _ _ hargs, hext⟩

theorem FrameR.withSt {T : Table} {f : Frame} (h : FrameR T f) (st' : CState)
    (ha : ∀ a ∈ st'.arguments, ArgOK T a) (he : ∀ a ∈ st'.extraArgs, ArgOK T a) : FrameR T { f with st := st' } :=
  ⟨h.fitTest, h.fitCmd, h.dfn, h.kids, h.block, h.sib, ha, he⟩

theorem placeholder {T : Table} (hT : TableN T) (d : CmdDef) (hd : d ∈ T) (hk : d.kind = .test) :
    isTest T (.mk d.name [] [] [] []) ∧ NodeR T (.mk d.name [] [] [] []) := by
  refine ⟨⟨d, hT d hd, hk⟩, .mk _ _ _ _ _ d (hT d hd) ?_ ?_ ?_ (SibOK.nil T) ?_ ?_ ?_ ?_⟩
  · intro c hc; simp at hc
  · intro c hc; simp at hc
  · intro h; simp at h
  · intro k n h; simp at h
  · intro k n h; simp at h
  · intro k l h; simp at h
  · intro k l h; simp at h

theorem plug_R {T : Table} (p f : Frame) (hp : FrameR T p) (hf : FrameR T f) (hr : RelR f.d f.attach p) :
    FrameR T (plug p f.attach (Frame.toNode f)) := by
  have hnode : NodeR T (Frame.toNode f) := hf.node []
  have hname : (Frame.toNode f).name = f.d.name := rfl
  unfold plug
  split
  · exact hp
  · rename_i hat
    have hcmd : isCmd T (Frame.toNode f) :=
      ⟨f.d, by rw [hname]; exact hf.dfn, hf.fitCmd (by intro pl h; rw [hat] at h; cases h)⟩
    obtain ⟨hacc, hfol⟩ := hr hat
    refine ⟨hp.fitTest, hp.fitCmd, hp.dfn, ?_, fun _ => hacc, ?_, hp.args, hp.extra⟩
    · intro c hc
      simp only [List.mem_append, List.mem_singleton] at hc
      rcases hc with hc | rfl
      · exact hp.kids c hc
      · exact ⟨hcmd, hnode⟩
    · apply hp.sib.snoc
      intro d' hd'
      rw [hname, hf.dfn] at hd'
      cases hd'
      exact hfol
  · exact hp
  · rename_i k hat
    have htest : isTest T (Frame.toNode f) := ⟨f.d, by rw [hname]; exact hf.dfn, hf.fitTest _ hat⟩
    apply hp.withSt
    · intro a ha
      rcases Printable.mem_assocSet _ _ a ha with h1 | h1
      · exact hp.args a h1
      · rw [h1]; exact ⟨htest, hnode⟩
    · exact hp.extra
  · rename_i k hat
    have htest : isTest T (Frame.toNode f) := ⟨f.d, by rw [hname]; exact hf.dfn, hf.fitTest _ hat⟩
    apply hp.withSt
    · exact hp.args
    · intro a ha
      rcases Printable.mem_assocSet _ _ a ha with h1 | h1
      · exact hp.extra a h1
      · rw [h1]; exact ⟨htest, hnode⟩
  · rename_i k hat
    have htest : isTest T (Frame.toNode f) := ⟨f.d, by rw [hname]; exact hf.dfn, hf.fitTest _ hat⟩
    split
    · rename_i k' ts hget
      have hmem : Arg.tests k' ts ∈ p.st.arguments := by
        unfold assocGet at hget
        exact List.mem_of_find?_eq_some hget
      apply hp.withSt
      · intro a ha
        rcases Printable.mem_assocSet _ _ a ha with h1 | h1
        · exact hp.args a h1
        · rw [h1]
          intro n hn
          rcases Printable.mem_replaceLast ts _ n hn with h2 | h2
          · exact hp.args _ hmem n h2
          · rw [h2]; exact ⟨htest, hnode⟩
      · exact hp.extra
    · exact hp

theorem reassign_R {T : Table} (f f' : Frame) (hf : FrameR T f) (h : reassign f = some f') : FrameR T f' := by
  unfold reassign at h
  split at h
  · split at h
    · rename_i a hget
      split at h
      · simp at h
      · simp at h
        subst h
        have hmem : a ∈ f.st.arguments := by
          unfold assocGet at hget
          exact List.mem_of_find?_eq_some hget
        refine ⟨hf.fitTest, hf.fitCmd, hf.dfn, hf.kids, hf.block, hf.sib, ?_, hf.extra⟩
        intro x hx
        simp only [List.mem_append, List.mem_singleton] at hx
        rcases hx with hx | rfl
        · unfold assocErase at hx
          exact hf.args x (List.mem_filter.mp hx).1
        · exact argOK_rekey T _ a (hf.args a hmem)
    · simp at h
  · simp at h

/-- the role / position facts are closed under the ways the machine builds frames -/
theorem closed {T : Table} (hT : TableN T) :
    StackThread.Closed T (FrameR T) RelR BotR (ResR T) where
  nil := ⟨SibOK.nil T, by intro n hn; simp at hn⟩
  pushTop := by
    intro d hd res _ hk hfo
    exact ⟨FrameR.fresh d (hT d hd) .top (by intro pl h; cases h) (fun _ => hk), ⟨(by intro pl h; cases h), hfo⟩⟩
  pushChild := by
    intro d hd f _ hk hac hfo
    exact ⟨FrameR.fresh d (hT d hd) .child (by intro pl h; cases h) (fun _ => hk), fun _ => ⟨hac, hfo⟩⟩
  pushTest := by
    intro d hd f ld st' pl hf hk hcna
    have hph := placeholder hT d hd hk
    have hP : ∀ n, AVal.test (Node.mk d.name [] [] [] []) = .test n → isTest T n ∧ NodeR T n := by
      intro n hn; injection hn with hn; subst hn; exact hph
    have := cna_mem (ArgOK T) f.d ld f.st .test _ true true st' pl
      (fun k => argOK_toArg T _ k hP)
      (by
        intro n hn k
        have hn' := hP n hn
        refine ⟨?_, ?_⟩
        · intro m hm; simp at hm; subst hm; exact hn'
        · intro k' ts hts m hm
          simp only [List.mem_append, List.mem_singleton] at hm
          rcases hm with hm | rfl
          · exact hts m hm
          · exact hn')
      hf.args hf.extra hcna
    refine ⟨hf.withSt st' this.1 this.2, ?_, ?_⟩
    · exact FrameR.fresh d (hT d hd) (.place pl) (fun _ _ => hk) (by intro h; exact absurd rfl (h pl))
    · intro h; cases h
  value := by
    intro f ld t v st' pl hf _ hn hcna
    have := cna_mem (ArgOK T) f.d ld f.st t v true true st' pl
      (fun k => argOK_toArg T _ k (fun n h => absurd h (hn n)))
      (fun n h => absurd h (hn n)) hf.args hf.extra hcna
    exact hf.withSt st' this.1 this.2
  dry := by
    intro f ld n st' pl hf hcna
    -- nothing is stored when `add` is off
    have hsame : st'.arguments = f.st.arguments ∧ st'.extraArgs = f.st.extraArgs := by
      obtain ⟨_, hc⟩ := Safe.checkNextArg_cases f.d ld f.st .test (.test n) false true st' pl hcna
      rcases hc with ⟨c, e, _, _, hst, _⟩ | ⟨_, hscan⟩
      · subst hst; exact ⟨rfl, by simp [setArg]⟩
      · rcases Safe.scan_cases f.d.name ld true false .test (.test n) f.st _ _ st' pl hscan with ⟨h1, _, _⟩ | ⟨pre, a, post, _, _, hit⟩
        · subst h1; exact ⟨rfl, rfl⟩
        · cases hit with
          | testlistAdd hr ht htt hadd args happ hst hpl => cases hadd
          | testlistSkip hr ht htt hadd hst hpl => subst hst; exact ⟨rfl, rfl⟩
          | required hr ht hvt hres =>
            unfold takeRequired at hres
            simp only [Prod.mk.injEq] at hres
            rw [hres.1]; exact ⟨by simp [setArg], rfl⟩
          | optional hr ht hres =>
            unfold takeOptional at hres
            split at hres
            · simp at hres
            · split at hres
              · simp at hres
              · simp only [Except.ok.injEq, Prod.mk.injEq] at hres
                rw [← hres.1]; exact ⟨by simp [setArg], rfl⟩
    exact hf.withSt st' (by rw [hsame.1]; exact hf.args) (by rw [hsame.2]; exact hf.extra)
  plug := fun p f hp hf hr => plug_R p f hp hf hr
  reassign := fun f f' hf h => reassign_R f f' hf h
  record := by
    intro f res c hf hb hres
    have hname : (Frame.toNode f c).name = f.d.name := rfl
    refine ⟨hres.1.snoc ?_, ?_⟩
    · intro d' hd'
      rw [hname, hf.dfn] at hd'
      cases hd'
      exact hb.2
    · intro n hn
      simp only [List.mem_append, List.mem_singleton] at hn
      rcases hn with hn | rfl
      · exact hres.2 n hn
      · exact ⟨⟨f.d, by rw [hname]; exact hf.dfn, hf.fitCmd hb.1⟩, hf.node c⟩

/-- **every accepted script has its commands and tests in their roles and positions** -/
theorem accepted_tree_roles {T : Table} (hT : TableN T) (text : Bytes) (prev : PState) (r : List Node)
    (h : parse T text prev = .accept r) : SibOK T r ∧ ∀ n ∈ r, isCmd T n ∧ NodeR T n :=
  StackThread.accepted_result (closed hT) text prev r h

end Roles
