import SieveModel.Lemmas.SerLemmas
import SieveModel.Lemmas.Safe
/-!
# Every tree the parser builds can be printed (`tosieve` does not raise)

`FrameP T f`: the node a stack frame would become is printable.  Kept by every parser step for tables
satisfying the decidable condition `TableP`.
-/
namespace Printable
open Machine Args

def NodeP (T : Table) (n : Node) : Prop := ∀ i, Ser.node T i n ≠ none
def ArgP (T : Table) (d : CmdDef) (e : Bool) (a : Arg) : Prop := ∀ i, Ser.renderArg T i d e a ≠ none

/-- per-slot condition: the slot is found under its own name; a slot that takes string lists is neither a
    tag slot nor a test-list slot -/
def slotP (d : CmdDef) (a : ArgDef) : Bool :=
  (Ser.slotOf d a.name == some a) &&
  (!decide (ArgType.stringlist ∈ a.types) || (!decide (ArgType.tag ∈ a.types) && a.types != [.testlist]))

def flagSlotP (d : CmdDef) : Bool :=
  (match Ser.slotOf d "variable-list" with
   | some s => s.types != [.testlist]
   | none => false) &&
  (match Ser.slotOf d "list-of-flags" with
   | some s => !decide (ArgType.tag ∈ s.types) && s.types != [.testlist]
   | none => true)

def defP (T : Table) (d : CmdDef) : Bool :=
  (T.byName d.name == some d) && d.args.all (slotP d) && (d.special != .hasflag || flagSlotP d)

def TableP (T : Table) : Prop := ∀ d ∈ T, defP T d = true
instance (T : Table) : Decidable (TableP T) := by unfold TableP; infer_instance

structure FrameP (T : Table) (f : Frame) : Prop where
  dfn : defP T f.d = true
  cur : ∀ c, f.st.curarg = some c → c ∈ f.d.args
  args : ∀ a ∈ f.st.arguments, ArgP T f.d false a
  extra : ∀ a ∈ f.st.extraArgs, ArgP T f.d true a
  kids : ∀ n ∈ f.children, NodeP T n

theorem defP_byName {T : Table} {d : CmdDef} (h : defP T d = true) : T.byName d.name = some d := by
  simp only [defP, Bool.and_eq_true, beq_iff_eq] at h; exact h.1.1

theorem defP_slot {T : Table} {d : CmdDef} (h : defP T d = true) (a : ArgDef) (ha : a ∈ d.args) :
    Ser.slotOf d a.name = some a ∧
    (ArgType.stringlist ∈ a.types → ArgType.tag ∉ a.types ∧ a.types ≠ [.testlist]) := by
  simp only [defP, Bool.and_eq_true, List.all_eq_true] at h
  have := h.1.2 a ha
  simp only [slotP, Bool.and_eq_true, beq_iff_eq, Bool.or_eq_true, Bool.not_eq_true', decide_eq_false_iff_not,
    decide_eq_true_eq, bne_iff_ne, ne_eq] at this
  refine ⟨this.1, ?_⟩
  intro hs
  rcases this.2 with h1 | h1
  · exact absurd hs h1
  · exact h1

/-- the node a printable frame becomes is printable -/
theorem FrameP.node {T : Table} {f : Frame} (h : FrameP T f) (c : List Bytes) : NodeP T (Frame.toNode f c) := by
  intro i
  unfold Frame.toNode
  rw [Ser.node, defP_byName h.dfn]
  simp only
  have h1 : Ser.renderArgs T i f.d false f.st.arguments ≠ none :=
    (Ser.renderArgs_some_iff T i f.d false _).mpr (fun a ha => h.args a ha i)
  have h2 : Ser.renderArgs T i f.d true f.st.extraArgs ≠ none :=
    (Ser.renderArgs_some_iff T i f.d true _).mpr (fun a ha => h.extra a ha i)
  cases hr1 : Ser.renderArgs T i f.d false f.st.arguments with
  | none => exact absurd hr1 h1
  | some ra =>
    cases hr2 : Ser.renderArgs T i f.d true f.st.extraArgs with
    | none => exact absurd hr2 h2
    | some re =>
      simp only
      split
      · simp
      · split
        · simp
        · have h3 : Ser.nodes T (i + 4) f.children ≠ none :=
            (Ser.nodes_some_iff T (i + 4) _).mpr (fun n hn => h.kids n hn (i + 4))
          cases hr3 : Ser.nodes T (i + 4) f.children with
          | none => exact absurd hr3 h3
          | some body => simp

theorem FrameP.fresh {T : Table} (d : CmdDef) (hd : defP T d = true) (a : Attach) : FrameP T { d := d, attach := a } :=
  ⟨hd, by intro c h; simp at h, by intro x hx; simp at hx, by intro x hx; simp at hx, by intro x hx; simp at hx⟩

theorem mem_assocSet (l : List Arg) (a x : Arg) (h : x ∈ assocSet l a) : x ∈ l ∨ x = a := by
  unfold assocSet at h
  split at h
  · simp only [List.mem_map] at h
    obtain ⟨y, hy, rfl⟩ := h
    split
    · exact Or.inr rfl
    · exact Or.inl hy
  · simp only [List.mem_append, List.mem_singleton] at h
    exact h

theorem mem_setArg (add : Bool) (l : List Arg) (a x : Arg) (h : x ∈ setArg add l a) : x ∈ l ∨ x = a := by
  unfold setArg at h
  split at h
  · exact mem_assocSet l a x h
  · exact Or.inl h

/-- a plain value stored under the name of the slot that accepted it -/
theorem argP_value {T : Table} {d : CmdDef} (hd : defP T d = true) (a : ArgDef) (ha : a ∈ d.args)
    (v : AVal) (hstr : ∀ l, v = .strs l → ArgType.stringlist ∈ a.types) (hn : ∀ n, v = .test n → NodeP T n) :
    ArgP T d false (v.toArg a.name) := by
  intro i
  obtain ⟨hslot, hsl⟩ := defP_slot hd a ha
  cases v with
  | str raw =>
    simp only [AVal.toArg, Ser.renderArg, hslot, Bool.false_eq_true, if_false]
    split <;> simp
  | strs l =>
    obtain ⟨h1, h2⟩ := hsl (hstr l rfl)
    simp only [AVal.toArg, Ser.renderArg, hslot]
    have : (decide (ArgType.tag ∈ a.types) || a.types == [.testlist]) = false := by simp [h1, h2]
    simp [this]
  | test n =>
    simp only [AVal.toArg, Ser.renderArg]
    have := hn n rfl i
    cases hnn : Ser.node T i n with
    | none => exact absurd hnn this
    | some b => simp

/-- a tag parameter stored under the name of the pending slot -/
theorem argP_extra {T : Table} {d : CmdDef} (hd : defP T d = true) (c : ArgDef) (hc : c ∈ d.args) (e : ExtraDef)
    (hce : c.extra = some e) (v : AVal) (hn : ∀ n, v = .test n → NodeP T n) : ArgP T d true (v.toArg c.name) := by
  intro i
  obtain ⟨hslot, _⟩ := defP_slot hd c hc
  cases v with
  | str raw => simp [AVal.toArg, Ser.renderArg, hslot, hce]
  | strs l => simp [AVal.toArg, Ser.renderArg, hslot]
  | test n =>
    simp only [AVal.toArg, Ser.renderArg]
    have := hn n rfl i
    cases hnn : Ser.node T i n with
    | none => exact absurd hnn this
    | some b => simp

end Printable

namespace Printable
open Machine Args ArgsSafe

theorem consistent_strs_type (t : ArgType) (l : List Bytes) (h : Consistent t (.strs l)) : t = .stringlist := by
  cases t <;> simp [Consistent] at h <;> rfl

theorem testsOut_of_argP {T : Table} {d : CmdDef} (a : ArgDef) (hslot : Ser.slotOf d a.name = some a)
    (ht : a.types = [.testlist]) (k : String) (hk : (k == a.name) = true) (ts : List Node)
    (h : ArgP T d false (.tests k ts)) : ∀ m ∈ ts, Ser.node T 0 m ≠ none := by
  have hk' : k = a.name := by simpa using hk
  subst hk'
  have := h 0
  simp only [Ser.renderArg, hslot, ht, beq_self_eq_true, if_true] at this
  apply (Ser.testsOut_some_iff T ts).mp
  intro hn
  rw [hn] at this
  simp at this

theorem argP_tests {T : Table} {d : CmdDef} (a : ArgDef) (hslot : Ser.slotOf d a.name = some a)
    (ht : a.types = [.testlist]) (ts : List Node) (h : ∀ m ∈ ts, Ser.node T 0 m ≠ none) :
    ArgP T d false (.tests a.name ts) := by
  intro i
  simp only [Ser.renderArg, hslot, ht, beq_self_eq_true, if_true]
  have := (Ser.testsOut_some_iff T ts).mpr h
  cases hto : Ser.testsOut T ts with
  | none => exact absurd hto this
  | some b => simp

/-- `check_next_arg` keeps the frame printable -/
theorem checkNextArg_P {T : Table} (f : Frame) (hf : FrameP T f) (ld : List Bytes) (t : ArgType) (v : AVal)
    (add ce : Bool) (hc : Consistent t v) (hn : ∀ n, v = .test n → NodeP T n) (st' : CState) (pl : Placement)
    (h : checkNextArg f.d ld f.st t v add ce = .ok (some (st', pl))) : FrameP T { f with st := st' } := by
  obtain ⟨_, hcase⟩ := Safe.checkNextArg_cases f.d ld f.st t v add ce st' pl h
  rcases hcase with ⟨c, e, hp, _, hst, _⟩ | ⟨_, hs⟩
  · obtain ⟨hcur, hce⟩ := Safe.pendingExtra_some f.st c e hp
    subst hst
    refine ⟨hf.dfn, by intro c' h'; simp at h', hf.args, ?_, hf.kids⟩
    intro x hx
    rcases mem_setArg _ _ _ _ hx with h1 | h1
    · exact hf.extra x h1
    · subst h1; exact argP_extra hf.dfn c (hf.cur c hcur) e hce v hn
  · rcases Safe.scan_cases f.d.name ld ce add t v f.st _ _ st' pl hs with ⟨h1, _, _⟩ | ⟨pre, a, post, hsplit, _, hit⟩
    · subst h1; exact ⟨hf.dfn, hf.cur, hf.args, hf.extra, hf.kids⟩
    · have hmem : a ∈ f.d.args := List.mem_of_mem_drop (by rw [hsplit]; simp)
      obtain ⟨hslot, _⟩ := defP_slot hf.dfn a hmem
      cases hit with
      | testlistAdd hr ht htt hadd args happ hst hpl =>
        subst hst
        subst htt
        obtain ⟨n, rfl⟩ := consistent_test v hc
        have hnn : Ser.node T 0 n ≠ none := hn n rfl 0
        refine ⟨hf.dfn, hf.cur, ?_, hf.extra, hf.kids⟩
        simp only
        unfold appendTest at happ
        simp only at happ
        cases hget : assocGet f.st.arguments a.name with
        | none =>
          rw [hget] at happ
          simp at happ
          subst happ
          intro x hx
          simp only [List.mem_append, List.mem_singleton] at hx
          rcases hx with hx | rfl
          · exact hf.args x hx
          · exact argP_tests a hslot ht [n] (by intro m hm; simp at hm; subst hm; exact hnn)
        | some old =>
          rw [hget] at happ
          cases old with
          | tests k0 ts =>
            simp at happ
            subst happ
            have hfound := List.find?_some hget
            have hin := List.mem_of_find?_eq_some hget
            have hold := testsOut_of_argP a hslot ht k0 (by simpa [Arg.key] using hfound) ts (hf.args _ hin)
            intro x hx
            rcases mem_assocSet _ _ _ hx with h1 | h1
            · exact hf.args x h1
            · subst h1
              apply argP_tests a hslot ht
              intro m hm
              simp only [List.mem_append, List.mem_singleton] at hm
              rcases hm with hm | rfl
              · exact hold m hm
              · exact hnn
          | str _ _ => simp at happ
          | strs _ _ => simp at happ
          | test _ _ => simp at happ
      | testlistSkip hr ht htt hadd hst hpl =>
        subst hst; exact ⟨hf.dfn, hf.cur, hf.args, hf.extra, hf.kids⟩
      | required hr ht hv hres =>
        simp only [takeRequired, Prod.mk.injEq] at hres
        obtain ⟨hst, _⟩ := hres
        subst hst
        refine ⟨hf.dfn, by intro c' h'; simp at h'; subst h'; exact hmem, ?_, hf.extra, hf.kids⟩
        intro x hx
        rcases mem_setArg _ _ _ _ hx with h1 | h1
        · exact hf.args x h1
        · subst h1
          apply argP_value hf.dfn a hmem v _ hn
          intro l hl
          subst hl
          have := consistent_strs_type t l hc
          subst this
          simpa [validType] using hv
      | optional hr ht hres =>
        unfold takeOptional at hres
        split at hres
        · simp at hres
        · split at hres
          · simp at hres
          · simp only [Except.ok.injEq, Prod.mk.injEq] at hres
            obtain ⟨hst, _⟩ := hres
            subst hst
            refine ⟨hf.dfn, ?_, ?_, hf.extra, hf.kids⟩
            · intro c' h'
              simp only at h'
              split at h'
              · simp at h'; subst h'; exact hmem
              · exact hf.cur c' h'
            · intro x hx
              rcases mem_setArg _ _ _ _ hx with h1 | h1
              · exact hf.args x h1
              · subst h1
                apply argP_value hf.dfn a hmem v _ hn
                intro l hl
                subst hl
                have := consistent_strs_type t l hc
                subst this
                exact ht

end Printable

namespace Printable
open Machine Args ArgsSafe

theorem mem_replaceLast (l : List Node) (n x : Node) (h : x ∈ replaceLast l n) : x ∈ l ∨ x = n := by
  unfold replaceLast at h
  split at h
  · simp at h; exact Or.inr h
  · rename_i y r hr
    simp only [List.mem_reverse, List.mem_cons] at h
    rcases h with h | h
    · exact Or.inr h
    · left
      have : x ∈ l.reverse := by rw [hr]; simp [h]
      simpa using this

theorem argP_test {T : Table} {d : CmdDef} (e : Bool) (k : String) (n : Node) (hn : NodeP T n) : ArgP T d e (.test k n) := by
  intro i
  simp only [Ser.renderArg]
  cases hnn : Ser.node T i n with
  | none => exact absurd hnn (hn i)
  | some b => simp

/-- plugging a finished, printable node into its parent keeps the parent printable -/
theorem plug_P {T : Table} (p : Frame) (a : Attach) (n : Node) (hp : FrameP T p) (hn : NodeP T n) :
    FrameP T (plug p a n) := by
  unfold plug
  split
  · exact hp
  · refine ⟨hp.dfn, hp.cur, hp.args, hp.extra, ?_⟩
    intro x hx
    simp only [List.mem_append, List.mem_singleton] at hx
    rcases hx with hx | rfl
    · exact hp.kids x hx
    · exact hn
  · exact hp
  · rename_i k
    refine ⟨hp.dfn, hp.cur, ?_, hp.extra, hp.kids⟩
    intro x hx
    rcases mem_assocSet _ _ _ hx with h1 | h1
    · exact hp.args x h1
    · subst h1; exact argP_test false k n hn
  · rename_i k
    refine ⟨hp.dfn, hp.cur, hp.args, ?_, hp.kids⟩
    intro x hx
    rcases mem_assocSet _ _ _ hx with h1 | h1
    · exact hp.extra x h1
    · subst h1; exact argP_test true k n hn
  · rename_i k
    split
    · rename_i k0 ts hget
      refine ⟨hp.dfn, hp.cur, ?_, hp.extra, hp.kids⟩
      intro x hx
      rcases mem_assocSet _ _ _ hx with h1 | h1
      · exact hp.args x h1
      · subst h1
        have hfound := List.find?_some hget
        have hin := List.mem_of_find?_eq_some hget
        have hk0 : k0 = k := by simpa [Arg.key] using hfound
        subst hk0
        have hold := hp.args _ hin
        intro i
        have ho := hold i
        simp only [Ser.renderArg] at ho ⊢
        cases hs : Ser.slotOf p.d k0 with
        | none => simp
        | some slot =>
          rw [hs] at ho
          simp only at ho ⊢
          by_cases ht : (slot.types == [.testlist]) = true
          · simp only [ht, if_true] at ho ⊢
            have hts : ∀ m ∈ ts, Ser.node T 0 m ≠ none := by
              apply (Ser.testsOut_some_iff T ts).mp
              intro hnone; rw [hnone] at ho; simp at ho
            have : Ser.testsOut T (replaceLast ts n) ≠ none := by
              apply (Ser.testsOut_some_iff T _).mpr
              intro m hm
              rcases mem_replaceLast ts n m hm with h1 | h1
              · exact hts m h1
              · subst h1; exact hn 0
            cases hto : Ser.testsOut T (replaceLast ts n) with
            | none => exact absurd hto this
            | some b => simp
          · simp [ht] at ho
    · exact hp

/-- `reassign_arguments` keeps the frame printable -/
theorem reassign_P {T : Table} (f f' : Frame) (hf : FrameP T f) (h : reassign f = some f') : FrameP T f' := by
  unfold reassign at h
  split at h
  · rename_i hsp
    split at h
    · rename_i a hget
      split at h
      · simp at h
      · simp only [Option.some.injEq] at h
        subst h
        have hflag : flagSlotP f.d = true := by
          have := hf.dfn
          simp only [defP, Bool.and_eq_true, Bool.or_eq_true, bne_iff_ne, ne_eq] at this
          rcases this.2 with h1 | h1
          · exact absurd hsp h1
          · exact h1
        have hfound := List.find?_some hget
        have hin := List.mem_of_find?_eq_some hget
        have hka : a.key = "variable-list" := by simpa using hfound
        refine ⟨hf.dfn, hf.cur, ?_, hf.extra, hf.kids⟩
        intro x hx
        simp only [List.mem_append, List.mem_singleton] at hx
        rcases hx with hx | rfl
        · exact hf.args x (by unfold assocErase at hx; exact (List.mem_filter.mp hx).1)
        · have hold := hf.args a hin
          simp only [flagSlotP, Bool.and_eq_true] at hflag
          cases a with
          | str k v =>
            intro i
            simp only [Arg.rekey, Ser.renderArg]
            split
            · simp
            · simp only [Bool.false_eq_true, if_false]; split <;> simp
          | strs k l =>
            intro i
            simp only [Arg.rekey, Ser.renderArg]
            cases hs : Ser.slotOf f.d "list-of-flags" with
            | none => simp
            | some s =>
              have h2 := hflag.2
              rw [hs] at h2
              simp only [Bool.and_eq_true, Bool.not_eq_true', decide_eq_false_iff_not, bne_iff_ne, ne_eq] at h2
              have : (decide (ArgType.tag ∈ s.types) || s.types == [.testlist]) = false := by simp [h2.1, h2.2]
              simp [this]
          | test k n =>
            have hnp : NodeP T n := by
              intro i
              have := hold i
              simp only [Ser.renderArg] at this
              intro hnone; rw [hnone] at this; simp at this
            exact argP_test false _ n hnp
          | tests k l =>
            exfalso
            have hk : k = "variable-list" := hka
            subst hk
            have h1 := hflag.1
            have ho := hold 0
            simp only [Ser.renderArg] at ho
            cases hs : Ser.slotOf f.d "variable-list" with
            | none => rw [hs] at h1; simp at h1
            | some s =>
              rw [hs] at h1 ho
              simp only [bne_iff_ne, ne_eq] at h1
              have : (s.types == [.testlist]) = false := by simpa using h1
              simp [this] at ho
    · simp at h
  · simp at h

end Printable

namespace Printable
open Machine Args ArgsSafe

/-- every frame of the stack and every finished top-level command is printable -/
def SP (T : Table) (s : PState) : Prop := (∀ f ∈ s.stack, FrameP T f) ∧ (∀ n ∈ s.result, NodeP T n)

def KeepsP (T : Table) (r : FnResult) : Prop :=
  match r with
  | .ret _ s' _ => SP T s'
  | _ => True

theorem keepsP_ofCmdErr (T : Table) (rew : Bool) (e : CmdErr) : KeepsP T (ofCmdErr rew e) := by
  cases e <;> trivial

theorem SP.fields {T : Table} {s s' : PState} (h : SP T s) (h1 : s'.stack = s.stack) (h2 : s'.result = s.result) : SP T s' :=
  ⟨by rw [h1]; exact h.1, by rw [h2]; exact h.2⟩

theorem withTop_P {T : Table} (s : PState) (f f' : Frame) (rest : List Frame) (hs : s.stack = f :: rest) (h : SP T s)
    (hf : FrameP T f') : SP T (withTop s f') := by
  unfold withTop
  rw [hs]
  refine ⟨?_, h.2⟩
  intro g hg
  simp only [List.mem_cons] at hg
  rcases hg with rfl | hg
  · exact hf
  · exact h.1 g (by rw [hs]; simp [hg])

theorem curCheck_P {T : Table} (s : PState) (h : SP T s) (t : ArgType) (v : AVal) (hc : Consistent t v)
    (hn : ∀ n, v = .test n → NodeP T n) (b : Bool) (s' : PState) (pl : Placement)
    (hcc : curCheck s t v = .ok (b, s', pl)) : SP T s' := by
  unfold curCheck at hcc
  split at hcc
  · simp at hcc
  · rename_i f rest hst
    split at hcc
    · simp at hcc
    · simp at hcc; rw [← hcc.2.1]; exact h
    · rename_i st' pl' hcna
      simp at hcc
      rw [← hcc.2.1]
      exact withTop_P s f _ rest hst h (checkNextArg_P f (h.1 f (by rw [hst]; simp)) s.loaded t v true true hc hn st' pl' hcna)

theorem upLoop_P {T : Table} (f : Frame) (rest : List Frame) (hf : FrameP T f) (hr : ∀ g ∈ rest, FrameP T g) :
    ∀ g ∈ (upLoop f rest).1, FrameP T g := by
  induction rest generalizing f with
  | nil => intro g hg; simp [upLoop] at hg
  | cons p r ih =>
    have hp' : FrameP T (plug p f.attach (Frame.toNode f)) := plug_P p _ _ (hr p (by simp)) (hf.node [])
    have hr' : ∀ g ∈ r, FrameP T g := fun g hg => hr g (by simp [hg])
    unfold upLoop
    simp only
    split
    · exact ih _ hp' hr'
    · intro g hg
      simp only [List.mem_cons] at hg
      rcases hg with rfl | hg
      · exact hp'
      · exact hr' g hg

theorem up_P {T : Table} (s s' : PState) (h : SP T s) (hu : up s = .ok s') : SP T s' := by
  unfold up at hu
  split at hu
  · simp at hu
  · rename_i f rest hst
    simp at hu
    rw [← hu]
    have hf : FrameP T f := h.1 f (by rw [hst]; simp)
    have hr : ∀ g ∈ rest, FrameP T g := fun g hg => h.1 g (by rw [hst]; simp [hg])
    refine ⟨upLoop_P f rest hf hr, ?_⟩
    simp only
    unfold record
    split
    · intro n hn
      simp only [List.mem_append, List.mem_singleton] at hn
      rcases hn with hn | rfl
      · exact h.2 n hn
      · exact hf.node _
    · exact h.2

theorem complLoop_P {T : Table} (ld : List Bytes) (f : Frame) (rest : List Frame) (hf : FrameP T f)
    (hr : ∀ g ∈ rest, FrameP T g) (o : ComplOut) (h : complLoop ld f rest = .ok o) : ∀ g ∈ o.stack, FrameP T g := by
  induction rest generalizing f with
  | nil =>
    simp [complLoop] at h
    subst h
    intro g hg; simp at hg; subst hg; exact hf
  | cons p r ih =>
    have hp' : FrameP T (plug p f.attach (Frame.toNode f)) := plug_P p _ _ (hr p (by simp)) (hf.node [])
    have hr' : ∀ g ∈ r, FrameP T g := fun g hg => hr g (by simp [hg])
    have stop : ∀ (q : Frame), FrameP T q → ∀ g ∈ q :: r, FrameP T g := by
      intro q hq g hg
      simp only [List.mem_cons] at hg
      rcases hg with rfl | hg
      · exact hq
      · exact hr' g hg
    unfold complLoop at h
    simp only at h
    split at h
    · split at h
      · split at h
        · simp at h; subst h; exact stop _ hp'
        · exact ih _ hp' hr' h
      · split at h
        · simp at h
        · simp at h; subst h; exact stop _ hp'
        · rename_i st' pl hcna
          have hp'' : FrameP T { plug p f.attach (Frame.toNode f) with st := st' } :=
            checkNextArg_P _ hp' ld .test _ false true (by simp [Consistent]) (by intro n hn; injection hn with hn; subst hn; exact hf.node []) st' pl hcna
          split at h
          · simp at h; subst h; exact stop _ hp''
          · exact ih _ hp'' hr' h
    · exact ih _ hp' hr' h

theorem completion_P {T : Table} (s : PState) (h : SP T s) (ts b : Bool) (s' : PState)
    (hc : completion s ts = .ok (b, s')) : SP T s' := by
  unfold completion at hc
  split at hc
  · simp at hc
  · rename_i f rest hst
    split at hc
    · simp at hc; rw [← hc.2]; exact h
    · split at hc
      · simp at hc; rw [← hc.2]; split
        · exact h.fields rfl rfl
        · exact h
      · split at hc
        · simp at hc
        · rename_i o ho
          simp at hc
          rw [← hc.2]
          refine ⟨?_, h.2⟩
          exact complLoop_P s.loaded f rest (h.1 f (by rw [hst]; simp)) (fun g hg => h.1 g (by rw [hst]; simp [hg])) o ho

theorem keepsP_complThen {T : Table} (s : PState) (h : SP T s) (ts rew : Bool) : KeepsP T (complThen s ts rew) := by
  unfold complThen
  split
  · exact keepsP_ofCmdErr _ _ _
  · rename_i b s' hc
    exact completion_P s h ts b s' hc

theorem popBracket_P {T : Table} (s s1 : PState) (k : TokKind) (h : SP T s) (hp : popBracket s k = some s1) : SP T s1 := by
  unfold popBracket at hp
  split at hp
  · simp at hp
  · split at hp
    · simp at hp; rw [← hp]; exact h.fields rfl rfl
    · simp at hp

theorem keepsP_offer {T : Table} (s : PState) (h : SP T s) (t : ArgType) (v : AVal) (hc : Consistent t v)
    (hn : ∀ n, v = .test n → NodeP T n) : KeepsP T (offer s t v) := by
  unfold offer
  split
  · exact keepsP_ofCmdErr _ _ _
  · rename_i b s' pl hcc
    exact curCheck_P s h t v hc hn b s' pl hcc

theorem keepsP_tryReassign {T : Table} (s : PState) (h : SP T s) : KeepsP T (tryReassign s) := by
  unfold tryReassign
  split
  · trivial
  · rename_i f rest hst
    split
    · split
      · exact h
      · rename_i f' hre
        exact withTop_P s f f' rest hst h (reassign_P f f' (h.1 f (by rw [hst]; simp)) hre)
    · exact h

theorem keepsP_thenCompl {T : Table} (r : FnResult) (h : KeepsP T r) : KeepsP T (thenCompl r) := by
  unfold thenCompl
  split
  · rename_i s' rew
    exact keepsP_complThen s' h false rew
  · exact h

theorem keepsP_argThenCompl {T : Table} (s : PState) (h : SP T s) (k : TokKind) (text : Bytes) :
    KeepsP T (argThenCompl s k text) := by
  unfold argThenCompl
  apply keepsP_thenCompl
  have hoff : ∀ t v, Consistent t v → (∀ n, v = .test n → NodeP T n) →
      KeepsP T (if (!Utf8.valid text) = true then FnResult.err PErr.decodeError false else offer s t v) := by
    intro t v hc hn; split
    · trivial
    · exact keepsP_offer s h t v hc hn
  have nt : ∀ (b : Bytes) (n : Node), AVal.str b = .test n → NodeP T n := by intro b n hh; cases hh
  cases k with
  | string => exact hoff _ _ (by simp [Consistent]) (nt _)
  | multiline => exact hoff _ _ (by simp [Consistent]) (nt _)
  | number => exact keepsP_offer s h _ _ (by simp [Consistent]) (nt _)
  | tag => exact keepsP_offer s h _ _ (by simp [Consistent]) (nt _)
  | left_bracket => exact h.fields rfl rfl
  | left_cbracket => exact keepsP_tryReassign s h
  | comma => exact keepsP_tryReassign s h
  | right_parenthesis => exact keepsP_tryReassign s h
  | semicolon => exact h
  | right_bracket => exact h
  | left_parenthesis => exact h
  | right_cbracket => exact h
  | hash_comment => exact h
  | bracket_comment => exact h
  | identifier => exact h

theorem getCommand_mem' (T : Table) (ld : List Bytes) (ident : Bytes) (ce : Bool) (d : CmdDef)
    (h : getCommand T ld ident ce = .ok d) : d ∈ T := by
  unfold getCommand at h
  cases hl : T.lookup ident with
  | none => rw [hl] at h; simp at h
  | some d' =>
    rw [hl] at h
    simp only at h
    split at h
    · simp at h
    · simp only [Except.ok.injEq] at h
      subst h
      unfold Table.lookup Table.findKey at hl
      exact List.mem_of_find?_eq_some hl

theorem keepsP_pushTest {T : Table} (hT : TableP T) (s : PState) (h : SP T s) (text : Bytes) : KeepsP T (pushTest T s text) := by
  unfold pushTest
  split
  · trivial
  · rename_i d hd
    have hdp : defP T d = true := hT d (getCommand_mem' T _ _ _ d hd)
    have hph : NodeP T (.mk d.name [] [] [] []) := (FrameP.fresh d hdp .top).node []
    split
    · trivial
    · split
      · exact keepsP_ofCmdErr _ _ _
      · rename_i s1 pl hcc
        exact curCheck_P s h .test _ (by simp [Consistent]) (by intro n hn; injection hn with hn; subst hn; exact hph) _ _ _ hcc
      · rename_i s1 pl hcc
        have h1 := curCheck_P s h .test _ (by simp [Consistent]) (by intro n hn; injection hn with hn; subst hn; exact hph) _ _ _ hcc
        apply keepsP_complThen
        refine ⟨?_, h1.2⟩
        intro g hg
        simp only [List.mem_cons] at hg
        rcases hg with rfl | hg
        · exact FrameP.fresh d hdp _
        · exact h1.1 g hg

theorem keepsP_closeParen {T : Table} (s : PState) (h : SP T s) : KeepsP T (closeParen s) := by
  unfold closeParen
  split
  · trivial
  · rename_i s1 h1
    split
    · trivial
    · rename_i s2 h2
      exact up_P s1 s2 (popBracket_P s s1 _ h h1) h2

theorem keepsP_argumentsFn {T : Table} (hT : TableP T) (s : PState) (h : SP T s) (k : TokKind) (text : Bytes) :
    KeepsP T (argumentsFn T s k text) := by
  unfold argumentsFn
  split
  · trivial
  · split
    · exact keepsP_pushTest hT s h text
    · split
      · exact h.fields rfl rfl
      · exact keepsP_argThenCompl s h _ text
    · split
      · exact h.fields rfl rfl
      · exact keepsP_argThenCompl s h _ text
    · split
      · exact keepsP_argThenCompl s h _ text
      · exact keepsP_closeParen s h
    · exact keepsP_argThenCompl s h _ text

theorem keepsP_stringlistFn {T : Table} (s : PState) (h : SP T s) (k : TokKind) (text : Bytes) :
    KeepsP T (stringlistFn s k text) := by
  unfold stringlistFn
  split
  · split
    · trivial
    · exact h.fields rfl rfl
  · exact h.fields rfl rfl
  · split
    · trivial
    · rename_i s1 h1
      have hp := popBracket_P s s1 _ h h1
      have nt : ∀ (n : Node), AVal.strs s1.curlist = .test n → NodeP T n := by intro n hh; cases hh
      split
      · exact keepsP_ofCmdErr _ _ _
      · rename_i s2 pl hcc
        exact curCheck_P s1 hp .stringlist _ (by simp [Consistent]) nt _ _ _ hcc
      · rename_i s2 pl hcc
        have h2 := curCheck_P s1 hp .stringlist _ (by simp [Consistent]) nt _ _ _ hcc
        exact keepsP_complThen ⟨s2.result, s2.comments, s2.stack, .arguments, s2.curlist, s2.expected, s2.brackets, s2.loaded⟩
          (h2.fields rfl rfl) true false
  · exact h

theorem keepsP_stateFn {T : Table} (hT : TableP T) (s : PState) (h : SP T s) (k : TokKind) (text : Bytes) :
    KeepsP T (stateFn T s k text) := by
  unfold stateFn
  split
  · exact keepsP_stringlistFn s h k text
  · exact keepsP_argumentsFn hT s h k text

theorem keepsP_startCommand {T : Table} (hT : TableP T) (s : PState) (h : SP T s) (k : TokKind) (text : Bytes) :
    KeepsP T (startCommand T s k text) := by
  unfold startCommand
  split
  · split
    · trivial
    · rename_i s1 h1
      split
      · trivial
      · rename_i s2 h2
        exact (up_P s1 s2 (popBracket_P s s1 _ h h1) h2).fields rfl rfl
  · split
    · exact h
    · split
      · trivial
      · rename_i d hd
        have hdp : defP T d = true := hT d (getCommand_mem' T _ _ _ d hd)
        split
        · trivial
        · split
          · trivial
          · have ha : SP T (announce s d) := by unfold announce; split <;> exact h.fields rfl rfl
            unfold pushCommand
            split
            · refine ⟨?_, ha.2⟩
              intro g hg; simp at hg; subst hg; exact FrameP.fresh d hdp _
            · split
              · trivial
              · refine ⟨?_, ha.2⟩
                intro g hg
                simp only [List.mem_cons] at hg
                rcases hg with rfl | hg
                · exact FrameP.fresh d hdp _
                · exact ha.1 g hg

theorem keepsP_closeCommand {T : Table} (s' : PState) (h : SP T s') (k : TokKind) (rew : Bool) :
    KeepsP T (closeCommand s' k rew) := by
  unfold closeCommand
  split
  · split
    · trivial
    · split
      · exact h.fields rfl rfl
      · exact h
  · split
    · split
      · trivial
      · split
        · exact h
        · split
          · rename_i e _; cases e <;> trivial
          · rename_i s2 hc
            exact completion_P { s' with cstate := .none } (h.fields rfl rfl) _ _ _ hc
          · rename_i s2 hc
            have h2 := completion_P { s' with cstate := .none } (h.fields rfl rfl) _ _ _ hc
            split
            · trivial
            · rename_i g rest2 hst2
              simp only
              split
              · trivial
              · rename_i s4 hup
                exact up_P { s2 with loaded := completeCb g s2.loaded } s4 (h2.fields rfl rfl) hup
    · exact h

theorem keepsP_commandFn {T : Table} (hT : TableP T) (s : PState) (h : SP T s) (k : TokKind) (text : Bytes) :
    KeepsP T (commandFn T s k text) := by
  unfold commandFn
  split
  · exact keepsP_startCommand hT s h k text
  · have hg := keepsP_stateFn hT s h k text
    split
    · rename_i s' rew heq
      rw [heq] at hg
      exact keepsP_closeCommand s' hg k rew
    · exact hg

theorem step_P {T : Table} (hT : TableP T) (s : PState) (h : SP T s) (tok : Tok) (s' : PState)
    (hs : step T s tok = .ok s' ∨ step T s tok = .rewind s') : SP T s' := by
  unfold step at hs
  split at hs
  · rcases hs with hs | hs <;> simp at hs
    rw [← hs]; exact h.fields rfl rfl
  · rcases hs with hs | hs <;> simp at hs
    rw [← hs]; exact h
  · unfold stepTok at hs
    split at hs
    · rcases hs with hs | hs <;> simp at hs
    · rename_i s1 hadm
      have h1 : SP T s1 := by
        unfold admitTok at hadm
        split at hadm
        · simp at hadm; subst hadm; exact h
        · split at hadm
          · simp at hadm; subst hadm; exact h.fields rfl rfl
          · simp at hadm
      have hg := keepsP_commandFn hT s1 h1 tok.kind tok.text
      unfold ofFn at hs
      split at hs
      · rename_i s2 heq; rw [heq] at hg; rcases hs with hs | hs <;> simp at hs; subst hs; exact hg
      · rename_i s2 heq; rw [heq] at hg; rcases hs with hs | hs <;> simp at hs; subst hs; exact hg
      · rcases hs with hs | hs <;> simp at hs
      · rcases hs with hs | hs <;> simp at hs
      · rcases hs with hs | hs <;> simp at hs

theorem deliver_P {T : Table} (hT : TableP T) (s : PState) (h : SP T s) (tok : Tok) (s' : PState)
    (hd : deliver T s tok = .ok s') : SP T s' := by
  unfold deliver at hd
  cases hst : step T s tok with
  | ok s1 => rw [hst] at hd; simp at hd; subst hd; exact step_P hT s h tok s1 (Or.inl hst)
  | reject e r => rw [hst] at hd; simp at hd
  | crash w => rw [hst] at hd; simp at hd
  | rewind s1 =>
    rw [hst] at hd
    simp only at hd
    have h1 := step_P hT s h tok s1 (Or.inr hst)
    cases hst2 : step T s1 tok with
    | ok s2 => rw [hst2] at hd; simp at hd; subst hd; exact step_P hT s1 h1 tok s2 (Or.inl hst2)
    | reject e r => rw [hst2] at hd; simp at hd
    | crash w => rw [hst2] at hd; simp at hd
    | rewind s2 => rw [hst2] at hd; simp at hd

theorem feed_P {T : Table} (hT : TableP T) (toks : List Tok) (s : PState) (n : Nat) (h : SP T s) (s' : PState) (m : Nat)
    (hf : feed T toks s n = .done s' m) : SP T s' := by
  induction toks generalizing s n with
  | nil => simp [feed] at hf; rw [← hf.1]; exact h
  | cons tok rest ih =>
    unfold feed at hf
    cases hd : deliver T s tok with
    | error o => rw [hd] at hf; simp at hf
    | ok s1 =>
      rw [hd] at hf
      exact ih s1 _ (deliver_P hT s h tok s1 hd) hf

/-- **every accepted script can be printed**: `tosieve` of the result never raises -/
theorem accepted_is_printable {T : Table} (hT : TableP T) (text : Bytes) (prev : PState) (r : List Node)
    (h : parse T text prev = .accept r) : Ser.script T r ≠ none := by
  unfold parse at h
  split at h
  · simp at h
  · rename_i lr hl
    unfold run at h
    split at h
    · rename_i o ho
      subst h
      -- a stop is a rejection, a crash or a hang, never an acceptance
      rcases feed_stop_located T lr.toks {} 0 _ ho with h1 | ⟨w, h1⟩ | ⟨tok, _, e, h1 | h1⟩ <;> simp at h1
    · rename_i s' m hfeed
      split at h
      · simp at h
      · unfold finish at h
        split at h
        · simp at h
        · split at h
          · simp at h
          · simp at h
            subst h
            have hsp := feed_P hT lr.toks {} 0 ⟨by intro f hf; simp at hf, by intro n hn; simp at hn⟩ s' m hfeed
            unfold Ser.script
            exact (Ser.nodes_some_iff T 0 _).mpr (fun n hn => hsp.2 n hn 0)

end Printable
