import SieveModel.Lemmas.SerLemmas
import SieveModel.Lemmas.Safe
import SieveModel.Lemmas.Threading
/-!
# Every tree the parser builds can be printed (`tosieve` does not raise)

`FrameP T f`: the node a stack frame would become is printable.  Kept by every parser step for tables
satisfying the decidable condition `TableP`.
-/
namespace Printable
open Machine Args

def NodeP (T : Table) (n : Node) : Prop := ∀ i, Ser.node T i n ≠ none
def ArgP (T : Table) (d : CmdDef) (e : Bool) (a : Arg) : Prop := ∀ i, Ser.renderArg T i d e a ≠ none

/-- per-slot condition: the slot is found under its own name; a slot that takes string lists is neither a
    tag slot nor a test-list slot -/
def slotP (d : CmdDef) (a : ArgDef) : Bool :=
  (Ser.slotOf d a.name == some a) &&
  (!decide (ArgType.stringlist ∈ a.types) || (!decide (ArgType.tag ∈ a.types) && a.types != [.testlist]))

def flagSlotP (d : CmdDef) : Bool :=
  (match Ser.slotOf d "variable-list" with
   | some s => s.types != [.testlist]
   | none => false) &&
  (match Ser.slotOf d "list-of-flags" with
   | some s => !decide (ArgType.tag ∈ s.types) && s.types != [.testlist]
   | none => true)

def defP (T : Table) (d : CmdDef) : Bool :=
  (T.byName d.name == some d) && d.args.all (slotP d) && (d.special != .hasflag || flagSlotP d)

def TableP (T : Table) : Prop := ∀ d ∈ T, defP T d = true
instance (T : Table) : Decidable (TableP T) := by unfold TableP; infer_instance

structure FrameP (T : Table) (f : Frame) : Prop where
  dfn : defP T f.d = true
  cur : ∀ c, f.st.curarg = some c → c ∈ f.d.args
  args : ∀ a ∈ f.st.arguments, ArgP T f.d false a
  extra : ∀ a ∈ f.st.extraArgs, ArgP T f.d true a
  kids : ∀ n ∈ f.children, NodeP T n

theorem defP_byName {T : Table} {d : CmdDef} (h : defP T d = true) : T.byName d.name = some d := by
  simp only [defP, Bool.and_eq_true, beq_iff_eq] at h; exact h.1.1

theorem defP_slot {T : Table} {d : CmdDef} (h : defP T d = true) (a : ArgDef) (ha : a ∈ d.args) :
    Ser.slotOf d a.name = some a ∧
    (ArgType.stringlist ∈ a.types → ArgType.tag ∉ a.types ∧ a.types ≠ [.testlist]) := by
  simp only [defP, Bool.and_eq_true, List.all_eq_true] at h
  have := h.1.2 a ha
  simp only [slotP, Bool.and_eq_true, beq_iff_eq, Bool.or_eq_true, Bool.not_eq_true', decide_eq_false_iff_not,
    decide_eq_true_eq, bne_iff_ne, ne_eq] at this
  refine ⟨this.1, ?_⟩
  intro hs
  rcases this.2 with h1 | h1
  · exact absurd hs h1
  · exact h1

/-- the node a printable frame becomes is printable -/
theorem FrameP.node {T : Table} {f : Frame} (h : FrameP T f) (c : List Bytes) : NodeP T (Frame.toNode f c) := by
  intro i
  unfold Frame.toNode
  rw [Ser.node, defP_byName h.dfn]
  simp only
  have h1 : Ser.renderArgs T i f.d false f.st.arguments ≠ none :=
    (Ser.renderArgs_some_iff T i f.d false _).mpr (fun a ha => h.args a ha i)
  have h2 : Ser.renderArgs T i f.d true f.st.extraArgs ≠ none :=
    (Ser.renderArgs_some_iff T i f.d true _).mpr (fun a ha => h.extra a ha i)
  cases hr1 : Ser.renderArgs T i f.d false f.st.arguments with
  | none => exact absurd hr1 h1
  | some ra =>
    cases hr2 : Ser.renderArgs T i f.d true f.st.extraArgs with
    | none => exact absurd hr2 h2
    | some re =>
      simp only
      split
      · simp
      · split
        · simp
        · have h3 : Ser.nodes T (i + 4) f.children ≠ none :=
            (Ser.nodes_some_iff T (i + 4) _).mpr (fun n hn => h.kids n hn (i + 4))
          cases hr3 : Ser.nodes T (i + 4) f.children with
          | none => exact absurd hr3 h3
          | some body => simp

theorem FrameP.fresh {T : Table} (d : CmdDef) (hd : defP T d = true) (a : Attach) : FrameP T { d := d, attach := a } :=
  ⟨hd, by intro c h; simp at h, by intro x hx; simp at hx, by intro x hx; simp at hx, by intro x hx; simp at hx⟩

theorem mem_assocSet (l : List Arg) (a x : Arg) (h : x ∈ assocSet l a) : x ∈ l ∨ x = a := by
  unfold assocSet at h
  split at h
  · simp only [List.mem_map] at h
    obtain ⟨y, hy, rfl⟩ := h
    split
    · exact Or.inr rfl
    · exact Or.inl hy
  · simp only [List.mem_append, List.mem_singleton] at h
    exact h

theorem mem_setArg (add : Bool) (l : List Arg) (a x : Arg) (h : x ∈ setArg add l a) : x ∈ l ∨ x = a := by
  unfold setArg at h
  split at h
  · exact mem_assocSet l a x h
  · exact Or.inl h

/-- a plain value stored under the name of the slot that accepted it -/
theorem argP_value {T : Table} {d : CmdDef} (hd : defP T d = true) (a : ArgDef) (ha : a ∈ d.args)
    (v : AVal) (hstr : ∀ l, v = .strs l → ArgType.stringlist ∈ a.types) (hn : ∀ n, v = .test n → NodeP T n) :
    ArgP T d false (v.toArg a.name) := by
  intro i
  obtain ⟨hslot, hsl⟩ := defP_slot hd a ha
  cases v with
  | str raw =>
    simp only [AVal.toArg, Ser.renderArg, hslot, Bool.false_eq_true, if_false]
    split <;> simp
  | strs l =>
    obtain ⟨h1, h2⟩ := hsl (hstr l rfl)
    simp only [AVal.toArg, Ser.renderArg, hslot]
    have : (decide (ArgType.tag ∈ a.types) || a.types == [.testlist]) = false := by simp [h1, h2]
    simp [this]
  | test n =>
    simp only [AVal.toArg, Ser.renderArg]
    have := hn n rfl i
    cases hnn : Ser.node T i n with
    | none => exact absurd hnn this
    | some b => simp

/-- a tag parameter stored under the name of the pending slot -/
theorem argP_extra {T : Table} {d : CmdDef} (hd : defP T d = true) (c : ArgDef) (hc : c ∈ d.args) (e : ExtraDef)
    (hce : c.extra = some e) (v : AVal) (hn : ∀ n, v = .test n → NodeP T n) : ArgP T d true (v.toArg c.name) := by
  intro i
  obtain ⟨hslot, _⟩ := defP_slot hd c hc
  cases v with
  | str raw => simp [AVal.toArg, Ser.renderArg, hslot, hce]
  | strs l => simp [AVal.toArg, Ser.renderArg, hslot]
  | test n =>
    simp only [AVal.toArg, Ser.renderArg]
    have := hn n rfl i
    cases hnn : Ser.node T i n with
    | none => exact absurd hnn this
    | some b => simp

end Printable

namespace Printable
open Machine Args ArgsSafe

theorem consistent_strs_type (t : ArgType) (l : List Bytes) (h : Consistent t (.strs l)) : t = .stringlist := by
  cases t <;> simp [Consistent] at h <;> rfl

theorem testsOut_of_argP {T : Table} {d : CmdDef} (a : ArgDef) (hslot : Ser.slotOf d a.name = some a)
    (ht : a.types = [.testlist]) (k : String) (hk : (k == a.name) = true) (ts : List Node)
    (h : ArgP T d false (.tests k ts)) : ∀ m ∈ ts, Ser.node T 0 m ≠ none := by
  have hk' : k = a.name := by simpa using hk
  subst hk'
  have := h 0
  simp only [Ser.renderArg, hslot, ht, beq_self_eq_true, if_true] at this
  apply (Ser.testsOut_some_iff T ts).mp
  intro hn
  rw [hn] at this
  simp at this

theorem argP_tests {T : Table} {d : CmdDef} (a : ArgDef) (hslot : Ser.slotOf d a.name = some a)
    (ht : a.types = [.testlist]) (ts : List Node) (h : ∀ m ∈ ts, Ser.node T 0 m ≠ none) :
    ArgP T d false (.tests a.name ts) := by
  intro i
  simp only [Ser.renderArg, hslot, ht, beq_self_eq_true, if_true]
  have := (Ser.testsOut_some_iff T ts).mpr h
  cases hto : Ser.testsOut T ts with
  | none => exact absurd hto this
  | some b => simp

/-- `check_next_arg` keeps the frame printable -/
theorem checkNextArg_P {T : Table} (f : Frame) (hf : FrameP T f) (ld : List Bytes) (t : ArgType) (v : AVal)
    (add ce : Bool) (hc : Consistent t v) (hn : ∀ n, v = .test n → NodeP T n) (st' : CState) (pl : Placement)
    (h : checkNextArg f.d ld f.st t v add ce = .ok (some (st', pl))) : FrameP T { f with st := st' } := by
  obtain ⟨_, hcase⟩ := Safe.checkNextArg_cases f.d ld f.st t v add ce st' pl h
  rcases hcase with ⟨c, e, hp, _, hst, _⟩ | ⟨_, hs⟩
  · obtain ⟨hcur, hce⟩ := Safe.pendingExtra_some f.st c e hp
    subst hst
    refine ⟨hf.dfn, by intro c' h'; simp at h', hf.args, ?_, hf.kids⟩
    intro x hx
    rcases mem_setArg _ _ _ _ hx with h1 | h1
    · exact hf.extra x h1
    · subst h1; exact argP_extra hf.dfn c (hf.cur c hcur) e hce v hn
  · rcases Safe.scan_cases f.d.name ld ce add t v f.st _ _ st' pl hs with ⟨h1, _, _⟩ | ⟨pre, a, post, hsplit, _, hit⟩
    · subst h1; exact ⟨hf.dfn, hf.cur, hf.args, hf.extra, hf.kids⟩
    · have hmem : a ∈ f.d.args := List.mem_of_mem_drop (by rw [hsplit]; simp)
      obtain ⟨hslot, _⟩ := defP_slot hf.dfn a hmem
      cases hit with
      | testlistAdd hr ht htt hadd args happ hst hpl =>
        subst hst
        subst htt
        obtain ⟨n, rfl⟩ := consistent_test v hc
        have hnn : Ser.node T 0 n ≠ none := hn n rfl 0
        refine ⟨hf.dfn, hf.cur, ?_, hf.extra, hf.kids⟩
        simp only
        unfold appendTest at happ
        simp only at happ
        cases hget : assocGet f.st.arguments a.name with
        | none =>
          rw [hget] at happ
          simp at happ
          subst happ
          intro x hx
          simp only [List.mem_append, List.mem_singleton] at hx
          rcases hx with hx | rfl
          · exact hf.args x hx
          · exact argP_tests a hslot ht [n] (by intro m hm; simp at hm; subst hm; exact hnn)
        | some old =>
          rw [hget] at happ
          cases old with
          | tests k0 ts =>
            simp at happ
            subst happ
            have hfound := List.find?_some hget
            have hin := List.mem_of_find?_eq_some hget
            have hold := testsOut_of_argP a hslot ht k0 (by simpa [Arg.key] using hfound) ts (hf.args _ hin)
            intro x hx
            rcases mem_assocSet _ _ _ hx with h1 | h1
            · exact hf.args x h1
            · subst h1
              apply argP_tests a hslot ht
              intro m hm
              simp only [List.mem_append, List.mem_singleton] at hm
              rcases hm with hm | rfl
              · exact hold m hm
              · exact hnn
          | str _ _ => simp at happ
          | strs _ _ => simp at happ
          | test _ _ => simp at happ
      | testlistSkip hr ht htt hadd hst hpl =>
        subst hst; exact ⟨hf.dfn, hf.cur, hf.args, hf.extra, hf.kids⟩
      | required hr ht hv hres =>
        simp only [takeRequired, Prod.mk.injEq] at hres
        obtain ⟨hst, _⟩ := hres
        subst hst
        refine ⟨hf.dfn, by intro c' h'; simp at h'; subst h'; exact hmem, ?_, hf.extra, hf.kids⟩
        intro x hx
        rcases mem_setArg _ _ _ _ hx with h1 | h1
        · exact hf.args x h1
        · subst h1
          apply argP_value hf.dfn a hmem v _ hn
          intro l hl
          subst hl
          have := consistent_strs_type t l hc
          subst this
          simpa [validType] using hv
      | optional hr ht hres =>
        unfold takeOptional at hres
        split at hres
        · simp at hres
        · split at hres
          · simp at hres
          · simp only [Except.ok.injEq, Prod.mk.injEq] at hres
            obtain ⟨hst, _⟩ := hres
            subst hst
            refine ⟨hf.dfn, ?_, ?_, hf.extra, hf.kids⟩
            · intro c' h'
              simp only at h'
              split at h'
              · simp at h'; subst h'; exact hmem
              · exact hf.cur c' h'
            · intro x hx
              rcases mem_setArg _ _ _ _ hx with h1 | h1
              · exact hf.args x h1
              · subst h1
                apply argP_value hf.dfn a hmem v _ hn
                intro l hl
                subst hl
                have := consistent_strs_type t l hc
                subst this
                exact ht

end Printable

namespace Printable
open Machine Args ArgsSafe

theorem mem_replaceLast (l : List Node) (n x : Node) (h : x ∈ replaceLast l n) : x ∈ l ∨ x = n := by
  unfold replaceLast at h
  split at h
  · simp at h; exact Or.inr h
  · rename_i y r hr
    simp only [List.mem_reverse, List.mem_cons] at h
    rcases h with h | h
    · exact Or.inr h
    · left
      have : x ∈ l.reverse := by rw [hr]; simp [h]
      simpa using this

theorem argP_test {T : Table} {d : CmdDef} (e : Bool) (k : String) (n : Node) (hn : NodeP T n) : ArgP T d e (.test k n) := by
  intro i
  simp only [Ser.renderArg]
  cases hnn : Ser.node T i n with
  | none => exact absurd hnn (hn i)
  | some b => simp

/-- plugging a finished, printable node into its parent keeps the parent printable -/
theorem plug_P {T : Table} (p : Frame) (a : Attach) (n : Node) (hp : FrameP T p) (hn : NodeP T n) :
    FrameP T (plug p a n) := by
  unfold plug
  split
  · exact hp
  · refine ⟨hp.dfn, hp.cur, hp.args, hp.extra, ?_⟩
    intro x hx
    simp only [List.mem_append, List.mem_singleton] at hx
    rcases hx with hx | rfl
    · exact hp.kids x hx
    · exact hn
  · exact hp
  · rename_i k
    refine ⟨hp.dfn, hp.cur, ?_, hp.extra, hp.kids⟩
    intro x hx
    rcases mem_assocSet _ _ _ hx with h1 | h1
    · exact hp.args x h1
    · subst h1; exact argP_test false k n hn
  · rename_i k
    refine ⟨hp.dfn, hp.cur, hp.args, ?_, hp.kids⟩
    intro x hx
    rcases mem_assocSet _ _ _ hx with h1 | h1
    · exact hp.extra x h1
    · subst h1; exact argP_test true k n hn
  · rename_i k
    split
    · rename_i k0 ts hget
      refine ⟨hp.dfn, hp.cur, ?_, hp.extra, hp.kids⟩
      intro x hx
      rcases mem_assocSet _ _ _ hx with h1 | h1
      · exact hp.args x h1
      · subst h1
        have hfound := List.find?_some hget
        have hin := List.mem_of_find?_eq_some hget
        have hk0 : k0 = k := by simpa [Arg.key] using hfound
        subst hk0
        have hold := hp.args _ hin
        intro i
        have ho := hold i
        simp only [Ser.renderArg] at ho ⊢
        cases hs : Ser.slotOf p.d k0 with
        | none => simp
        | some slot =>
          rw [hs] at ho
          simp only at ho ⊢
          by_cases ht : (slot.types == [.testlist]) = true
          · simp only [ht, if_true] at ho ⊢
            have hts : ∀ m ∈ ts, Ser.node T 0 m ≠ none := by
              apply (Ser.testsOut_some_iff T ts).mp
              intro hnone; rw [hnone] at ho; simp at ho
            have : Ser.testsOut T (replaceLast ts n) ≠ none := by
              apply (Ser.testsOut_some_iff T _).mpr
              intro m hm
              rcases mem_replaceLast ts n m hm with h1 | h1
              · exact hts m h1
              · subst h1; exact hn 0
            cases hto : Ser.testsOut T (replaceLast ts n) with
            | none => exact absurd hto this
            | some b => simp
          · simp [ht] at ho
    · exact hp

/-- `reassign_arguments` keeps the frame printable -/
theorem reassign_P {T : Table} (f f' : Frame) (hf : FrameP T f) (h : reassign f = some f') : FrameP T f' := by
  unfold reassign at h
  split at h
  · rename_i hsp
    split at h
    · rename_i a hget
      split at h
      · simp at h
      · simp only [Option.some.injEq] at h
        subst h
        have hflag : flagSlotP f.d = true := by
          have := hf.dfn
          simp only [defP, Bool.and_eq_true, Bool.or_eq_true, bne_iff_ne, ne_eq] at this
          rcases this.2 with h1 | h1
          · exact absurd hsp h1
          · exact h1
        have hfound := List.find?_some hget
        have hin := List.mem_of_find?_eq_some hget
        have hka : a.key = "variable-list" := by simpa using hfound
        refine ⟨hf.dfn, hf.cur, ?_, hf.extra, hf.kids⟩
        intro x hx
        simp only [List.mem_append, List.mem_singleton] at hx
        rcases hx with hx | rfl
        · exact hf.args x (by unfold assocErase at hx; exact (List.mem_filter.mp hx).1)
        · have hold := hf.args a hin
          simp only [flagSlotP, Bool.and_eq_true] at hflag
          cases a with
          | str k v =>
            intro i
            simp only [Arg.rekey, Ser.renderArg]
            split
            · simp
            · simp only [Bool.false_eq_true, if_false]; split <;> simp
          | strs k l =>
            intro i
            simp only [Arg.rekey, Ser.renderArg]
            cases hs : Ser.slotOf f.d "list-of-flags" with
            | none => simp
            | some s =>
              have h2 := hflag.2
              rw [hs] at h2
              simp only [Bool.and_eq_true, Bool.not_eq_true', decide_eq_false_iff_not, bne_iff_ne, ne_eq] at h2
              have : (decide (ArgType.tag ∈ s.types) || s.types == [.testlist]) = false := by simp [h2.1, h2.2]
              simp [this]
          | test k n =>
            have hnp : NodeP T n := by
              intro i
              have := hold i
              simp only [Ser.renderArg] at this
              intro hnone; rw [hnone] at this; simp at this
            exact argP_test false _ n hnp
          | tests k l =>
            exfalso
            have hk : k = "variable-list" := hka
            subst hk
            have h1 := hflag.1
            have ho := hold 0
            simp only [Ser.renderArg] at ho
            cases hs : Ser.slotOf f.d "variable-list" with
            | none => rw [hs] at h1; simp at h1
            | some s =>
              rw [hs] at h1 ho
              simp only [bne_iff_ne, ne_eq] at h1
              have : (s.types == [.testlist]) = false := by simpa using h1
              simp [this] at ho
    · simp at h
  · simp at h

end Printable

namespace Printable
open Machine Args ArgsSafe

/-- printability is closed under the five ways the machine builds frames -/
theorem closed {T : Table} (hT : TableP T) : Threading.Closed T (FrameP T) (NodeP T) :=
  ⟨fun d hd a => FrameP.fresh d (hT d hd) a,
   fun f c hf => hf.node c,
   fun f ld t v add ce st' pl hf hc hn h => checkNextArg_P f hf ld t v add ce hc hn st' pl h,
   fun p a n hp hn => plug_P p a n hp hn,
   fun f f' hf h => reassign_P f f' hf h⟩

/-- **every accepted script can be printed**: `tosieve` of the result never raises -/
theorem accepted_is_printable {T : Table} (hT : TableP T) (text : Bytes) (prev : PState) (r : List Node)
    (h : parse T text prev = .accept r) : Ser.script T r ≠ none := by
  have := Threading.accepted_nodes (closed hT) text prev r h
  unfold Ser.script
  exact (Ser.nodes_some_iff T 0 _).mpr (fun n hn => this n hn 0)

end Printable
