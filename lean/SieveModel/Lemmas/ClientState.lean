import SieveModel.Model.Client
/-! Which fields of the client each step can change: the basis of the C10 ordering theorems. -/
namespace Client
open Reader

/-- everything an exchange leaves untouched, and the shape of what it writes -/
structure Keeps (c c' : Client) : Prop where
  auth : c'.authenticated = c.authenticated
  tls : c'.tls = c.tls
  conn : c'.connected = c.connected
  writes : ∃ ws : List Bytes, c'.writes = c.writes ++ ws.map (fun b => (c.tls, b))

theorem Keeps.refl (c : Client) : Keeps c c := ⟨rfl, rfl, rfl, ⟨[], by simp⟩⟩

theorem Keeps.trans {a b c : Client} (h1 : Keeps a b) (h2 : Keeps b c) : Keeps a c := by
  obtain ⟨w1, hw1⟩ := h1.writes
  obtain ⟨w2, hw2⟩ := h2.writes
  refine ⟨by rw [h2.auth, h1.auth], by rw [h2.tls, h1.tls], by rw [h2.conn, h1.conn], ⟨w1 ++ w2, ?_⟩⟩
  rw [hw2, hw1, h1.tls]; simp

theorem write_keeps (c : Client) (b : Bytes) : Keeps c (write c b) :=
  ⟨rfl, rfl, rfl, ⟨[b], by simp [write]⟩⟩

theorem foldl_write_keeps (ls : List Bytes) (c : Client) :
    Keeps c (ls.foldl (fun acc l => write acc (l ++ CRLF)) c) := by
  induction ls generalizing c with
  | nil => exact Keeps.refl c
  | cons l rest ih => exact (write_keeps c _).trans (ih _)

theorem awaitReply_keeps (c : Client) (n : Option Nat) : Keeps c (awaitReply c n).2 := by
  unfold awaitReply
  cases readResponse n c.r with
  | error e => exact Keeps.refl c
  | ok p => exact ⟨rfl, rfl, rfl, ⟨[], by simp⟩⟩

theorem sendCommand_keeps (c : Client) (name : Bytes) (args : List WArg) (extra : List Bytes) (n : Option Nat) :
    Keeps c (sendCommand c name args extra n).2 := by
  unfold sendCommand
  split
  · exact Keeps.refl c
  · exact ((write_keeps c _).trans (foldl_write_keeps extra _)).trans (awaitReply_keeps _ n)

theorem okOf_snd (x : Res Reply) : (okOf x).2 = x.2 := by
  obtain ⟨v, c⟩ := x
  cases v <;> rfl

theorem getCapabilities_keeps (c : Client) : Keeps c (getCapabilities c).2 ∧ (getCapabilities c).2.writes = c.writes := by
  unfold getCapabilities
  cases readResponse none c.r with
  | error e => exact ⟨Keeps.refl c, rfl⟩
  | ok p =>
    obtain ⟨resp, r'⟩ := p
    simp only
    split
    · exact ⟨⟨rfl, rfl, rfl, ⟨[], by simp⟩⟩, rfl⟩
    · split
      · exact ⟨⟨rfl, rfl, rfl, ⟨[], by simp⟩⟩, rfl⟩
      · exact ⟨⟨rfl, rfl, rfl, ⟨[], by simp⟩⟩, rfl⟩

theorem authWith_keeps (c : Client) (m l p z : Bytes) : Keeps c (authWith c m l p z).2 := by
  unfold authWith
  split
  · rw [okOf_snd]; exact sendCommand_keeps _ _ _ _ _
  · split
    · rw [okOf_snd]; exact sendCommand_keeps _ _ _ _ _
    · split
      · rw [okOf_snd]; exact sendCommand_keeps _ _ _ _ _
      · have h := sendCommand_keeps c (sb "AUTHENTICATE") [.str (sb "DIGEST-MD5")] [] (some 1)
        revert h
        cases sendCommand c (sb "AUTHENTICATE") [.str (sb "DIGEST-MD5")] [] (some 1) with
        | mk v c1 => cases v <;> exact fun h => h

theorem setErrmsg_keeps (c : Client) (m : Bytes) : Keeps c (setErrmsg c m) := ⟨rfl, rfl, rfl, ⟨[], by simp [setErrmsg]⟩⟩

/-- `__authenticate`: the flag is set exactly when the exchange ended with OK; everything it writes
    goes out on the channel that was current when it started -/
theorem finishAuth_spec (c : Client) (sel : Option Bytes) (l p z : Bytes) :
    ((finishAuth c sel l p z).2.authenticated = true →
        c.authenticated = true ∨ (finishAuth c sel l p z).1 = .ok true) ∧
    (finishAuth c sel l p z).2.tls = c.tls ∧
    ∃ ws : List Bytes, (finishAuth c sel l p z).2.writes = c.writes ++ ws.map (fun b => (c.tls, b)) := by
  unfold finishAuth
  cases sel with
  | none =>
    have k := setErrmsg_keeps c (sb "No suitable mechanism found")
    exact ⟨fun h => Or.inl (by rw [k.auth] at h; exact h), k.tls, k.writes⟩
  | some mech =>
    have k := authWith_keeps c mech l p z
    simp only
    revert k
    cases authWith c mech l p z with
    | mk v c1 =>
      intro k
      cases v with
      | error e => exact ⟨fun h => Or.inl (by rw [k.auth] at h; exact h), k.tls, k.writes⟩
      | ok b =>
        cases b with
        | true => exact ⟨fun _ => Or.inr rfl, k.tls, k.writes⟩
        | false => exact ⟨fun h => Or.inl (by rw [k.auth] at h; exact h), k.tls, k.writes⟩

theorem authenticate_spec (c : Client) (l p z : Bytes) (m : Option Bytes) :
    ((authenticate c l p z m).2.authenticated = true →
        c.authenticated = true ∨ (authenticate c l p z m).1 = .ok true) ∧
    (authenticate c l p z m).2.tls = c.tls ∧
    ∃ ws : List Bytes, (authenticate c l p z m).2.writes = c.writes ++ ws.map (fun b => (c.tls, b)) := by
  unfold authenticate
  split
  · exact ⟨fun h => Or.inl h, rfl, ⟨[], by simp⟩⟩
  · exact finishAuth_spec c _ l p z

/-- `__starttls`: never touches the flag; writes only the STARTTLS command, on the plain channel it
    started on; returns True only with the TLS channel established -/
theorem starttls_spec (c : Client) (env : ConnEnv) :
    (starttls c env).2.authenticated = c.authenticated ∧
    ((starttls c env).2.writes = c.writes ∨
      (starttls c env).2.writes = c.writes ++ [(c.tls, commandBytes (sb "STARTTLS") [])]) ∧
    ((starttls c env).1 = .ok true → (starttls c env).2.tls = true ∧ env.tlsOk = true) := by
  unfold starttls
  split
  · exact ⟨rfl, Or.inl rfl, fun h => by simp at h⟩
  · have k := sendCommand_keeps c (sb "STARTTLS") [] [] none
    have hw : (sendCommand c (sb "STARTTLS") [] [] none).2.writes = c.writes ∨
        (sendCommand c (sb "STARTTLS") [] [] none).2.writes = c.writes ++ [(c.tls, commandBytes (sb "STARTTLS") [])] := by
      unfold sendCommand
      split
      · exact Or.inl rfl
      · right
        have a := (awaitReply_keeps (afterWrites c (sb "STARTTLS") [] []) none).writes
        obtain ⟨ws, hws⟩ := a
        unfold awaitReply at hws ⊢
        cases readResponse none (afterWrites c (sb "STARTTLS") [] []).r with
        | error e => simp [afterWrites, write]
        | ok p => simp [afterWrites, write]
    revert k hw
    cases sendCommand c (sb "STARTTLS") [] [] none with
    | mk v c1 =>
      intro k hw
      cases v with
      | error e => exact ⟨k.auth, hw, fun h => by simp at h⟩
      | ok rep =>
        simp only
        split
        · exact ⟨k.auth, hw, fun h => by simp at h⟩
        · split
          · exact ⟨k.auth, hw, fun h => by simp at h⟩
          · rename_i htls
            have g := getCapabilities_keeps (tlsWrapped c1)
            revert g
            cases getCapabilities (tlsWrapped c1) with
            | mk v3 c3 =>
              intro g
              have hauth : c3.authenticated = c.authenticated := by
                rw [g.1.auth]; exact k.auth
              have hwr : c3.writes = c1.writes := g.2
              have htl : c3.tls = true := by rw [g.1.tls]; rfl
              cases v3 with
              | error e => exact ⟨hauth, by simpa [hwr] using hw, fun h => by simp at h⟩
              | ok b => exact ⟨hauth, by simpa [hwr] using hw, fun _ => ⟨htl, by simpa using htls⟩⟩

end Client

namespace Client
open Reader

/-- `connect`: (1) the client is marked authenticated only when connect returned True;
    (2) with STARTTLS requested, the only thing ever written on the plain channel is the STARTTLS
    command itself — in particular no AUTHENTICATE, no credentials; (3) True ⇒ with STARTTLS
    requested the TLS channel is up and the handshake succeeded -/
theorem connect_spec (c : Client) (env : ConnEnv) (net : Net) (l p z : Bytes) (useTls : Bool) (m : Option Bytes) :
    ((connect c env net l p z useTls m).2.authenticated = true → (connect c env net l p z useTls m).1 = .ok true) ∧
    (useTls = true → ∀ w ∈ (connect c env net l p z useTls m).2.writes, w.1 = false →
        w.2 = commandBytes (sb "STARTTLS") []) ∧
    (useTls = true → (connect c env net l p z useTls m).1 = .ok true →
        (connect c env net l p z useTls m).2.tls = true ∧ env.tlsOk = true) := by
  unfold connect
  split
  · exact ⟨fun h => by simp at h, fun _ w hw => by simp at hw, fun _ h => by simp at h⟩
  · have g := getCapabilities_keeps (freshConn c net)
    revert g
    cases getCapabilities (freshConn c net) with
    | mk v2 c2 =>
      intro g
      have h2a : c2.authenticated = false := by rw [g.1.auth]; rfl
      have h2w : c2.writes = [] := by rw [g.2]; rfl
      have h2t : c2.tls = false := by rw [g.1.tls]; rfl
      cases v2 with
      | error e => exact ⟨fun h => by simp [h2a] at h, fun _ w hw => by simp [h2w] at hw, fun _ h => by simp at h⟩
      | ok b =>
        cases b with
        | false => exact ⟨fun h => by simp [h2a] at h, fun _ w hw => by simp [h2w] at hw, fun _ h => by simp at h⟩
        | true =>
          simp only
          cases useTls with
          | false =>
            simp only [maybeTls, Bool.false_eq_true, if_false]
            obtain ⟨ha, _, _⟩ := authenticate_spec c2 l p z m
            refine ⟨?_, fun h => by simp at h, fun h => by simp at h⟩
            intro h
            rcases ha h with h' | h'
            · simp [h2a] at h'
            · exact h'
          | true =>
            simp only [maybeTls, if_true]
            obtain ⟨s1, s2, s3⟩ := starttls_spec c2 env
            revert s1 s2 s3
            cases starttls c2 env with
            | mk v3 c3 =>
              intro s1 s2 s3
              simp only at s1 s2 s3
              have h3a : c3.authenticated = false := by rw [s1, h2a]
              have h3w : ∀ w ∈ c3.writes, w.1 = false → w.2 = commandBytes (sb "STARTTLS") [] := by
                intro w hw _
                rcases s2 with s2 | s2
                · rw [s2, h2w] at hw; simp at hw
                · rw [s2, h2w] at hw; simp at hw; rw [hw]
              cases v3 with
              | error e => exact ⟨fun h => by simp [h3a] at h, fun _ => h3w, fun _ h => by simp at h⟩
              | ok b3 =>
                cases b3 with
                | false => exact ⟨fun h => by simp [h3a] at h, fun _ => h3w, fun _ h => by simp at h⟩
                | true =>
                  simp only
                  obtain ⟨htls, htok⟩ := s3 rfl
                  obtain ⟨ha, hat, ws, haw⟩ := authenticate_spec c3 l p z m
                  refine ⟨?_, ?_, ?_⟩
                  · intro h
                    rcases ha h with h' | h'
                    · simp [h3a] at h'
                    · exact h'
                  · intro _ w hw hf
                    rw [haw] at hw
                    rcases List.mem_append.mp hw with h1 | h1
                    · exact h3w w h1 hf
                    · obtain ⟨b, _, rfl⟩ := List.mem_map.mp h1
                      simp [htls] at hf
                  · intro _ _
                    exact ⟨by rw [hat]; exact htls, htok⟩

end Client
