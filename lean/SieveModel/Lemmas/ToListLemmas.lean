import SieveModel.Model.ToList
/-! Lemmas about `tools.to_list` (model `ToList.toList`): reading back a rendered list. -/
namespace ToListLemmas
/-- `strip('"')` of a quoted value without quotes or backslashes gives the value back -/
theorem strip_quote_roundtrip (v : Bytes) (h1 : v.head? ≠ some 34) (h2 : v.getLast? ≠ some 34) :
    B.stripC 34 ([34] ++ v ++ [34]) = v := by
  cases hv0 : v with
  | nil => simp [B.stripC, B.stripL]
  | cons x0 xs0 =>
  rw [← hv0]
  have hne : v ≠ [] := by rw [hv0]; simp
  unfold B.stripC
  have a : B.stripL 34 ([34] ++ v ++ [34]) = v ++ [34] := by
    cases v with
    | nil => exact absurd rfl hne
    | cons x xs =>
      have : x ≠ 34 := by simpa using h1
      simp [B.stripL, this]
  rw [a]
  have b : (v ++ [34]).reverse = 34 :: v.reverse := by simp
  rw [b]
  have c : B.stripL 34 (34 :: v.reverse) = v.reverse := by
    cases hv : v.reverse with
    | nil => simp at hv; exact absurd hv hne
    | cons y ys =>
      have hy : y ≠ 34 := by
        intro hy
        apply h2
        have : v.getLast? = v.reverse.head? := by simp
        rw [this, hv]; simp [hy]
      simp [B.stripL, hy]
  rw [c]; simp
open ToList in
/-- splitting at commas undoes joining with commas, for pieces that contain none -/
theorem splitComma_joinComma (items : List Bytes) (hne : items ≠ []) (h : ∀ v ∈ items, ∀ c ∈ v, c ≠ 44) :
    splitComma (joinComma items) = items := by
  have piece : ∀ (v : Bytes), (∀ c ∈ v, c ≠ 44) → ∀ rest : Bytes, splitComma (v ++ 44 :: rest) = v :: splitComma rest := by
    intro v hv rest
    induction v with
    | nil => simp [splitComma]
    | cons c cs ih =>
      have hc : (c == 44) = false := by simpa using hv c (by simp)
      simp only [List.cons_append, splitComma, hc, Bool.false_eq_true, if_false]
      rw [ih (fun x hx => hv x (by simp [hx]))]
  have single : ∀ (v : Bytes), (∀ c ∈ v, c ≠ 44) → splitComma v = [v] := by
    intro v hv
    induction v with
    | nil => rfl
    | cons c cs ih =>
      have hc : (c == 44) = false := by simpa using hv c (by simp)
      simp only [splitComma, hc, Bool.false_eq_true, if_false]
      rw [ih (fun x hx => hv x (by simp [hx]))]
  induction items with
  | nil => exact absurd rfl hne
  | cons a rest ih =>
    cases rest with
    | nil => simpa [joinComma] using single a (h a (by simp))
    | cons b r =>
      have : joinComma (a :: b :: r) = a ++ 44 :: joinComma (b :: r) := by simp [joinComma]
      rw [this, piece a (h a (by simp)), ih (by simp) (fun v hv => h v (by simp [hv]))]

open ToList in
/-- **exact read-back of lists**: non-empty, items free of commas, not starting or ending with a quote -/
theorem list_read_back_exact (items : List Bytes) (hne : items ≠ [])
    (hc : ∀ v ∈ items, ∀ c ∈ v, c ≠ 44)
    (hq : ∀ v ∈ items, v.head? ≠ some 34 ∧ v.getLast? ≠ some 34) :
    toList (render items) = items := by
  unfold toList render inner
  have h1 : (List.drop 1 ([91] ++ joinComma (items.map (fun v => [34] ++ v ++ [34])) ++ [93])).dropLast
      = joinComma (items.map (fun v => [34] ++ v ++ [34])) := by simp
  rw [h1, splitComma_joinComma _ (by simpa using hne)]
  · simp only [if_true, List.map_map]
    have : ∀ l : List Bytes, (∀ v ∈ l, v.head? ≠ some 34 ∧ v.getLast? ≠ some 34) →
        l.map ((fun p => B.stripC 34 p) ∘ fun v => [34] ++ v ++ [34]) = l := by
      intro l hl
      induction l with
      | nil => rfl
      | cons v r ih =>
        simp only [List.map_cons, Function.comp]
        rw [strip_quote_roundtrip v (hl v (by simp)).1 (hl v (by simp)).2, ]
        congr 1
        exact ih (fun x hx => hl x (by simp [hx]))
    exact this items hq
  · intro v hv c hcv
    simp only [List.mem_map] at hv
    obtain ⟨w, hw, rfl⟩ := hv
    simp only [List.mem_append, List.mem_singleton, List.mem_cons, List.not_mem_nil, or_false] at hcv
    rcases hcv with (rfl | hcw) | rfl
    · decide
    · exact hc w hw c hcw
    · decide


end ToListLemmas
