import SieveModel.Lemmas.ReplyLine
import SieveModel.Lemmas.Codec
/-!
# Listings (T-LIST): a LISTSCRIPTS reply whose names are sent as quoted strings

A conforming server answers LISTSCRIPTS with one line per script — the name as a string, followed by
` ACTIVE` for the active one — and a final status line.  For names sent as *quoted strings* (any bytes
except CR and LF, with `\` and `"` escaped; RFC 5804 §4: names with CR / LF would need a literal) this
file proves, for every list of entries, every buffer / stream split and every recv schedule:

* `respLoop_data_lines` / `readResponse_lines` — the reader hands back the lines before the status
  line byte for byte and leaves exactly the bytes after the status line pending;
* `splitLines_joinCRLF` — `bytes.splitlines()` undoes the CRLF framing for lines without CR / LF;
* `parseListing_entries` — the listing decoder gives back every name exactly (un-escaping undoes the
  escaping), the inactive ones in the order sent, and the name marked ACTIVE as the active script.
-/
namespace Listing
open Reader Client ReplyDecode ReplyLine

/-- no CR and no LF among the bytes -/
def NoBreak (l : Bytes) : Prop := ∀ c ∈ l, c ≠ 13 ∧ c ≠ 10

instance : DecidablePred NoBreak := fun l => by unfold NoBreak; infer_instance

theorem NoBreak.noLF {l : Bytes} (h : NoBreak l) : NoLF l := fun c hc => (h c hc).2

theorem NoBreak.tail {c : UInt8} {l : Bytes} (h : NoBreak (c :: l)) : NoBreak l :=
  fun x hx => h x (by simp [hx])

/-- lines joined the way the protocol frames them -/
def joinCRLF : List Bytes → Bytes
  | [] => []
  | l :: ls => l ++ 13 :: 10 :: joinCRLF ls

/-! ## `bytes.splitlines()` -/

theorem splitLinesAux_line (l rest cur : Bytes) (h : NoBreak l) :
    splitLinesAux (l ++ 13 :: 10 :: rest) cur = (cur.reverse ++ l) :: splitLinesAux rest [] := by
  induction l generalizing cur with
  | nil => simp [splitLinesAux]
  | cons c l ih =>
    have hc := h c (by simp)
    simp only [List.cons_append]
    have e : splitLinesAux (c :: (l ++ 13 :: 10 :: rest)) cur = splitLinesAux (l ++ 13 :: 10 :: rest) (c :: cur) := by
      rw [splitLinesAux.eq_def]
      split <;> simp_all
    rw [e, ih (c :: cur) h.tail]
    simp

/-- `splitlines` undoes the CRLF framing of lines that hold neither CR nor LF -/
theorem splitLines_joinCRLF (ls : List Bytes) (h : ∀ l ∈ ls, NoBreak l) : splitLines (joinCRLF ls) = ls := by
  unfold splitLines
  induction ls with
  | nil => simp [joinCRLF, splitLinesAux]
  | cons l ls ih =>
    simp only [joinCRLF]
    rw [splitLinesAux_line l _ [] (h l (by simp)), ih (fun x hx => h x (by simp [hx]))]
    simp

/-! ## the reader on data lines -/

/-- a line the reader passes on as data: not empty, no CRLF inside, neither a size line nor a status line -/
structure DataLine (l : Bytes) : Prop where
  ne : l ≠ []
  one : splitCRLF l = none
  nosize : sizeMatch l = none
  nostatus : respMatch l = none

theorem readLine_data (st : RState) (line rest : Bytes) (hd : DataLine line)
    (hp : pending st = line ++ 13 :: 10 :: rest) :
    ∃ st1, readLine st = .ok (.line line, st1) ∧ pending st1 = rest ∧
      st1.errcode = st.errcode ∧ st1.errmsg = st.errmsg := by
  obtain ⟨st1, h1, h2, h3, h4, _⟩ := rawLine_pending st line rest hp hd.one
  refine ⟨st1, ?_, h2, h3, h4⟩
  unfold readLine
  rw [h1]
  have : line.isEmpty = false := by
    cases line with
    | nil => exact absurd rfl hd.ne
    | cons _ _ => rfl
  simp only [this, Bool.false_eq_true, if_false, hd.nosize, hd.nostatus]

/-- the reply loop takes data lines one by one, appending each with its CRLF, and consumes nothing else -/
theorem respLoop_data_lines (ls : List Bytes) (h : ∀ l ∈ ls, DataLine l) (st : RState) (tail : Bytes)
    (hp : pending st = joinCRLF ls ++ tail) :
    ∃ st1, pending st1 = tail ∧ st1.errcode = st.errcode ∧ st1.errmsg = st.errmsg ∧
      ∀ (k cpt : Nat) (acc : Bytes),
        respLoop none (k + ls.length) acc cpt st = respLoop none k (acc ++ joinCRLF ls) (cpt + ls.length) st1 := by
  induction ls generalizing st with
  | nil =>
    refine ⟨st, by simpa [joinCRLF] using hp, rfl, rfl, ?_⟩
    intro k cpt acc
    simp [joinCRLF]
  | cons l ls ih =>
    have hd := h l (by simp)
    have hp' : pending st = l ++ 13 :: 10 :: (joinCRLF ls ++ tail) := by
      rw [hp]; simp [joinCRLF]
    obtain ⟨st1, h1, hp1, hc1, hm1⟩ := readLine_data st l _ hd hp'
    obtain ⟨st2, hp2, hc2, hm2, hloop⟩ := ih (fun x hx => h x (by simp [hx])) st1 hp1
    refine ⟨st2, hp2, hc2.trans hc1, hm2.trans hm1, ?_⟩
    intro k cpt acc
    have hk : k + (l :: ls).length = (k + ls.length) + 1 := by simp; omega
    rw [hk, respLoop, h1]
    have hl : l.isEmpty = false := by
      cases l with
      | nil => exact absurd rfl hd.ne
      | cons _ _ => rfl
    simp only [hl, Bool.false_eq_true, if_false]
    have hn : ((none : Option Nat) == some (cpt + 1)) = false := rfl
    simp only [hn, Bool.false_eq_true, if_false]
    rw [hloop k (cpt + 1) (acc ++ l ++ CRLF)]
    have e1 : acc ++ l ++ CRLF ++ joinCRLF ls = acc ++ joinCRLF (l :: ls) := by
      simp [joinCRLF, CRLF]
    have e2 : cpt + 1 + ls.length = cpt + (l :: ls).length := by simp; omega
    rw [e1, e2]

/-- **data lines followed by an `OK` status line** (bare, or with a text that does not end in a size
    indication): the content is the lines, framed as sent; exactly what follows the status line stays pending -/
theorem readResponse_lines (ls : List Bytes) (h : ∀ l ∈ ls, DataLine l) (st : RState) (fin rest : Bytes)
    (d : Option Bytes) (hl : splitCRLF fin = none) (hne : fin ≠ []) (hsz : sizeMatch fin = none)
    (hr : respMatch fin = some (.OK, d)) (hts : d.bind trailingSize = none)
    (hp : pending st = joinCRLF ls ++ (fin ++ 13 :: 10 :: rest)) :
    ∃ st', readResponse none st = .ok (⟨some .OK, d, joinCRLF ls⟩, st') ∧ pending st' = rest ∧
      st'.errcode = st.errcode ∧ st'.errmsg = st.errmsg := by
  obtain ⟨st1, hp1, hc1, hm1, hloop⟩ := respLoop_data_lines ls h st _ hp
  obtain ⟨st2, h2, hp2, hc2, hm2⟩ := readLine_ok st1 fin rest d hp1 hl hne hsz hr hts
  refine ⟨st2, ?_, hp2, hc2.trans hc1, hm2.trans hm1⟩
  unfold readResponse
  have hlen : (pending st).length = st.buf.length + st.net.stream.length := by simp [pending]
  have hjl : ∀ xs : List Bytes, xs.length ≤ (joinCRLF xs).length := by
    intro xs
    induction xs with
    | nil => simp [joinCRLF]
    | cons x xs ih => simp [joinCRLF]; omega
  have hge : ls.length + 1 ≤ st.buf.length + st.net.stream.length + 1 := by
    rw [← hlen, hp]
    have := hjl ls
    simp
    omega
  obtain ⟨k, hk⟩ : ∃ k, st.buf.length + st.net.stream.length + 1 = (k + 1) + ls.length :=
    ⟨st.buf.length + st.net.stream.length - ls.length, by omega⟩
  rw [hk, hloop (k + 1) 0 [], respLoop, h2]
  simp

/-! ## entries of a listing -/

structure Entry where
  name : Bytes
  active : Bool
  deriving Repr

/-- one line of the listing: the name as a quoted string, ` ACTIVE` behind the active one -/
def encEntry (e : Entry) : Bytes :=
  34 :: (escapeQ e.name ++ 34 :: (if e.active then sb " ACTIVE" else []))

/-- the listing on the wire -/
def wire (es : List Entry) : Bytes := joinCRLF (es.map encEntry)

def inactive (es : List Entry) : List Bytes := (es.filter (fun e => !e.active)).map (·.name)

/-- the name marked ACTIVE (the last one, should a server mark several) -/
def activeOf : List Entry → Option Bytes → Option Bytes
  | [], a => a
  | e :: es, a => activeOf es (if e.active then some e.name else a)

/-- when every flagged entry carries the same name, that name is the active one iff some entry is flagged -/
theorem activeOf_flagged (es : List Entry) (a : Bytes) (init : Option Bytes) (h : ∀ e ∈ es, e.active = true → e.name = a) :
    activeOf es init = if es.any (·.active) then some a else init := by
  induction es generalizing init with
  | nil => simp [activeOf]
  | cons e es ih =>
    have ih' := ih (init := if e.active then some e.name else init) (fun x hx => h x (by simp [hx]))
    simp only [activeOf, ih', List.any_cons]
    by_cases ha : e.active = true
    · have hn := h e (by simp) ha
      simp only [ha, if_true, Bool.true_or, hn]
      split <;> rfl
    · have ha' : e.active = false := by simpa using ha
      simp only [ha', Bool.false_eq_true, if_false, Bool.false_or]


theorem mem_escapeQ (v : Bytes) (c : UInt8) (h : c ∈ escapeQ v) : c ∈ v ∨ c = 92 := by
  induction v with
  | nil => simp [escapeQ] at h
  | cons x xs ih =>
    unfold escapeQ at h
    split at h
    · simp only [List.mem_cons] at h
      rcases h with rfl | rfl | h
      · right; rfl
      · right; rfl
      · rcases ih h with h | h
        · left; simp [h]
        · right; exact h
    · split at h
      · rename_i h34
        simp only [List.mem_cons] at h
        rcases h with rfl | rfl | h
        · right; rfl
        · left; simp at h34; simp [h34]
        · rcases ih h with h | h
          · left; simp [h]
          · right; exact h
      · simp only [List.mem_cons] at h
        rcases h with rfl | h
        · left; simp
        · rcases ih h with h | h
          · left; simp [h]
          · right; exact h

theorem encEntry_noBreak (e : Entry) (h : NoBreak e.name) : NoBreak (encEntry e) := by
  intro c hc
  unfold encEntry at hc
  simp only [List.mem_cons, List.mem_append] at hc
  rcases hc with rfl | hc | rfl | hc
  · decide
  · rcases mem_escapeQ _ _ hc with h1 | rfl
    · exact h c h1
    · decide
  · decide
  · split at hc
    · have hall : ∀ x ∈ sb " ACTIVE", x ≠ 13 ∧ x ≠ 10 := by decide
      exact hall c hc
    · simp at hc

theorem encEntry_dataLine (e : Entry) (h : NoBreak e.name) : DataLine (encEntry e) where
  ne := by simp [encEntry]
  one := splitCRLF_none_of_noLF _ (encEntry_noBreak e h).noLF
  nosize := by simp [encEntry, sizeMatch]
  nostatus := by simp [encEntry, respMatch]

/-- **the listing decoder gives back what was sent**: every name exactly, inactive ones in order, the one
    marked ACTIVE as the active script -/
theorem parseListing_entries (es : List Entry) (hv : ∀ e ∈ es, Utf8.valid e.name = true)
    (act : Option Bytes) (acc : List Bytes) :
    parseListing (es.map encEntry) act acc = .ok (activeOf es act, acc ++ inactive es) := by
  induction es generalizing act acc with
  | nil => simp [parseListing, activeOf, inactive]
  | cons e es ih =>
    have hve := hv e (by simp)
    have ih' := ih (fun x hx => hv x (by simp [hx]))
    simp only [List.map_cons]
    have hstep : parseListing (encEntry e :: es.map encEntry) act acc =
        (if e.active then parseListing (es.map encEntry) (some e.name) acc
         else parseListing (es.map encEntry) act (acc ++ [e.name])) := by
      unfold encEntry
      rw [parseListing]
      simp only [quotedBody_escapeQ, unescape_escapeQ, hve, Bool.not_true, Bool.false_eq_true, if_false]
      cases e.active with
      | false =>
        have : activeMatch (List.takeWhile (fun x => x != 10) (List.dropWhile B.isWs ([] : Bytes))) = false := by decide
        simp only [Bool.false_eq_true, if_false, this]
      | true =>
        have : activeMatch (List.takeWhile (fun x => x != 10) (List.dropWhile B.isWs (sb " ACTIVE"))) = true := by decide
        simp only [if_true, this]
    rw [hstep]
    cases ha : e.active with
    | false =>
      simp only [Bool.false_eq_true, if_false]
      rw [ih']
      simp [activeOf, inactive, ha]
    | true =>
      simp only [if_true]
      rw [ih']
      simp [activeOf, inactive, ha]

/-- reading a listing's content back: split at the line ends, then decode -/
theorem listing_decodes (es : List Entry) (hb : ∀ e ∈ es, NoBreak e.name) (hv : ∀ e ∈ es, Utf8.valid e.name = true) :
    parseListing (splitLines (wire es)) none [] = .ok (activeOf es none, inactive es) := by
  unfold wire
  rw [splitLines_joinCRLF]
  · simpa using parseListing_entries es hv none []
  · intro l hl
    obtain ⟨e, he, rfl⟩ := List.mem_map.1 hl
    exact encEntry_noBreak e (hb e he)

/-- **LISTSCRIPTS end to end at the client level**: with the listing and a bare `OK` pending after the
    command has been written, `listscripts` returns the names and the active script the server sent and
    leaves exactly the following bytes pending -/
theorem listscripts_returns_the_listing (c : Client) (es : List Entry) (rest : Bytes)
    (ha : c.authenticated = true) (hc : c.connected = true)
    (hb : ∀ e ∈ es, NoBreak e.name) (hv : ∀ e ∈ es, Utf8.valid e.name = true)
    (hp : pending (afterWrites c (sb "LISTSCRIPTS") [] []).r = wire es ++ (sb "OK" ++ 13 :: 10 :: rest)) :
    (listscripts c).1 = .ok (some (activeOf es none, inactive es)) ∧ pending (listscripts c).2.r = rest := by
  have hd : ∀ l ∈ es.map encEntry, DataLine l := by
    intro l hl
    obtain ⟨e, he, rfl⟩ := List.mem_map.1 hl
    exact encEntry_dataLine e (hb e he)
  obtain ⟨st', hr, hp', _, _⟩ := readResponse_lines (es.map encEntry) hd _ (sb "OK") rest none
    (by decide) (by decide) (by decide) (by decide) rfl hp
  have hdec := listing_decodes es hb hv
  unfold wire at hdec
  have hres : listscripts c = (.ok (some (activeOf es none, inactive es)), { afterWrites c (sb "LISTSCRIPTS") [] [] with r := st' }) := by
    simp only [listscripts, guarded, ha, if_true, sendCommand, hc, Bool.not_true, Bool.false_eq_true, if_false,
      awaitReply, hr, decodeReply]
    simp only [show ((some Status.OK : Option Status) == some Status.NO) = false from by decide, Bool.false_eq_true, if_false, hdec]
  rw [hres]
  exact ⟨rfl, hp'⟩

/-! ## script bodies -/

theorem joinCRLF_append (a b : List Bytes) : joinCRLF (a ++ b) = joinCRLF a ++ joinCRLF b := by
  induction a with
  | nil => simp [joinCRLF]
  | cons x xs ih => simp [joinCRLF, ih]

theorem endsWithCRLF_snoc (x : Bytes) : endsWithCRLF (x ++ [13, 10]) = true := by
  simp [endsWithCRLF, List.reverse_append]

theorem endsWithCRLF_joinCRLF (ls : List Bytes) (hne : ls ≠ []) : endsWithCRLF (joinCRLF ls) = true := by
  obtain ⟨init, last, rfl⟩ : ∃ init last, ls = init ++ [last] := by
    refine ⟨ls.dropLast, ls.getLast hne, ?_⟩
    exact (List.dropLast_concat_getLast hne).symm
  rw [joinCRLF_append]
  have : joinCRLF [last] = last ++ [13, 10] := by simp [joinCRLF]
  rw [this, ← List.append_assoc]
  exact endsWithCRLF_snoc _

theorem endsWithCRLF_open (x last : Bytes) (hne : last ≠ []) (hb : NoBreak last) : endsWithCRLF (x ++ last) = false := by
  obtain ⟨init, z, rfl⟩ : ∃ init z, last = init ++ [z] :=
    ⟨last.dropLast, last.getLast hne, (List.dropLast_concat_getLast hne).symm⟩
  have hz : z ≠ 10 := (hb z (by simp)).2
  simp only [endsWithCRLF, List.reverse_append, List.reverse_cons, List.reverse_nil, List.nil_append,
    List.cons_append]
  split
  · rename_i heq
    simp only [List.cons.injEq] at heq
    exact absurd heq.1 hz
  · rfl

/-- the server's literal: `{n}` CRLF and the `n` octets -/
def literalS (b : Bytes) : Bytes := 123 :: (B.natToDec b.length ++ [125]) ++ 13 :: 10 :: b

/-- **GETSCRIPT end to end at the client level**, script stored as CRLF-terminated lines: the caller gets
    those lines, joined with LF (Python's line convention), whatever they contain besides CR and LF —
    `OK`, `NO "x"`, `{5}`, quotes, NUL — and exactly the following bytes stay pending -/
theorem getscript_returns_the_lines (c : Client) (name : Bytes) (ls : List Bytes) (rest : Bytes)
    (ha : c.authenticated = true) (hc : c.connected = true) (hne : ls ≠ [])
    (hb : ∀ l ∈ ls, NoBreak l) (hv : ∀ l ∈ ls, Utf8.valid l = true)
    (hp : pending (afterWrites c (sb "GETSCRIPT") [.str name] []).r =
            literalS (joinCRLF ls) ++ 13 :: 10 :: (sb "OK" ++ 13 :: 10 :: rest)) :
    (getscript c name).1 = .ok (some (joinNl ls)) ∧ pending (getscript c name).2.r = rest := by
  obtain ⟨hd1, hd2, hd3⟩ := Codec.natToDec_spec (joinCRLF ls).length
  obtain ⟨st', hr, hp'⟩ := readResponse_literal_ok none _ (B.natToDec (joinCRLF ls).length) (joinCRLF ls) rest hd1 hd2 hd3
    (by rw [hp]; simp [literalS])
  rw [endsWithCRLF_joinCRLF ls hne] at hr
  have hres : getscript c name = (.ok (some (joinNl ls)), { afterWrites c (sb "GETSCRIPT") [.str name] [] with r := st' }) := by
    simp only [getscript, guarded, ha, if_true, sendCommand, hc, Bool.not_true, Bool.false_eq_true, if_false,
      awaitReply, hr, decodeReply]
    have hall : ls.all Utf8.valid = true := List.all_eq_true.2 hv
    simp only [show ((some Status.OK : Option Status) == some Status.OK) = true from by decide, if_true, hall,
      splitLines_joinCRLF ls hb]
  rw [hres]
  exact ⟨rfl, hp'⟩

/-- the same for a script whose last line has no line terminator -/
theorem getscript_returns_the_lines_open (c : Client) (name : Bytes) (ls : List Bytes) (last rest : Bytes)
    (ha : c.authenticated = true) (hc : c.connected = true) (hlast : last ≠ [])
    (hb : ∀ l ∈ ls ++ [last], NoBreak l) (hv : ∀ l ∈ ls ++ [last], Utf8.valid l = true)
    (hp : pending (afterWrites c (sb "GETSCRIPT") [.str name] []).r =
            literalS (joinCRLF ls ++ last) ++ 13 :: 10 :: (sb "OK" ++ 13 :: 10 :: rest)) :
    (getscript c name).1 = .ok (some (joinNl (ls ++ [last]))) ∧ pending (getscript c name).2.r = rest := by
  obtain ⟨hd1, hd2, hd3⟩ := Codec.natToDec_spec (joinCRLF ls ++ last).length
  obtain ⟨st', hr, hp'⟩ := readResponse_literal_ok none _ (B.natToDec (joinCRLF ls ++ last).length) (joinCRLF ls ++ last) rest
    hd1 hd2 hd3 (by rw [hp]; simp [literalS])
  rw [endsWithCRLF_open _ last hlast (hb last (by simp))] at hr
  have hcont : joinCRLF ls ++ last ++ CRLF = joinCRLF (ls ++ [last]) := by
    rw [joinCRLF_append]; simp [joinCRLF, CRLF]
  simp only [Bool.false_eq_true, if_false, hcont] at hr
  have hres : getscript c name =
      (.ok (some (joinNl (ls ++ [last]))), { afterWrites c (sb "GETSCRIPT") [.str name] [] with r := st' }) := by
    simp only [getscript, guarded, ha, if_true, sendCommand, hc, Bool.not_true, Bool.false_eq_true, if_false,
      awaitReply, hr, decodeReply]
    have hall : (ls ++ [last]).all Utf8.valid = true := List.all_eq_true.2 hv
    simp only [show ((some Status.OK : Option Status) == some Status.OK) = true from by decide, if_true, hall,
      splitLines_joinCRLF _ hb]
  rw [hres]
  exact ⟨rfl, hp'⟩

end Listing
