import SieveModel.Lemmas.Machine
/-!
# The loaded-extension list changes only when a `require` command is completed

Step-level and trace-level facts about `PState.loaded` (C07).
-/
namespace Loaded
open Machine Args

/-- the result state, if any, has this loaded list -/
def Keeps (ld : List Bytes) (r : FnResult) : Prop :=
  match r with
  | .ret _ s' _ => s'.loaded = ld
  | _ => True

theorem keeps_ofCmdErr (ld : List Bytes) (rew : Bool) (e : CmdErr) : Keeps ld (ofCmdErr rew e) := by
  cases e <;> trivial

theorem withTop_loaded (s : PState) (f : Frame) : (withTop s f).loaded = s.loaded := by
  unfold withTop; split <;> rfl

theorem curCheck_loaded (s : PState) (t : ArgType) (v : AVal) (b : Bool) (s' : PState) (pl : Placement)
    (h : curCheck s t v = .ok (b, s', pl)) : s'.loaded = s.loaded := by
  unfold curCheck at h
  split at h
  · simp at h
  · split at h
    · simp at h
    · simp at h; rw [← h.2.1]
    · simp at h; rw [← h.2.1]; exact withTop_loaded _ _

theorem completion_loaded (s : PState) (ts : Bool) (b : Bool) (s' : PState)
    (h : completion s ts = .ok (b, s')) : s'.loaded = s.loaded := by
  unfold completion at h
  split at h
  · simp at h
  · split at h
    · simp at h; rw [← h.2]
    · split at h
      · simp at h; rw [← h.2]; split <;> rfl
      · split at h
        · simp at h
        · simp at h; rw [← h.2]

theorem keeps_complThen (s : PState) (ts rew : Bool) : Keeps s.loaded (complThen s ts rew) := by
  unfold complThen
  split
  · exact keeps_ofCmdErr _ _ _
  · rename_i b s' h
    exact completion_loaded s ts b s' h

theorem keeps_complThen' (s : PState) (ld : List Bytes) (h : s.loaded = ld) (ts rew : Bool) :
    Keeps ld (complThen s ts rew) := h ▸ keeps_complThen s ts rew

theorem up_loaded (s s' : PState) (h : up s = .ok s') : s'.loaded = s.loaded := by
  unfold up at h
  split at h
  · simp at h
  · simp at h
    rw [← h]
    simp only
    unfold record
    split <;> rfl

theorem popBracket_loaded (s s1 : PState) (k : TokKind) (h : popBracket s k = some s1) : s1.loaded = s.loaded := by
  unfold popBracket at h
  split at h
  · simp at h
  · split at h
    · simp at h; rw [← h]
    · simp at h

theorem keeps_offer (s : PState) (t : ArgType) (v : AVal) : Keeps s.loaded (offer s t v) := by
  unfold offer
  split
  · exact keeps_ofCmdErr _ _ _
  · rename_i b s' pl h
    exact curCheck_loaded s t v b s' pl h

theorem keeps_tryReassign (s : PState) : Keeps s.loaded (tryReassign s) := by
  unfold tryReassign
  split
  · trivial
  · split
    · split
      · rfl
      · exact withTop_loaded _ _
    · rfl

theorem keeps_thenCompl (ld : List Bytes) (r : FnResult) (h : Keeps ld r) : Keeps ld (thenCompl r) := by
  unfold thenCompl
  split
  · rename_i s' rew
    have h' : s'.loaded = ld := h
    rw [← h']
    exact keeps_complThen s' false rew
  · exact h

theorem keeps_argThenCompl (s : PState) (k : TokKind) (text : Bytes) : Keeps s.loaded (argThenCompl s k text) := by
  unfold argThenCompl
  apply keeps_thenCompl
  have hoff : ∀ t v, Keeps s.loaded (if (!Utf8.valid text) = true then FnResult.err PErr.decodeError false else offer s t v) := by
    intro t v; split
    · trivial
    · exact keeps_offer s t v
  cases k with
  | string => exact hoff _ _
  | multiline => exact hoff _ _
  | number => exact keeps_offer _ _ _
  | tag => exact keeps_offer _ _ _
  | left_bracket => rfl
  | left_cbracket => exact keeps_tryReassign s
  | comma => exact keeps_tryReassign s
  | right_parenthesis => exact keeps_tryReassign s
  | semicolon => rfl
  | right_bracket => rfl
  | left_parenthesis => rfl
  | right_cbracket => rfl
  | hash_comment => rfl
  | bracket_comment => rfl
  | identifier => rfl

theorem keeps_pushTest (T : Table) (s : PState) (text : Bytes) : Keeps s.loaded (pushTest T s text) := by
  unfold pushTest
  split
  · trivial
  · rename_i d hd
    split
    · trivial
    · split
      · exact keeps_ofCmdErr _ _ _
      · rename_i s1 pl h
        exact curCheck_loaded _ _ _ _ _ _ h
      · rename_i s1 pl h
        have h1 := curCheck_loaded _ _ _ _ _ _ h
        exact keeps_complThen' ⟨s1.result, s1.comments, { d := d, attach := .place pl } :: s1.stack, s1.cstate, s1.curlist, d.expectedFirst, s1.brackets, s1.loaded⟩ _ h1 false false

theorem keeps_closeParen (s : PState) : Keeps s.loaded (closeParen s) := by
  unfold closeParen
  split
  · trivial
  · rename_i s1 h1
    split
    · trivial
    · rename_i s2 h2
      show s2.loaded = s.loaded
      rw [up_loaded s1 s2 h2, popBracket_loaded s s1 _ h1]

theorem keeps_argumentsFn (T : Table) (s : PState) (k : TokKind) (text : Bytes) :
    Keeps s.loaded (argumentsFn T s k text) := by
  unfold argumentsFn
  split
  · trivial
  · split
    · exact keeps_pushTest T s text
    · split
      · rfl
      · exact keeps_argThenCompl s _ text
    · split
      · rfl
      · exact keeps_argThenCompl s _ text
    · split
      · exact keeps_argThenCompl s _ text
      · exact keeps_closeParen s
    · exact keeps_argThenCompl s _ text

theorem keeps_stringlistFn (s : PState) (k : TokKind) (text : Bytes) : Keeps s.loaded (stringlistFn s k text) := by
  unfold stringlistFn
  split
  · split <;> first | trivial | rfl
  · rfl
  · split
    · trivial
    · rename_i s1 h1
      have hp := popBracket_loaded s s1 _ h1
      split
      · exact keeps_ofCmdErr _ _ _
      · rename_i s2 pl h
        show s2.loaded = s.loaded
        rw [curCheck_loaded _ _ _ _ _ _ h, hp]
      · rename_i s2 pl h
        have h2 := curCheck_loaded _ _ _ _ _ _ h
        exact keeps_complThen' _ _ (by show s2.loaded = s.loaded; rw [h2, hp]) true false
  · rfl

theorem keeps_stateFn (T : Table) (s : PState) (k : TokKind) (text : Bytes) : Keeps s.loaded (stateFn T s k text) := by
  unfold stateFn
  split
  · exact keeps_stringlistFn s k text
  · exact keeps_argumentsFn T s k text

theorem keeps_startCommand (T : Table) (s : PState) (k : TokKind) (text : Bytes) :
    Keeps s.loaded (startCommand T s k text) := by
  unfold startCommand
  split
  · split
    · trivial
    · rename_i s1 h1
      split
      · trivial
      · rename_i s2 h2
        show s2.loaded = s.loaded
        rw [up_loaded s1 s2 h2, popBracket_loaded s s1 _ h1]
  · split
    · rfl
    · split
      · trivial
      · rename_i d hd
        split
        · trivial
        · split
          · trivial
          · have ha : (announce s d).loaded = s.loaded := by unfold announce; split <;> rfl
            unfold pushCommand
            split
            · exact ha
            · split
              · trivial
              · exact ha

/-- what a `;` does to the loaded list: the completion callback of the current command -/
def BySemicolon (s : PState) (ld' : List Bytes) : Prop :=
  ∃ g rest, s.stack = g :: rest ∧ ld' = completeCb g s.loaded

/-- the completion check of a command that is neither a test nor a block owner changes nothing (`testsemicolon=False`) -/
theorem completion_leaf (s : PState) (f : Frame) (rest : List Frame) (hs : s.stack = f :: rest)
    (hk : f.d.kind ≠ .test) (hc : f.d.acceptChildren = false) : completion s false = .ok (true, s) := by
  unfold completion
  rw [hs]
  simp only
  by_cases hcm : Frame.complete f = true
  · simp only [hcm, Bool.not_true, Bool.false_eq_true, if_false]
    have hna : (f.d.kind == .action || (f.d.kind == .control && !f.d.acceptChildren)) = true := by
      cases hkk : f.d.kind <;> simp [hkk, hc] at hk ⊢
    simp [hna]
  · simp [hcm]

def CloseRel (s' : PState) (k : TokKind) (r : FnResult) : Prop :=
  match r with
  | .ret true s2 _ => s2.loaded = s'.loaded ∨ (k = .semicolon ∧ BySemicolon s' s2.loaded)
  | .ret false s2 _ => s2.loaded = s'.loaded
  | _ => True

theorem closeCommand_loaded (s' : PState) (k : TokKind) (rew : Bool) : CloseRel s' k (closeCommand s' k rew) := by
  unfold closeCommand
  by_cases hk1 : (k == .left_cbracket) = true
  · simp only [hk1, if_true]
    split
    · trivial
    · split
      · exact Or.inl rfl
      · rfl
  · simp only [hk1, Bool.false_eq_true, if_false]
    by_cases hk2 : (k == .semicolon) = true
    · simp only [hk2, if_true]
      have hkk : k = .semicolon := by simpa using hk2
      obtain ⟨res, com, stk, cst, cur, exp, br, ld⟩ := s'
      cases stk with
      | nil => trivial
      | cons f rest =>
        simp only
        by_cases hcond : (f.d.kind == .test || f.d.acceptChildren) = true
        · simp only [hcond, if_true]
          exact rfl
        · simp only [hcond, Bool.false_eq_true, if_false]
          simp only [Bool.or_eq_true, beq_iff_eq, not_or] at hcond
          have hac : f.d.acceptChildren = false := by simpa using hcond.2
          rw [completion_leaf ⟨res, com, f :: rest, .none, cur, exp, br, ld⟩ f rest rfl hcond.1 hac]
          simp only
          cases hup : up ⟨res, com, f :: rest, .none, cur, exp, br, completeCb f ld⟩ with
          | error w => trivial
          | ok s4 =>
            have h4 := up_loaded _ s4 hup
            exact Or.inr ⟨hkk, f, rest, rfl, by rw [h4]⟩
    · simp only [hk2, Bool.false_eq_true, if_false]
      exact rfl

/-- `startCommand` never asks for a rewind -/
theorem isRewFalse_start (T : Table) (s : PState) (k : TokKind) (text : Bytes) :
    ∀ b s2, startCommand T s k text ≠ .ret b s2 true := by
  intro b s2 h
  unfold startCommand at h
  split at h
  · split at h
    · simp at h
    · split at h <;> simp at h
  · split at h
    · simp at h
    · split at h
      · simp at h
      · split at h
        · simp at h
        · split at h
          · simp at h
          · unfold pushCommand at h
            split at h
            · simp at h
            · split at h <;> simp at h

/-- the rewind flag of `closeCommand` is the one it was given -/
theorem closeCommand_rew (s' : PState) (k : TokKind) (rew : Bool) :
    ∀ b s2 r, closeCommand s' k rew = .ret b s2 r → r = rew := by
  intro b s2 r h
  unfold closeCommand at h
  split at h
  · split at h
    · simp at h
    · split at h <;> (simp at h; exact h.2.2.symm)
  · split at h
    · split at h
      · simp at h
      · split at h
        · simp at h; exact h.2.2.symm
        · split at h
          · rename_i e _
            cases e <;> simp [ofCmdErr] at h
          · simp at h; exact h.2.2.symm
          · split at h
            · simp at h
            · simp only at h
              split at h
              · simp at h
              · simp at h; exact h.2.2.symm
    · simp at h; exact h.2.2.symm

/-- a state function answers `False` to `;` without touching the state -/
theorem stateFn_semicolon (T : Table) (s : PState) (text : Bytes) :
    stateFn T s .semicolon text = .ret false s false ∨ ∃ w, stateFn T s .semicolon text = .crash w := by
  unfold stateFn
  split
  · left; rfl
  · unfold argumentsFn
    split
    · right; exact ⟨_, rfl⟩
    · left; rfl

/-- relation between the loaded lists before and after one call of `__command` -/
def StepRel (s : PState) (k : TokKind) (ld' : List Bytes) : Prop :=
  ld' = s.loaded ∨ (k = .semicolon ∧ BySemicolon s ld')

theorem commandFn_loaded (T : Table) (s : PState) (k : TokKind) (text : Bytes) (b : Bool) (s2 : PState) (rew : Bool)
    (h : commandFn T s k text = .ret b s2 rew) : StepRel s k s2.loaded := by
  unfold commandFn at h
  split at h
  · have := keeps_startCommand T s k text
    rw [h] at this
    exact Or.inl this
  · have hk := keeps_stateFn T s k text
    cases hr : stateFn T s k text with
    | crash w => rw [hr] at h; simp at h
    | err e r => rw [hr] at h; simp at h
    | ret b' s' rew' =>
      rw [hr] at h hk
      have hs' : s'.loaded = s.loaded := hk
      cases b' with
      | true =>
        simp only at h
        injection h with h1 h2 h3
        subst h2
        exact Or.inl hs'
      | false =>
        simp only at h
        have hc := closeCommand_loaded s' k rew'
        rw [h] at hc
        cases b with
        | false =>
          have : s2.loaded = s'.loaded := hc
          exact Or.inl (by rw [this, hs'])
        | true =>
          rcases hc with hc | ⟨hkk, g, rest, hst, hld⟩
          · exact Or.inl (by rw [hc, hs'])
          · right
            subst hkk
            rcases stateFn_semicolon T s text with h1 | ⟨w, h1⟩
            · rw [h1] at hr
              injection hr with _ h2 _
              subst h2
              exact ⟨rfl, g, rest, hst, hld⟩
            · rw [h1] at hr; simp at hr

theorem step_loaded (T : Table) (s : PState) (tok : Tok) (s' : PState)
    (h : step T s tok = .ok s' ∨ step T s tok = .rewind s') : StepRel s tok.kind s'.loaded := by
  unfold step at h
  split at h
  · rcases h with h | h <;> simp at h
    rw [← h]; exact Or.inl rfl
  · rcases h with h | h <;> simp at h
    rw [← h]; exact Or.inl rfl
  · unfold stepTok at h
    split at h
    · rcases h with h | h <;> simp at h
    · rename_i s1 hadm
      have hs1 : s1.loaded = s.loaded ∧ s1.stack = s.stack := by
        unfold admitTok at hadm
        split at hadm
        · simp at hadm; subst hadm; exact ⟨rfl, rfl⟩
        · split at hadm
          · simp at hadm; subst hadm; exact ⟨rfl, rfl⟩
          · simp at hadm
      have key : ∃ b rew, commandFn T s1 tok.kind tok.text = .ret b s' rew := by
        unfold ofFn at h
        split at h
        · rename_i s2 heq; rcases h with h | h <;> simp at h; subst h; exact ⟨_, _, heq⟩
        · rename_i s2 heq; rcases h with h | h <;> simp at h; subst h; exact ⟨_, _, heq⟩
        · rcases h with h | h <;> simp at h
        · rcases h with h | h <;> simp at h
        · rcases h with h | h <;> simp at h
      obtain ⟨b, rew, hc⟩ := key
      rcases commandFn_loaded T s1 tok.kind tok.text b s' rew hc with h1 | ⟨h1, g, rest, hst, hld⟩
      · exact Or.inl (by rw [h1, hs1.1])
      · exact Or.inr ⟨h1, g, rest, by rw [← hs1.2]; exact hst, by rw [hld, hs1.1]⟩

/-- `;` never sends the token back -/
theorem step_semicolon_no_rewind (T : Table) (s : PState) (tok : Tok) (hk : tok.kind = .semicolon) (s' : PState) :
    step T s tok ≠ .rewind s' := by
  intro h
  unfold step at h
  split at h
  · simp at h
  · simp at h
  · unfold stepTok at h
    split at h
    · simp at h
    · rename_i s1 _
      unfold ofFn at h
      split at h <;> simp at h
      rename_i s2 heq
      unfold commandFn at heq
      split at heq
      · exact isRewFalse_start T s1 tok.kind tok.text _ _ heq
      · rw [hk] at heq
        rcases stateFn_semicolon T s1 tok.text with h1 | ⟨w, h1⟩
        · rw [h1] at heq
          simp only at heq
          have := closeCommand_rew s1 .semicolon false _ _ _ heq
          simp at this
        · rw [h1] at heq; simp at heq

theorem addExts_origin (ld xs : List Bytes) (e : Bytes) (h : e ∈ addExts ld xs) :
    e ∈ ld ∨ e ∈ xs.map (B.stripC 34) := by
  induction xs generalizing ld with
  | nil => left; simpa [addExts] using h
  | cons x rest ih =>
    simp only [addExts, List.foldl_cons] at h
    rcases ih (addExt ld x) h with h1 | h1
    · unfold addExt at h1
      split at h1
      · exact Or.inl h1
      · simp only [List.mem_append, List.mem_singleton] at h1
        rcases h1 with h1 | h1
        · exact Or.inl h1
        · right; simp [h1]
    · right
      simp only [List.map_cons, List.mem_cons]
      exact Or.inr h1

/-- `e` is named by the `require` command that this `;` completes -/
def Origin (s : PState) (tok : Tok) (e : Bytes) : Prop :=
  tok.kind = .semicolon ∧ ∃ g rest, s.stack = g :: rest ∧ g.d.special = .require ∧
    e ∈ (capabilityArgs g.st.arguments).map (B.stripC 34)

theorem stepRel_origin (s : PState) (tok : Tok) (ld' : List Bytes) (h : StepRel s tok.kind ld') :
    ∀ e ∈ ld', e ∈ s.loaded ∨ Origin s tok e := by
  intro e he
  rcases h with h | ⟨hk, g, rest, hst, hld⟩
  · left; rw [← h]; exact he
  · rw [hld] at he
    unfold completeCb at he
    split at he
    · rename_i hsp
      rcases addExts_origin _ _ _ he with h1 | h1
      · exact Or.inl h1
      · exact Or.inr ⟨hk, g, rest, hst, hsp, h1⟩
    · exact Or.inl he

theorem deliver_loaded (T : Table) (s : PState) (tok : Tok) (s' : PState) (h : deliver T s tok = .ok s') :
    ∀ e ∈ s'.loaded, e ∈ s.loaded ∨ Origin s tok e := by
  unfold deliver at h
  cases hst : step T s tok with
  | ok s1 =>
    rw [hst] at h
    simp at h
    subst h
    exact stepRel_origin s tok _ (step_loaded T s tok s1 (Or.inl hst))
  | reject e r => rw [hst] at h; simp at h
  | crash w => rw [hst] at h; simp at h
  | rewind s1 =>
    rw [hst] at h
    simp only at h
    have hns : tok.kind ≠ .semicolon := fun hk => step_semicolon_no_rewind T s tok hk s1 hst
    have h1 : s1.loaded = s.loaded := by
      rcases step_loaded T s tok s1 (Or.inr hst) with h1 | ⟨hk, _⟩
      · exact h1
      · exact absurd hk hns
    cases hst2 : step T s1 tok with
    | ok s2 =>
      rw [hst2] at h
      simp at h
      subst h
      rcases step_loaded T s1 tok s2 (Or.inl hst2) with h2 | ⟨hk, _⟩
      · intro e he; left; rw [h2, h1] at he; exact he
      · exact absurd hk hns
    | reject e r => rw [hst2] at h; simp at h
    | crash w => rw [hst2] at h; simp at h
    | rewind s2 => rw [hst2] at h; simp at h

/-- **origin of every loaded extension**: after any token prefix, each name in the loaded list was either there at the
    start or is a capability argument of a `require` command completed by an earlier `;` of that prefix -/
theorem feed_loaded_origin (T : Table) (toks : List Tok) (s : PState) (n : Nat) (s' : PState) (m : Nat)
    (h : feed T toks s n = .done s' m) :
    ∀ e ∈ s'.loaded, e ∈ s.loaded ∨
      ∃ pre tok post sm k, toks = pre ++ tok :: post ∧ feed T pre s n = .done sm k ∧ Origin sm tok e := by
  induction toks generalizing s n with
  | nil =>
    intro e he
    simp [feed] at h
    left; rw [h.1]; exact he
  | cons tok rest ih =>
    intro e he
    unfold feed at h
    cases hd : deliver T s tok with
    | error o => rw [hd] at h; simp at h
    | ok s1 =>
      rw [hd] at h
      simp only at h
      rcases ih s1 _ h e he with h1 | ⟨pre, tok', post, sm, k, hsplit, hfeed, horig⟩
      · rcases deliver_loaded T s tok s1 hd e h1 with h2 | h2
        · exact Or.inl h2
        · exact Or.inr ⟨[], tok, rest, s, n, rfl, rfl, h2⟩
      · refine Or.inr ⟨tok :: pre, tok', post, sm, k, by rw [hsplit]; rfl, ?_, horig⟩
        unfold feed
        rw [hd]
        exact hfeed

end Loaded
