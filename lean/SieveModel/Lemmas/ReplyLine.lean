import SieveModel.Lemmas.Reader
import SieveModel.Lemmas.ReplyDecode
/-!
# Whole status replies at the reader level (T-REPLY)

`readResponse` on pending bytes that begin with a status line: the reply is decoded from the bytes
before the first CRLF and exactly the rest stays pending — for every buffer/stream split and every
recv schedule (the statements are about `pending`).
-/
namespace ReplyLine
open Reader Client ReplyDecode

theorem splitCRLF_first (l r : Bytes) (h : splitCRLF l = none) : splitCRLF (l ++ 13 :: 10 :: r) = some (l, r) := by
  induction l with
  | nil => simp [splitCRLF]
  | cons c rest ih =>
    unfold splitCRLF at h
    split at h
    · simp at h
    · rename_i hc
      have hr : splitCRLF rest = none := by
        cases hs : splitCRLF rest with
        | none => rfl
        | some p => rw [hs] at h; simp at h
      simp only [List.cons_append]
      unfold splitCRLF
      have hc' : (c == 13 && (rest ++ 13 :: 10 :: r).head? == some 10) = false := by
        cases rest with
        | nil =>
          -- c is followed by CR, not LF
          simp
        | cons d rest' =>
          simp only [List.cons_append, List.head?_cons] at hc ⊢
          simpa using hc
      simp only [hc', Bool.false_eq_true, if_false, ih hr]

def NoLF (l : Bytes) : Prop := ∀ c ∈ l, c ≠ 10

theorem splitCRLF_none_of_noLF (l : Bytes) (h : NoLF l) : splitCRLF l = none := by
  induction l with
  | nil => rfl
  | cons c rest ih =>
    unfold splitCRLF
    have hr : NoLF rest := fun x hx => h x (by simp [hx])
    have hc : (c == 13 && rest.head? == some 10) = false := by
      cases rest with
      | nil => simp
      | cons d r =>
        have : d ≠ 10 := h d (by simp)
        simp [this]
    simp [hc, ih hr]

/-- the line `__read_line` works on: the pending bytes before the first CRLF -/
theorem rawLine_pending (st : RState) (line rest : Bytes) (hp : pending st = line ++ 13 :: 10 :: rest)
    (hl : splitCRLF line = none) :
    ∃ st1, rawLine (st.net.stream.length + 1) st = .ok (line, st1) ∧ pending st1 = rest ∧
      st1.errcode = st.errcode ∧ st1.errmsg = st.errmsg ∧ st1.net.later = st.net.later := by
  have hs : splitCRLF (pending st) = some (line, rest) := by rw [hp]; exact splitCRLF_first line rest hl
  obtain ⟨st1, h1, h2, h3, h4, h5⟩ := (rawLine_spec (st.net.stream.length + 1) st (by omega)).1 line rest hs
  exact ⟨st1, h1, h2, h3, h4, h5⟩

/-- an `OK` line without a trailing literal -/
theorem readLine_ok (st : RState) (line rest : Bytes) (d : Option Bytes)
    (hp : pending st = line ++ 13 :: 10 :: rest) (hl : splitCRLF line = none) (hne : line ≠ [])
    (hsz : sizeMatch line = none) (hr : respMatch line = some (.OK, d)) (hts : d.bind trailingSize = none) :
    ∃ st1, readLine st = .ok (.response .OK d, st1) ∧ pending st1 = rest ∧
      st1.errcode = st.errcode ∧ st1.errmsg = st.errmsg := by
  obtain ⟨st1, h1, h2, h3, h4, _⟩ := rawLine_pending st line rest hp hl
  refine ⟨st1, ?_, h2, h3, h4⟩
  unfold readLine
  rw [h1]
  have : line.isEmpty = false := by cases line <;> simp at hne ⊢
  simp only [this, Bool.false_eq_true, if_false, hsz, hr, hts]

/-- a `NO` line: the reader state after it is what `__parse_error` makes of the text behind the status -/
theorem readLine_no (st : RState) (line rest : Bytes) (d : Option Bytes)
    (hp : pending st = line ++ 13 :: 10 :: rest) (hl : splitCRLF line = none) (hne : line ≠ [])
    (hsz : sizeMatch line = none) (hr : respMatch line = some (.NO, d)) :
    ∃ st1, pending st1 = rest ∧ st1.errcode = st.errcode ∧ st1.errmsg = st.errmsg ∧
      (∀ st2, parseError d st1 = .ok st2 → readLine st = .ok (.response .NO d, st2)) ∧
      (∀ e, parseError d st1 = .error e → readLine st = .error e) := by
  obtain ⟨st1, h1, h2, h3, h4, _⟩ := rawLine_pending st line rest hp hl
  have : line.isEmpty = false := by cases line <;> simp at hne ⊢
  refine ⟨st1, h2, h3, h4, ?_, ?_⟩
  · intro st2 hpe
    unfold readLine
    rw [h1]
    simp only [this, Bool.false_eq_true, if_false, hsz, hr, hpe]
  · intro e hpe
    unfold readLine
    rw [h1]
    simp only [this, Bool.false_eq_true, if_false, hsz, hr, hpe]

/-- a `BYE` line makes the read fail -/
theorem readLine_bye (st : RState) (line rest : Bytes) (d : Option Bytes)
    (hp : pending st = line ++ 13 :: 10 :: rest) (hl : splitCRLF line = none) (hne : line ≠ [])
    (hsz : sizeMatch line = none) (hr : respMatch line = some (.BYE, d)) : readLine st = .error .error := by
  obtain ⟨st1, h1, _⟩ := rawLine_pending st line rest hp hl
  unfold readLine
  rw [h1]
  have : line.isEmpty = false := by cases line <;> simp at hne ⊢
  simp only [this, Bool.false_eq_true, if_false, hsz, hr]

/-- a reply that is just a status line -/
theorem readResponse_status (nbl : Option Nat) (st st1 : RState) (c : Status) (d : Option Bytes)
    (h : readLine st = .ok (.response c d, st1)) : readResponse nbl st = .ok (⟨some c, d, []⟩, st1) := by
  unfold readResponse respLoop
  rw [h]

theorem readResponse_error (nbl : Option Nat) (st : RState) (e : RErr) (h : readLine st = .error e) :
    readResponse nbl st = .error e := by
  unfold readResponse respLoop
  rw [h]

/-- what follows `NO␣` on a line without LF is handed to `__parse_error` unchanged -/
theorem respMatch_no (tail : Bytes) (c : UInt8) (t : Bytes) (ht : tail = c :: t) (hws : B.isWs c = false)
    (hlf : NoLF tail) : respMatch (78 :: 79 :: 32 :: tail) = some (.NO, some tail) := by
  subst ht
  simp only [respMatch]
  have hsp : B.isWs 32 = true := by decide
  have h1 : List.dropWhile B.isWs (32 :: c :: t) = c :: t := by
    simp only [List.dropWhile, hsp, hws]
  have h2 : ∀ l : Bytes, NoLF l → List.takeWhile (fun x => x != 10) l = l := by
    intro l hl
    induction l with
    | nil => rfl
    | cons x r ih =>
      have hx : (x != 10) = true := by simpa using hl x (by simp)
      rw [List.takeWhile_cons, if_pos hx, ih (fun y hy => hl y (by simp [hy]))]
  simp [h1, h2 _ hlf]

/-- a line `{n}`: a literal of `n` octets follows -/
theorem readLine_size (st : RState) (ds rest : Bytes) (hne : ds ≠ []) (hall : ∀ d ∈ ds, B.isDigit d = true)
    (hp : pending st = 123 :: (ds ++ [125]) ++ 13 :: 10 :: rest) :
    ∃ st1, readLine st = .ok (.literal (B.decToNat ds), st1) ∧ pending st1 = rest ∧
      st1.errcode = st.errcode ∧ st1.errmsg = st.errmsg := by
  have hl : splitCRLF (123 :: (ds ++ [125])) = none := by
    apply splitCRLF_none_of_noLF
    intro x hx
    simp only [List.mem_cons, List.mem_append, List.not_mem_nil, or_false] at hx
    rcases hx with rfl | hx | rfl
    · decide
    · have := hall x hx
      intro h; subst h; simp [B.isDigit] at this
    · decide
  obtain ⟨st1, h1, h2, h3, h4, _⟩ := rawLine_pending st _ rest hp hl
  refine ⟨st1, ?_, h2, h3, h4⟩
  unfold readLine
  rw [h1]
  have hsz := sizeMatch_header (B.decToNat ds) ds hne hall rfl []
  simp only [List.isEmpty_cons, Bool.false_eq_true, if_false, hsz]

/-- an empty line -/
theorem readLine_empty (st : RState) (rest : Bytes) (hp : pending st = 13 :: 10 :: rest) :
    ∃ st1, readLine st = .ok (.line [], st1) ∧ pending st1 = rest ∧
      st1.errcode = st.errcode ∧ st1.errmsg = st.errmsg := by
  obtain ⟨st1, h1, h2, h3, h4, _⟩ := rawLine_pending st [] rest (by simpa using hp) rfl
  refine ⟨st1, ?_, h2, h3, h4⟩
  unfold readLine
  rw [h1]
  simp

/-- **a literal body is read by count**: `{n}` CRLF, `n` octets of anything (lines that look like
    `OK`, `NO`, `{5}` … included), CRLF, `OK` CRLF — the content returned is exactly those `n` octets
    (completed with a final CRLF when they do not end with one) and exactly the rest stays pending -/
theorem respLoop_literal_ok (nbl : Option Nat) (fuel : Nat) (st : RState) (ds body rest : Bytes) (hne : ds ≠ [])
    (hall : ∀ d ∈ ds, B.isDigit d = true) (hval : B.decToNat ds = body.length)
    (hp : pending st = 123 :: (ds ++ [125]) ++ 13 :: 10 :: (body ++ 13 :: 10 :: (sb "OK" ++ 13 :: 10 :: rest))) :
    ∃ st', respLoop nbl (fuel + 3) [] 0 st =
        .ok (⟨some .OK, none, if endsWithCRLF body then body else body ++ CRLF⟩, st') ∧ pending st' = rest := by
  obtain ⟨st1, h1, hp1, _, _⟩ := readLine_size st ds _ hne hall hp
  have hlen : body.length ≤ (pending st1).length := by rw [hp1]; simp
  obtain ⟨st2, h2, hp2, _, _, _⟩ := (readBlock_spec body.length st1).1 hlen
  rw [hp1] at h2 hp2
  simp only [List.take_left, List.drop_left] at h2 hp2
  obtain ⟨st3, h3, hp3, _, _⟩ := readLine_empty st2 _ hp2
  obtain ⟨st4, h4, hp4, _, _⟩ := readLine_ok st3 (sb "OK") rest none hp3 (by decide) (by decide) (by decide) (by decide) rfl
  refine ⟨st4, ?_, hp4⟩
  by_cases he : endsWithCRLF body = true
  · -- body ends with CRLF: literal, empty line, status
    simp only [he, if_true]
    have step1 : respLoop nbl (fuel + 3) [] 0 st = respLoop nbl (fuel + 2) body 0 st2 := by
      rw [show fuel + 3 = (fuel + 2) + 1 from rfl, respLoop, h1]
      simp only [hval, h2, List.nil_append, he, if_true]
    have step2 : respLoop nbl (fuel + 2) body 0 st2 = respLoop nbl (fuel + 1) body 0 st3 := by
      rw [show fuel + 2 = (fuel + 1) + 1 from rfl, respLoop, h3]
      simp
    have step3 : respLoop nbl (fuel + 1) body 0 st3 = .ok (⟨some .OK, none, body⟩, st4) := by
      rw [respLoop, h4]
    rw [step1, step2, step3]
  · simp only [he, Bool.false_eq_true, if_false]
    have step1 : respLoop nbl (fuel + 3) [] 0 st = respLoop nbl (fuel + 2) (body ++ [] ++ CRLF) 0 st3 := by
      rw [show fuel + 3 = (fuel + 2) + 1 from rfl, respLoop, h1]
      simp only [hval, h2, List.nil_append, he, Bool.false_eq_true, if_false, h3]
    have step2 : respLoop nbl (fuel + 2) (body ++ [] ++ CRLF) 0 st3 = .ok (⟨some .OK, none, body ++ [] ++ CRLF⟩, st4) := by
      rw [show fuel + 2 = (fuel + 1) + 1 from rfl, respLoop, h4]
    rw [step1, step2]
    simp

theorem readResponse_literal_ok (nbl : Option Nat) (st : RState) (ds body rest : Bytes) (hne : ds ≠ [])
    (hall : ∀ d ∈ ds, B.isDigit d = true) (hval : B.decToNat ds = body.length)
    (hp : pending st = 123 :: (ds ++ [125]) ++ 13 :: 10 :: (body ++ 13 :: 10 :: (sb "OK" ++ 13 :: 10 :: rest))) :
    ∃ st', readResponse nbl st =
        .ok (⟨some .OK, none, if endsWithCRLF body then body else body ++ CRLF⟩, st') ∧ pending st' = rest := by
  unfold readResponse
  have hlen : 2 ≤ st.buf.length + st.net.stream.length := by
    have : (pending st).length = st.buf.length + st.net.stream.length := by simp [pending]
    rw [← this, hp]
    simp
    omega
  obtain ⟨k, hk⟩ : ∃ k, st.buf.length + st.net.stream.length + 1 = k + 3 := ⟨st.buf.length + st.net.stream.length - 2, by omega⟩
  rw [hk]
  exact respLoop_literal_ok nbl k st ds body rest hne hall hval hp

end ReplyLine
