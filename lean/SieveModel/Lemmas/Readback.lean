import SieveModel.Model.Readback
import SieveModel.Lemmas.ToListLemmas
/-!
# Lemmas about the loader and the read-back functions
-/
namespace Readback

theorem startsWith_append_self (pre s : Bytes) : B.startsWith (pre ++ s) pre = true := by
  induction pre with
  | nil => cases s <;> rfl
  | cons p ps ih => simp [B.startsWith, ih]

/-- skipping exactly the bytes that are still to be dropped -/
theorem removeAllAux_skip (pre : Bytes) : ∀ (x s : Bytes), removeAllAux pre x.length (x ++ s) = removeAllAux pre 0 s := by
  intro x
  induction x with
  | nil => intro s; rfl
  | cons c cs ih =>
    intro s
    cases hs : cs ++ s with
    | nil =>
      simp only [List.length_cons, List.cons_append, hs, removeAllAux]
      have : cs = [] ∧ s = [] := by simpa using hs
      rw [this.2]
      cases cs.length <;> rfl
    | cons y ys =>
      simp only [List.length_cons, List.cons_append, removeAllAux]
      exact ih s

/-- `(pre + s).replace(pre, "") == s.replace(pre, "")` -/
theorem removeAll_prefix (pre s : Bytes) (hne : pre ≠ []) : removeAll pre (pre ++ s) = removeAll pre s := by
  cases pre with
  | nil => exact absurd rfl hne
  | cons p ps =>
    unfold removeAll
    simp only [List.isEmpty_cons, Bool.false_eq_true, if_false, List.cons_append]
    have hsw : B.startsWith (p :: (ps ++ s)) (p :: ps) = true := by
      have := startsWith_append_self (p :: ps) s
      simpa using this
    have e : removeAllAux (p :: ps) 0 (p :: (ps ++ s)) = removeAllAux (p :: ps) ps.length (ps ++ s) := by
      simp [removeAllAux, hsw]
    rw [e]
    exact removeAllAux_skip (p :: ps) ps s

/-- **the markers written in front of a filter give back its name and its description**: for non-empty prefixes
    neither of which begins a line written with the other, and texts in which the prefixes do not occur -/
theorem markers_give_back_name_and_description (npre dpre name desc dflt : Bytes) (hn : npre ≠ []) (hd : dpre ≠ [])
    (h1 : removeAll npre name = name) (h2 : removeAll dpre desc = desc)
    (h3 : B.startsWith (npre ++ name) dpre = false) (h4 : B.startsWith (dpre ++ desc) npre = false) :
    nameDescL npre dpre [npre ++ name, dpre ++ desc] (dflt, []) = (name, desc) := by
  simp only [nameDescL, startsWith_append_self, if_true, h3, h4, Bool.false_eq_true, if_false,
    removeAll_prefix _ _ hn, removeAll_prefix _ _ hd, h1, h2]

/-- a filter without description: the name marker alone -/
theorem name_marker_gives_back_the_name (npre dpre name dflt : Bytes) (hn : npre ≠ [])
    (h1 : removeAll npre name = name) (h3 : B.startsWith (npre ++ name) dpre = false) :
    nameDescL npre dpre [npre ++ name] (dflt, []) = (name, []) := by
  simp only [nameDescL, startsWith_append_self, if_true, h3, Bool.false_eq_true, if_false, removeAll_prefix _ _ hn, h1]

/-- a text in which the first byte of the prefix does not occur contains no occurrence of the prefix -/
theorem removeAll_of_absent_head (p : UInt8) (ps s : Bytes) (h : ∀ c ∈ s, c ≠ p) : removeAll (p :: ps) s = s := by
  unfold removeAll
  simp only [List.isEmpty_cons, Bool.false_eq_true, if_false]
  induction s with
  | nil => rfl
  | cons c cs ih =>
    have hc : c ≠ p := h c (by simp)
    have hsw : B.startsWith (c :: cs) (p :: ps) = false := by
      simp [B.startsWith, hc]
    unfold removeAllAux
    simp only [hsw, Bool.false_eq_true, if_false]
    rw [ih (fun x hx => h x (by simp [hx]))]

/-! ## header conditions read back -/

/-- no double quote, backslash or comma -/
def plain (v : Bytes) : Prop := ∀ c ∈ v, c ≠ 34 ∧ c ≠ 92 ∧ c ≠ 44
instance : DecidablePred plain := fun v => by unfold plain; infer_instance

theorem escape_plain (v : Bytes) (h : plain v) : Factory.escape v = v := by
  induction v with
  | nil => rfl
  | cons c cs ih =>
    have hc := h c (by simp)
    unfold Factory.escape
    simp only [beq_iff_eq, hc.2.1, hc.1, if_false]
    rw [ih (fun x hx => h x (by simp [hx]))]

theorem quote_plain (v : Bytes) (h : plain v) : Factory.quote v = 34 :: (v ++ [34]) := by
  unfold Factory.quote; rw [escape_plain v h]; rfl

theorem contains_quote_plain (v : Bytes) (h : plain v) : (34 :: (v ++ [34])).contains 44 = false := by
  have hv : (44 : UInt8) ∉ v := fun hm => (h 44 hm).2.2 rfl
  simp [hv]

theorem strip_quote_plain (v : Bytes) (h : plain v) : strip (34 :: (v ++ [34])) = v := by
  unfold strip
  cases hv : v with
  | nil => simp [B.stripC, B.stripL]
  | cons x xs =>
    rw [← hv]
    have hne : v ≠ [] := by rw [hv]; simp
    have hx : ∀ c ∈ v, c ≠ 34 := fun c hc => (h c hc).1
    unfold B.stripC
    have a : B.stripL 34 (34 :: (v ++ [34])) = v ++ [34] := by
      rw [hv]
      have : x ≠ 34 := hx x (by rw [hv]; simp)
      simp [B.stripL, this]
    rw [a]
    have b : (v ++ [34]).reverse = 34 :: v.reverse := by simp
    rw [b]
    have c : B.stripL 34 (34 :: v.reverse) = v.reverse := by
      cases hr : v.reverse with
      | nil => simp at hr; exact absurd hr hne
      | cons y ys =>
        have hy : y ≠ 34 := hx y (by
          have : y ∈ v.reverse := by rw [hr]; simp
          simpa using this)
        simp [B.stripL, hy]
    rw [c]; simp

/-- **a header condition built from plain strings reads back exactly**: whatever else the test carries (a comparator,
    other arguments in any order), `args_as_tuple` of a `header` test whose header name, match tag and key are
    `quote h`, `tag`, `quote k` returns `(h, tag, k)` -/
theorem header_condition_reads_back (name : Bytes) (args extra : List Arg) (children : List Node) (comments : List Bytes)
    (h tag k : Bytes) (hh : plain h) (hk : plain k)
    (a1 : assocGet args "header-names" = some (.str "header-names" (Factory.quote h)))
    (a2 : assocGet args "match-type" = some (.str "match-type" tag))
    (a3 : assocGet args "key-list" = some (.str "key-list" (Factory.quote k))) :
    headerTuple (.mk name args extra children comments) = .ok [.s h, .s tag, .s k] := by
  simp only [headerTuple, arg, Node.args, a1, a2, a3, pvOf, bind, Except.bind, hasComma, quote_plain h hh, quote_plain k hk,
    contains_quote_plain h hh, contains_quote_plain k hk, Bool.false_eq_true, if_false, asStr, pure, Except.pure,
    strip_quote_plain h hh, strip_quote_plain k hk, List.cons_append, List.nil_append]

/-- the same condition under a `not`: the tag comes back as `:not…` (the tag's second character is not a UTF-8
    continuation byte: tags are ASCII) -/
theorem negated_header_condition_reads_back (h tag k : Bytes)
    (ht : ∀ c, tag.head? = some c → (c &&& 0xC0 == 0x80) = false) :
    negated (sb "header") [.s h, .s (58 :: tag), .s k] = .ok [.s h, .s (sb ":not" ++ tag), .s k] := by
  have : (sb "header" == sb "header" || sb "header" == sb "envelope") = true := by decide
  simp only [negated, this, if_true, notTag, dropChar, bind, Except.bind, pure, Except.pure]
  cases tag with
  | nil => rfl
  | cons c cs =>
    have := ht c rfl
    simp [List.dropWhile, this]

/-! ## the other condition shapes: lists of plain strings -/

theorem quoteList_plain (items : List Bytes) (h : ∀ v ∈ items, plain v) : Factory.quoteList items = ToList.render items := by
  unfold Factory.quoteList ToList.render
  have : items.map Factory.quote = items.map (fun v => [34] ++ v ++ [34]) := by
    apply List.map_congr_left
    intro v hv
    rw [quote_plain v (h v hv)]
    simp
  rw [this]

theorem plain_head_last (v : Bytes) (h : plain v) : v.head? ≠ some 34 ∧ v.getLast? ≠ some 34 := by
  constructor
  · intro e
    have : (34 : UInt8) ∈ v := by
      cases v with
      | nil => simp at e
      | cons x xs => simp at e; simp [e]
    exact (h 34 this).1 rfl
  · intro e
    have : (34 : UInt8) ∈ v := List.mem_of_getLast? e
    exact (h 34 this).1 rfl

/-- a non-empty list of plain strings, written by the factory, read back by `to_list` -/
theorem listOrOne_quoteList (items : List Bytes) (hne : items ≠ []) (h : ∀ v ∈ items, plain v) :
    listOrOne (Factory.quoteList items) = items := by
  rw [quoteList_plain items h]
  have hs : B.startsWith (ToList.render items) [91] = true := by
    simp [ToList.render, B.startsWith]
  unfold listOrOne
  rw [hs]
  simp only [if_true]
  exact ToListLemmas.list_read_back_exact items hne (fun v hv c hc => (h v hv c hc).2.2) (fun v hv => plain_head_last v (h v hv))

/-- **exists / notexists**: the names come back as given -/
theorem exists_condition_reads_back (name : Bytes) (args extra : List Arg) (children : List Node) (comments : List Bytes)
    (names : List Bytes) (hne : names ≠ []) (hp : ∀ v ∈ names, plain v)
    (a1 : assocGet args "header-names" = some (.str "header-names" (Factory.quoteList names))) :
    existsTuple (.mk name args extra children comments) = .ok (.s (sb "exists") :: names.map RVal.s) := by
  simp only [existsTuple, arg, Node.args, a1, pvOf, bind, Except.bind, flat, pure, Except.pure, listOrOne_quoteList names hne hp]

/-- **size**: comparator and limit come back as stored -/
theorem size_condition_reads_back (name : Bytes) (args extra : List Arg) (children : List Node) (comments : List Bytes)
    (cmp lim : Bytes)
    (a1 : assocGet args "comparator" = some (.str "comparator" cmp))
    (a2 : assocGet args "limit" = some (.str "limit" lim)) :
    sizeTuple (.mk name args extra children comments) = .ok [.s (sb "size"), .s cmp, .s lim] := by
  simp only [sizeTuple, arg, Node.args, a1, a2, pvOf, bind, Except.bind, pure, Except.pure]

/-- **envelope**: both lists come back as lists -/
theorem envelope_condition_reads_back (name : Bytes) (args extra : List Arg) (children : List Node) (comments : List Bytes)
    (tag : Bytes) (hs ks : List Bytes) (hne1 : hs ≠ []) (hne2 : ks ≠ []) (hp1 : ∀ v ∈ hs, plain v) (hp2 : ∀ v ∈ ks, plain v)
    (a1 : assocGet args "match-type" = some (.str "match-type" tag))
    (a2 : assocGet args "header-list" = some (.str "header-list" (Factory.quoteList hs)))
    (a3 : assocGet args "key-list" = some (.str "key-list" (Factory.quoteList ks))) :
    envelopeTuple (.mk name args extra children comments) = .ok [.s (sb "envelope"), .s tag, .l hs, .l ks] := by
  simp only [envelopeTuple, arg, Node.args, a1, a2, a3, pvOf, bind, Except.bind, flat, asStr, pure, Except.pure,
    listOrOne_quoteList hs hne1 hp1, listOrOne_quoteList ks hne2 hp2]

/-- **body**: transform, match tag and keys -/
theorem body_condition_reads_back (name : Bytes) (args extra : List Arg) (children : List Node) (comments : List Bytes)
    (bt tag : Bytes) (ks : List Bytes) (hne : ks ≠ []) (hp : ∀ v ∈ ks, plain v)
    (a1 : assocGet args "body-transform" = some (.str "body-transform" bt))
    (a2 : assocGet args "match-type" = some (.str "match-type" tag))
    (a3 : assocGet args "key-list" = some (.str "key-list" (Factory.quoteList ks))) :
    bodyTuple (.mk name args extra children comments) = .ok ([.s (sb "body"), .s bt, .s tag] ++ ks.map RVal.s) := by
  simp only [bodyTuple, arg, Node.args, a1, a2, a3, pvOf, bind, Except.bind, flat, asStr, pure, Except.pure,
    listOrOne_quoteList ks hne hp]

/-- **currentdate** with a plain match type (`:is`, `:contains`, `:matches`): zone, tag, date part and keys -/
theorem currentdate_condition_reads_back (name : Bytes) (args extra : List Arg) (children : List Node) (comments : List Bytes)
    (zone tag dp : Bytes) (ks : List Bytes) (hne : ks ≠ []) (hp : ∀ v ∈ ks, plain v) (hz : plain zone) (hd : plain dp)
    (hrel : (tag == sb ":count" || tag == sb ":value") = false)
    (e1 : assocGet extra "zone" = some (.str "zone" (Factory.quote zone)))
    (a2 : assocGet args "match-type" = some (.str "match-type" tag))
    (a3 : assocGet args "date-part" = some (.str "date-part" (Factory.quote dp)))
    (a4 : assocGet args "key-list" = some (.str "key-list" (Factory.quoteList ks))) :
    currentdateTuple (.mk name args extra children comments) =
      .ok ([.s (sb "currentdate"), .s (sb ":zone"), .s zone, .s tag, .s dp] ++ ks.map RVal.s) := by
  simp only [currentdateTuple, arg, Readback.extra, Node.args, Node.extra, e1, a2, a3, a4, pvOf, bind, Except.bind, flat, asStr, pure,
    Except.pure, hrel, Bool.false_eq_true, if_false, quote_plain zone hz, quote_plain dp hd, strip_quote_plain zone hz,
    strip_quote_plain dp hd, listOrOne_quoteList ks hne hp, List.append_nil, List.cons_append, List.nil_append]

/-- **currentdate** with a relational match type (`:value "ge"`, `:count "lt"`): the operator comes back too -/
theorem currentdate_relational_condition_reads_back (name : Bytes) (args extra : List Arg) (children : List Node)
    (comments : List Bytes) (zone tag op dp : Bytes) (ks : List Bytes) (hne : ks ≠ []) (hp : ∀ v ∈ ks, plain v)
    (hz : plain zone) (hd : plain dp) (ho : plain op)
    (hrel : (tag == sb ":count" || tag == sb ":value") = true)
    (e1 : assocGet extra "zone" = some (.str "zone" (Factory.quote zone)))
    (e2 : assocGet extra "match-type" = some (.str "match-type" (Factory.quote op)))
    (a2 : assocGet args "match-type" = some (.str "match-type" tag))
    (a3 : assocGet args "date-part" = some (.str "date-part" (Factory.quote dp)))
    (a4 : assocGet args "key-list" = some (.str "key-list" (Factory.quoteList ks))) :
    currentdateTuple (.mk name args extra children comments) =
      .ok ([.s (sb "currentdate"), .s (sb ":zone"), .s zone, .s tag, .s op, .s dp] ++ ks.map RVal.s) := by
  simp only [currentdateTuple, arg, Readback.extra, Node.args, Node.extra, e1, e2, a2, a3, a4, pvOf, bind, Except.bind, flat, asStr, pure,
    Except.pure, hrel, if_true, quote_plain zone hz, quote_plain dp hd, quote_plain op ho, strip_quote_plain zone hz,
    strip_quote_plain dp hd, strip_quote_plain op ho, listOrOne_quoteList ks hne hp, List.append_nil, List.cons_append,
    List.nil_append]

end Readback
