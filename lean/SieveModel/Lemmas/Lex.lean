import SieveModel.Model.Lexer
/-! Helper lemmas about the lexer model: every rule consumes ≥ 1 byte, fuel suffices. -/
namespace Lex

theorem spanLen_le (p : UInt8 → Bool) (t : Bytes) : spanLen p t ≤ t.length := by
  induction t with
  | nil => simp [spanLen]
  | cons c cs ih => simp only [spanLen]; split <;> simp <;> omega

theorem closeComment_le (t : Bytes) (n : Nat) (h : closeComment t = some n) : n ≤ t.length := by
  fun_induction closeComment t generalizing n with
  | case1 => simp at h; subst h; simp
  | case2 _ rest _ ih =>
    simp only [Option.map_eq_some_iff] at h
    obtain ⟨m, hm, rfl⟩ := h
    have := ih m hm; simp; omega
  | case3 => simp at h

theorem stringEnd_le (t : Bytes) (n : Nat) (h : stringEnd t = some n) : n ≤ t.length := by
  fun_induction stringEnd t generalizing n with
  | case1 => simp at h
  | case2 => simp at h; subst h; simp
  | case3 c rest hc =>
    simp at h
  | case4 c rest hc ih =>
    simp only [Option.map_eq_some_iff] at h
    obtain ⟨m, hm, rfl⟩ := h
    have := ih m hm; simp; omega
  | case5 => simp at h
  | case6 _ rest _ _ _ ih =>
    simp only [Option.map_eq_some_iff] at h
    obtain ⟨m, hm, rfl⟩ := h
    have := ih m hm; simp; omega

end Lex

namespace Lex

theorem multilineEnd_bounds (t : Bytes) (acc n : Nat) (h : multilineEnd t acc = some n) :
    acc + 2 ≤ n ∧ n ≤ acc + t.length := by
  fun_induction multilineEnd t acc generalizing n with
  | case1 => simp at h; subst h; simp
  | case2 => simp at h; subst h; simp
  | case3 => simp at h; subst h; simp
  | case4 => simp at h; subst h; simp
  | case5 a rest acc _ _ _ _ _ ih => have := ih n h; simp at this ⊢; omega
  | case6 a rest acc _ ih => have := ih n h; simp at this ⊢; omega
  | case7 _ b rest acc _ ih => have := ih n h; simp at this ⊢; omega
  | case8 => simp at h

theorem one_bounds (t : Bytes) (k : TokKind) (n : Nat) (h : one t = some (k, n)) :
    1 ≤ n ∧ n ≤ t.length := by
  unfold one at h
  split at h
  · simp at h
  · rename_i c rest
    split at h
    · simp at h; obtain ⟨_, rfl⟩ := h; simp
    · have hs := spanLen_le
      split at h
      · simp at h; obtain ⟨_, rfl⟩ := h; have := hs (· != 10) rest; simp; omega
      · split at h
        · split at h
          · rename_i r2
            simp only [Option.map_eq_some_iff] at h
            obtain ⟨m, hm, h2⟩ := h
            have := closeComment_le r2 m hm
            simp at h2; obtain ⟨_, rfl⟩ := h2; simp; omega
          · simp at h
        · split at h
          · simp only [Option.map_eq_some_iff] at h
            obtain ⟨m, hm, h2⟩ := h
            have := stringEnd_le rest m hm
            simp at h2; obtain ⟨_, rfl⟩ := h2; simp; omega
          · split at h
            · have hid := hs B.isWord rest
              split at h
              · split at h
                · rename_i m hm
                  have := multilineEnd_bounds _ _ _ hm
                  simp at h; obtain ⟨_, rfl⟩ := h
                  simp only [List.length_drop, List.length_cons] at this ⊢; omega
                · simp at h; obtain ⟨_, rfl⟩ := h; simp; omega
              · simp at h; obtain ⟨_, rfl⟩ := h; simp; omega
            · split at h
              · split at h
                · rename_i d r2
                  split at h
                  · simp at h; obtain ⟨_, rfl⟩ := h; have := hs B.isWord r2; simp; omega
                  · simp at h
                · simp at h
              · split at h
                · have hd := hs B.isDigit rest
                  have hdrop : (rest.drop (spanLen B.isDigit rest)).length = rest.length - spanLen B.isDigit rest := by simp
                  dsimp only at h
                  split at h
                  · rename_i s tl heq
                    rw [heq] at hdrop; simp at hdrop
                    split at h <;> (simp at h; obtain ⟨_, rfl⟩ := h; simp; omega)
                  · simp at h; obtain ⟨_, rfl⟩ := h; simp; omega
                · simp at h

end Lex

namespace Lex

theorem spanLen_pos (p : UInt8 → Bool) (c : UInt8) (cs : Bytes) (h : p c = true) :
    1 ≤ spanLen p (c :: cs) := by simp [spanLen, h]

/-- Fuel suffices: with more fuel than remaining bytes the scan loop always ends with a result,
    and it yields at most one token per remaining byte. -/
theorem scan_total (fuel : Nat) (t : Bytes) (pos : Nat) (acc : List Tok) (h : t.length < fuel) :
    ∃ r, scan fuel t pos acc = some r ∧ r.toks.length ≤ acc.length + t.length := by
  induction fuel generalizing t pos acc with
  | zero => omega
  | succ fuel ih =>
    unfold scan
    match t with
    | [] => exact ⟨_, rfl, by simp⟩
    | c :: cs =>
      simp only
      split
      · rename_i hws
        have h1 := spanLen_pos B.isWs c cs hws
        have h2 := spanLen_le B.isWs (c :: cs)
        have hlen : ((c :: cs).drop (spanLen B.isWs (c :: cs))).length < fuel := by
          simp only [List.length_drop, List.length_cons] at *; omega
        obtain ⟨r, hr, hle⟩ := ih _ (pos + spanLen B.isWs (c :: cs)) acc hlen
        refine ⟨r, hr, ?_⟩
        simp only [List.length_drop, List.length_cons] at *; omega
      · split
        · exact ⟨_, rfl, by simp⟩
        · rename_i k n hone
          have hb := one_bounds _ _ _ hone
          have hlen : ((c :: cs).drop n).length < fuel := by
            simp only [List.length_drop, List.length_cons] at *; omega
          obtain ⟨r, hr, hle⟩ := ih _ (pos + n) (⟨k, pos, (c :: cs).take n⟩ :: acc) hlen
          refine ⟨r, hr, ?_⟩
          simp only [List.length_drop, List.length_cons] at *; omega

/-- C02 (lexer part): lexing always terminates with a result; at most `|text|` tokens. -/
theorem lex_total (t : Bytes) : ∃ r, lex t = some r ∧ r.toks.length ≤ t.length := by
  obtain ⟨r, hr, hle⟩ := scan_total (t.length + 1) t 0 [] (by omega)
  exact ⟨r, hr, by simpa using hle⟩

end Lex

namespace Lex

/-- a token is the slice of the input at its recorded offset -/
def IsSlice (whole : Bytes) (tok : Tok) : Prop :=
  (whole.drop tok.pos).take tok.text.length = tok.text ∧ tok.pos + tok.text.length ≤ whole.length

theorem scan_slices (whole : Bytes) : ∀ (fuel : Nat) (t : Bytes) (pos : Nat) (acc : List Tok) (r : Result),
    whole.drop pos = t → pos ≤ whole.length → (∀ tok ∈ acc, IsSlice whole tok) → scan fuel t pos acc = some r →
    ∀ tok ∈ r.toks, IsSlice whole tok := by
  intro fuel
  induction fuel with
  | zero => intro t pos acc r _ _ _ h; simp [scan] at h
  | succ fuel ih =>
    intro t pos acc r hd hle hacc h
    unfold scan at h
    cases t with
    | nil =>
      simp at h
      subst h
      intro tok htok
      exact hacc tok (by simpa using htok)
    | cons c rest =>
      simp only at h
      have hlen : (c :: rest).length = whole.length - pos := by rw [← hd]; simp
      split at h
      · -- white space
        apply ih _ _ acc r ?_ ?_ hacc h
        · rw [← hd, List.drop_drop]
        · have := spanLen_le B.isWs (c :: rest)
          omega
      · split at h
        · simp at h
          subst h
          intro tok htok
          exact hacc tok (by simpa using htok)
        · rename_i k n hone
          have hb := one_bounds (c :: rest) k n hone
          apply ih _ _ _ r ?_ ?_ ?_ h
          · rw [← hd, List.drop_drop]
          · omega
          · intro tok htok
            simp only [List.mem_cons] at htok
            rcases htok with rfl | htok
            · refine ⟨?_, ?_⟩
              · simp only [hd, List.length_take]
                rw [Nat.min_eq_left hb.2]
              · simp only [List.length_take]
                omega
            · exact hacc tok htok

/-- every token of a lexed input is the slice of the input at its offset -/
theorem lex_slices (text : Bytes) (r : Result) (h : lex text = some r) : ∀ tok ∈ r.toks, IsSlice text tok :=
  scan_slices text _ text 0 [] r (by simp) (by omega) (by intro tok ht; simp at ht) h

end Lex

namespace Lex

/-- `text` is the tokens in order, with nothing but white space before, between and after them -/
inductive Weave : List Tok → Bytes → Prop
  | nil (ws : Bytes) (h : ∀ c ∈ ws, B.isWs c = true) : Weave [] ws
  | cons (ws : Bytes) (h : ∀ c ∈ ws, B.isWs c = true) (tok : Tok) (toks : List Tok) (rest : Bytes)
      (hr : Weave toks rest) : Weave (tok :: toks) (ws ++ tok.text ++ rest)

theorem Weave.prepend {toks : List Tok} {x : Bytes} (h : Weave toks x) (w : Bytes) (hw : ∀ c ∈ w, B.isWs c = true) :
    Weave toks (w ++ x) := by
  cases h with
  | nil ws hws =>
    apply Weave.nil
    intro c hc
    simp only [List.mem_append] at hc
    rcases hc with hc | hc
    · exact hw c hc
    · exact hws c hc
  | cons ws hws tok toks rest hr =>
    have : w ++ (ws ++ tok.text ++ rest) = (w ++ ws) ++ tok.text ++ rest := by simp [List.append_assoc]
    rw [this]
    apply Weave.cons _ _ tok toks rest hr
    intro c hc
    simp only [List.mem_append] at hc
    rcases hc with hc | hc
    · exact hw c hc
    · exact hws c hc

theorem take_spanLen_all (p : UInt8 → Bool) (t : Bytes) : ∀ c ∈ t.take (spanLen p t), p c = true := by
  induction t with
  | nil => intro c hc; simp [spanLen] at hc
  | cons x xs ih =>
    intro c hc
    by_cases hx : p x = true
    · simp only [spanLen, hx, if_true, List.take_succ_cons, List.mem_cons] at hc
      rcases hc with rfl | hc
      · exact hx
      · exact ih c hc
    · simp [spanLen, hx] at hc

theorem scan_weave : ∀ (fuel : Nat) (t : Bytes) (pos : Nat) (acc : List Tok) (r : Result),
    scan fuel t pos acc = some r → r.err = none → ∃ suffix, r.toks = acc.reverse ++ suffix ∧ Weave suffix t := by
  intro fuel
  induction fuel with
  | zero => intro t pos acc r h; simp [scan] at h
  | succ fuel ih =>
    intro t pos acc r h herr
    unfold scan at h
    match t with
    | [] =>
      simp only [Option.some.injEq] at h
      subst h
      exact ⟨[], by simp, Weave.nil [] (by intro c hc; simp at hc)⟩
    | c :: cs =>
      simp only at h
      split at h
      · obtain ⟨suffix, h1, h2⟩ := ih _ _ acc r h herr
        refine ⟨suffix, h1, ?_⟩
        have := h2.prepend ((c :: cs).take (spanLen B.isWs (c :: cs))) (take_spanLen_all B.isWs (c :: cs))
        rwa [List.take_append_drop] at this
      · split at h
        · simp only [Option.some.injEq] at h
          subst h
          simp at herr
        · rename_i k n hone
          obtain ⟨suffix, h1, h2⟩ := ih _ _ _ r h herr
          refine ⟨⟨k, pos, (c :: cs).take n⟩ :: suffix, by simpa using h1, ?_⟩
          have := Weave.cons [] (by intro x hx; simp at hx) ⟨k, pos, (c :: cs).take n⟩ suffix _ h2
          simpa [List.take_append_drop] using this

/-- a script that lexes without error is its tokens (comments included) woven with white space: the lexer drops
    nothing but white space -/
theorem lex_weave (text : Bytes) (r : Result) (h : lex text = some r) (herr : r.err = none) : Weave r.toks text := by
  obtain ⟨suffix, h1, h2⟩ := scan_weave _ _ _ _ r h herr
  simp at h1
  rw [h1]; exact h2

end Lex
