import SieveModel.Lemmas.Safe
/-!
# The stack / bracket invariant of the push-down parser

`Chain` relates neighbouring frames of the command stack; `Inv` adds the bracket bookkeeping.
Every token step keeps `Inv` and never raises (`Lemmas/NoCrash.lean`).
-/
namespace Safe
open Machine Args ArgsSafe

def FrameOK (f : Frame) : Prop := cmdSafe f.d = true ∧ StOK f.d f.st

/-- what a frame with another frame above it satisfies -/
structure LowerOK (f : Frame) : Prop where
  done : f.d.variableArgs = true ∨ Frame.complete f = true
  calm : f.d.nonDet = false
  kind : f.d.kind ≠ .action

def attachOK (a : Attach) (d : CmdDef) : Prop := ∀ pl, a = .place pl → plOK d pl

def Chain : List Frame → Prop
  | [] => True
  | [f] => FrameOK f ∧ f.d.kind ≠ .test
  | g :: f :: r => FrameOK g ∧ attachOK g.attach f.d ∧ LowerOK f ∧ (g.d.kind ≠ .test → f.d.kind ≠ .test) ∧ Chain (f :: r)

theorem Chain.head {f : Frame} {r : List Frame} (h : Chain (f :: r)) : FrameOK f := by
  cases r with
  | nil => exact h.1
  | cons g r => exact h.1

theorem Chain.tail {f : Frame} {r : List Frame} (h : Chain (f :: r)) : Chain r := by
  cases r with
  | nil => trivial
  | cons g r => exact h.2.2.2.2

theorem Chain.all {l : List Frame} (h : Chain l) : ∀ f ∈ l, FrameOK f := by
  induction l with
  | nil => intro f hf; simp at hf
  | cons g r ih =>
    intro f hf
    simp at hf
    rcases hf with rfl | hf
    · exact h.head
    · exact ih h.tail f hf

/-- number of non-test frames (the command being parsed and the owners of open blocks) -/
def cmds (l : List Frame) : Nat := (l.filter (fun f => f.d.kind != .test)).length
/-- number of frames of variable-arity tests (`anyof`, `allof`) -/
def vars (l : List Frame) : Nat := (l.filter (fun f => f.d.variableArgs)).length

theorem cmds_cons (f : Frame) (l : List Frame) : cmds (f :: l) = (if f.d.kind != .test then 1 else 0) + cmds l := by
  unfold cmds; by_cases h : (f.d.kind != .test) = true <;> simp [List.filter_cons, h] <;> omega
theorem vars_cons (f : Frame) (l : List Frame) : vars (f :: l) = (if f.d.variableArgs then 1 else 0) + vars l := by
  unfold vars; by_cases h : f.d.variableArgs = true <;> simp [List.filter_cons, h] <;> omega

theorem Chain.cmds_pos {l : List Frame} (h : Chain l) (hne : l ≠ []) : 1 ≤ cmds l := by
  induction l with
  | nil => exact absurd rfl hne
  | cons g r ih =>
    cases r with
    | nil =>
      have := h.2
      rw [cmds_cons]; simp [this]
    | cons f r =>
      have := ih h.tail (by simp)
      rw [cmds_cons]; omega

/-- below a non-test frame there are only non-test frames -/
theorem Chain.below_nontest {g : Frame} {r : List Frame} (h : Chain (g :: r)) (hg : g.d.kind ≠ .test) :
    ∀ f ∈ r, f.d.kind ≠ .test := by
  induction r generalizing g with
  | nil => intro f hf; simp at hf
  | cons f r ih =>
    intro x hx
    have hf : f.d.kind ≠ .test := h.2.2.2.1 hg
    simp at hx
    rcases hx with rfl | hx
    · exact hf
    · exact ih h.tail hf x hx

theorem cmds_all_nontest (l : List Frame) (h : ∀ f ∈ l, f.d.kind ≠ .test) : cmds l = l.length := by
  unfold cmds
  rw [List.filter_eq_self.mpr]
  intro f hf
  simpa using h f hf

theorem vars_zero_of_nontest (l : List Frame) (hok : ∀ f ∈ l, FrameOK f) (h : ∀ f ∈ l, f.d.kind ≠ .test) : vars l = 0 := by
  unfold vars
  rw [List.length_eq_zero_iff, List.filter_eq_nil_iff]
  intro f hf hv
  exact h f hf (cmdSafe_var f.d (hok f hf).1 hv).1

/-- if some frame is a test, the top frame is a test -/
theorem Chain.top_test {g : Frame} {r : List Frame} (h : Chain (g :: r)) (hv : 1 ≤ vars (g :: r)) :
    g.d.kind = .test := by
  apply Decidable.byContradiction
  intro hg
  have hall : ∀ f ∈ g :: r, f.d.kind ≠ .test := by
    intro f hf
    simp at hf
    rcases hf with rfl | hf
    · exact hg
    · exact h.below_nontest hg f hf
  have := vars_zero_of_nontest (g :: r) h.all hall
  omega

/-! ## plug -/

theorem assocSet_tests (l : List Arg) (k : String) (ts : List Node)
    (hall : ∀ x ∈ l, ∃ k' ts', x = Arg.tests k' ts') : ∀ x ∈ assocSet l (.tests k ts), ∃ k' ts', x = Arg.tests k' ts' := by
  intro x hx
  unfold assocSet at hx
  split at hx
  · simp only [List.mem_map] at hx
    obtain ⟨y, hy, rfl⟩ := hx
    split
    · exact ⟨k, ts, rfl⟩
    · exact hall y hy
  · simp only [List.mem_append, List.mem_singleton] at hx
    rcases hx with hx | rfl
    · exact hall x hx
    · exact ⟨k, ts, rfl⟩

theorem plug_d (p : Frame) (a : Attach) (n : Node) : (plug p a n).d = p.d := by
  unfold plug
  repeat' split
  all_goals rfl

theorem plug_attach (p : Frame) (a : Attach) (n : Node) : (plug p a n).attach = p.attach := by
  unfold plug
  repeat' split
  all_goals rfl

theorem plug_st (p : Frame) (a : Attach) (n : Node) :
    (plug p a n).st.curarg = p.st.curarg ∧ (plug p a n).st.rargsCnt = p.st.rargsCnt ∧
    (plug p a n).st.nextargpos = p.st.nextargpos := by
  unfold plug
  repeat' split
  all_goals exact ⟨rfl, rfl, rfl⟩

theorem plug_complete (p : Frame) (a : Attach) (n : Node) : Frame.complete (plug p a n) = Frame.complete p := by
  obtain ⟨h1, h2, _⟩ := plug_st p a n
  simp only [Frame.complete, isComplete, pendingOk, plug_d, h1, h2]

theorem plug_ok (p : Frame) (a : Attach) (n : Node) (hp : FrameOK p) (ha : attachOK a p.d) : FrameOK (plug p a n) := by
  obtain ⟨hs, hst⟩ := hp
  obtain ⟨h1, h2, h3⟩ := plug_st p a n
  refine ⟨by rw [plug_d]; exact hs, ?_, ?_, ?_, ?_⟩
  · -- ArgsOK
    rw [plug_d]
    intro hany x hx
    have hall := hst.args hany
    have hv : p.d.variableArgs = true := by rw [cmdSafe_var_iff p.d hs]; exact hany
    unfold plug at hx
    split at hx
    · exact hall x hx
    · exact hall x hx
    · exact hall x hx
    · rename_i k
      rcases ha _ rfl hv with h | ⟨k', h⟩ <;> simp at h
    · rename_i k
      rcases ha _ rfl hv with h | ⟨k', h⟩ <;> simp at h
    · split at hx
      · exact assocSet_tests _ _ _ hall x hx
      · exact hall x hx
  · rw [plug_d, h1]; exact hst.cur
  · rw [plug_d, h2, h3]; exact hst.cnt
  · rw [plug_d, h2, h3]; exact hst.var

theorem plug_lower (p : Frame) (a : Attach) (n : Node) (h : LowerOK p) : LowerOK (plug p a n) :=
  ⟨by rw [plug_d, plug_complete]; exact h.done, by rw [plug_d]; exact h.calm, by rw [plug_d]; exact h.kind⟩

/-- replacing the top frame by one with the same definition and attachment -/
theorem Chain.replace_top {f f' : Frame} {r : List Frame} (h : Chain (f :: r)) (hok : FrameOK f')
    (hd : f'.d = f.d) (ha : f'.attach = f.attach) : Chain (f' :: r) := by
  cases r with
  | nil => exact ⟨hok, by rw [hd]; exact h.2⟩
  | cons g r => exact ⟨hok, by rw [ha]; exact h.2.1, h.2.2.1, by rw [hd]; exact h.2.2.2.1, h.2.2.2.2⟩

/-- plugging the frame above into the new top after a pop -/
theorem Chain.pop_plug {g p : Frame} {r : List Frame} (h : Chain (g :: p :: r)) (n : Node) :
    Chain (plug p g.attach n :: r) :=
  h.tail.replace_top (plug_ok p g.attach n h.tail.head h.2.1) (plug_d _ _ _) (plug_attach _ _ _)

end Safe

namespace Safe
open Machine Args ArgsSafe

theorem complete_not_var (f : Frame) (h : Frame.complete f = true) : f.d.variableArgs = false := by
  unfold Frame.complete isComplete at h
  cases hv : f.d.variableArgs with
  | false => rfl
  | true => rw [hv] at h; simp at h

theorem cmds_plug (p : Frame) (a : Attach) (n : Node) (r : List Frame) : cmds (plug p a n :: r) = cmds (p :: r) := by
  rw [cmds_cons, cmds_cons, plug_d]
theorem vars_plug (p : Frame) (a : Attach) (n : Node) (r : List Frame) : vars (plug p a n :: r) = vars (p :: r) := by
  rw [vars_cons, vars_cons, plug_d]

/-- the loop of `__up`: pops completed tests only, stops on a frame that had something above it -/
theorem upLoop_spec (f : Frame) (rest : List Frame) (h : Chain (f :: rest)) :
    Chain (upLoop f rest).1 ∧ cmds (upLoop f rest).1 = cmds rest ∧ vars (upLoop f rest).1 = vars rest ∧
    (∀ g, (upLoop f rest).1.head? = some g → LowerOK g ∧ (upLoop f rest).2 = g.d.variableArgs) ∧
    ((upLoop f rest).1 = [] → (upLoop f rest).2 = false) := by
  induction rest generalizing f with
  | nil => simp [upLoop, Chain]
  | cons p r ih =>
    have hch : Chain (plug p f.attach (Frame.toNode f) :: r) := h.pop_plug _
    have hlow : LowerOK (plug p f.attach (Frame.toNode f)) := plug_lower _ _ _ h.2.2.1
    unfold upLoop
    simp only
    split
    · rename_i hc
      simp only [Bool.and_eq_true, beq_iff_eq] at hc
      obtain ⟨i1, i2, i3, i4, i5⟩ := ih _ hch
      refine ⟨i1, ?_, ?_, i4, i5⟩
      · rw [i2, cmds_cons]
        have : p.d.kind = .test := by rw [← plug_d p f.attach (Frame.toNode f)]; exact hc.1
        simp [this]
      · rw [i3, vars_cons]
        have := complete_not_var _ hc.2
        rw [plug_d] at this
        simp [this]
    · refine ⟨hch, cmds_plug _ _ _ _, vars_plug _ _ _ _, ?_, by simp⟩
      intro g hg
      simp at hg
      subst hg
      refine ⟨hlow, ?_⟩
      cases hv : (plug p f.attach (Frame.toNode f)).d.variableArgs with
      | false => simp
      | true =>
        have := (cmdSafe_var _ hch.head.1 hv).1
        simp [this]

end Safe

namespace Safe
open Machine Args ArgsSafe

theorem var_not_complete (f : Frame) (h : f.d.variableArgs = true) : Frame.complete f = false := by
  unfold Frame.complete isComplete; simp [h]

theorem consistent_test_node (n : Node) : Consistent .test (.test n) := by simp [Consistent]

/-- the loop of `__check_command_completion`, entered from a completed test -/
theorem complLoop_spec (ld : List Bytes) (f : Frame) (rest : List Frame) (h : Chain (f :: rest))
    (hf : f.d.kind = .test) :
    (∀ w, complLoop ld f rest ≠ .error (.crash w)) ∧
    ∀ o, complLoop ld f rest = .ok o →
      Chain o.stack ∧ cmds o.stack = cmds rest ∧ vars o.stack = vars rest ∧ o.stack ≠ [] ∧
      (∀ g, o.stack.head? = some g → g.d.nonDet = false) ∧
      (o.ok = true → ∀ g, o.stack.head? = some g → g.d.variableArgs = true →
          o.expected = some [.comma, .right_parenthesis]) := by
  induction rest generalizing f with
  | nil => exact absurd hf h.2
  | cons p r ih =>
    have hch : Chain (plug p f.attach (Frame.toNode f) :: r) := h.pop_plug _
    have hlow : LowerOK (plug p f.attach (Frame.toNode f)) := plug_lower _ _ _ h.2.2.1
    have hcm := cmds_plug p f.attach (Frame.toNode f) r
    have hvr := vars_plug p f.attach (Frame.toNode f) r
    generalize hp' : plug p f.attach (Frame.toNode f) = p' at hch hlow hcm hvr
    unfold complLoop
    simp only [hp']
    by_cases hk : (p'.d.kind == .control || p'.d.kind == .test) = true
    · simp only [hk, if_true]
      by_cases hc : Frame.complete p' = true
      · simp only [hc, if_true]
        by_cases hctl : (p'.d.kind == .control) = true
        · simp only [hctl, if_true]
          refine ⟨by simp, ?_⟩
          intro o ho
          simp at ho
          subst ho
          refine ⟨hch, hcm, hvr, by simp, ?_, ?_⟩
          · intro g hg; simp at hg; subst hg; exact hlow.calm
          · intro _ g hg hv; simp at hg; subst hg
            have := complete_not_var _ hc
            rw [this] at hv; simp at hv
        · simp only [hctl, Bool.false_eq_true, if_false]
          have htest : p'.d.kind = .test := by
            simp only [Bool.or_eq_true, beq_iff_eq] at hk hctl
            rcases hk with h1 | h1
            · exact absurd h1 hctl
            · exact h1
          obtain ⟨i0, i1⟩ := ih p' hch htest
          refine ⟨i0, ?_⟩
          intro o ho
          obtain ⟨j1, j2, j3, j4, j5, j6⟩ := i1 o ho
          have hnv := complete_not_var _ hc
          refine ⟨j1, ?_, ?_, j4, j5, j6⟩
          · rw [j2, ← hcm, cmds_cons]; simp [htest]
          · rw [j3, ← hvr, vars_cons]; simp [hnv]
      · simp only [hc, Bool.false_eq_true, if_false]
        have hvar : p'.d.variableArgs = true := by
          rcases hlow.done with h1 | h1
          · exact h1
          · exact absurd h1 hc
        have hsafe := checkNextArg_safe p'.d (cmdSafe_def _ hch.head.1) ld p'.st .test (.test (Frame.toNode f)) false true
          hch.head.2.args (consistent_test_node _)
        cases hcna : checkNextArg p'.d ld p'.st .test (.test (Frame.toNode f)) false true with
        | error e =>
          simp only
          refine ⟨?_, by intro o ho; simp at ho⟩
          intro w hw
          simp at hw
          subst hw
          exact hsafe.1 w hcna
        | ok r' =>
          cases r' with
          | none =>
            simp only
            refine ⟨by simp, ?_⟩
            intro o ho
            simp at ho
            subst ho
            refine ⟨hch, hcm, hvr, by simp, ?_, by simp⟩
            intro g hg; simp at hg; subst hg; exact hlow.calm
          | some r'' =>
            obtain ⟨st', pl⟩ := r''
            simp only
            have hok' : FrameOK { p' with st := st' } :=
              ⟨hch.head.1, checkNextArg_StOK p'.d hch.head.1 ld p'.st .test _ false true hch.head.2 (consistent_test_node _) st' pl hcna⟩
            have hch' : Chain ({ p' with st := st' } :: r) := hch.replace_top hok' rfl rfl
            have hnc : Frame.complete { p' with st := st' } = false := var_not_complete _ hvar
            simp only [hnc, Bool.not_false, if_true]
            refine ⟨by simp, ?_⟩
            intro o ho
            simp at ho
            subst ho
            refine ⟨hch', ?_, ?_, by simp, ?_, ?_⟩
            · rw [← hcm, cmds_cons, cmds_cons]
            · rw [← hvr, vars_cons, vars_cons]
            · intro g hg; simp at hg; subst hg; exact hlow.calm
            · intro _ g hg _; simp at hg; subst hg; simp [hvar]
    · exfalso
      have := hlow.kind
      cases hkk : p'.d.kind <;> simp [hkk] at hk this

end Safe

namespace Safe
open Machine Args ArgsSafe

/-! ## bracket bookkeeping -/

def noRp (b : List TokKind) : List TokKind := b.filter (· != .right_parenthesis)
/-- closing braces that can be popped before any stale bracket is met (parentheses aside) -/
def liveRcb (b : List TokKind) : Nat := ((noRp b).takeWhile (· == .right_cbracket)).length
def rps (b : List TokKind) : Nat := b.count .right_parenthesis

@[simp] theorem liveRcb_rp (b : List TokKind) : liveRcb (.right_parenthesis :: b) = liveRcb b := by
  simp [liveRcb, noRp]
@[simp] theorem liveRcb_rcb (b : List TokKind) : liveRcb (.right_cbracket :: b) = liveRcb b + 1 := by
  simp [liveRcb, noRp, List.takeWhile]
@[simp] theorem liveRcb_rb (b : List TokKind) : liveRcb (.right_bracket :: b) = 0 := by
  simp [liveRcb, noRp, List.takeWhile]
@[simp] theorem rps_rp (b : List TokKind) : rps (.right_parenthesis :: b) = rps b + 1 := by simp [rps]
@[simp] theorem rps_rcb (b : List TokKind) : rps (.right_cbracket :: b) = rps b := by simp [rps]
@[simp] theorem rps_rb (b : List TokKind) : rps (.right_bracket :: b) = rps b := by simp [rps]

theorem popBracket_some (s s1 : PState) (k : TokKind) (h : popBracket s k = some s1) :
    ∃ b, s.brackets = k :: b ∧ s1 = { s with brackets := b } := by
  unfold popBracket at h
  cases hb : s.brackets with
  | nil => rw [hb] at h; simp at h
  | cons x b =>
    rw [hb] at h
    simp only at h
    by_cases hx : (x == k) = true
    · simp only [hx, if_true, Option.some.injEq] at h
      have : x = k := by simpa using hx
      exact ⟨b, by rw [this], h.symm⟩
    · simp [hx] at h

def topVar (l : List Frame) : Bool :=
  match l with
  | f :: _ => f.d.variableArgs
  | [] => false

/-- the part of the invariant the closing handlers (`{`, `;`, `}`) rely on; `e` = what was expected
    before the current token was admitted -/
structure Core (s : PState) (e : Option (List TokKind)) : Prop where
  chain : Chain s.stack
  cnone : s.cstate = .none →
    (∀ g, s.stack.head? = some g → g.d.kind = .control ∧ Frame.complete g = true) ∧ liveRcb s.brackets ≤ cmds s.stack
  cargs : s.cstate = .arguments → liveRcb s.brackets + 1 ≤ cmds s.stack
  cstrl : s.cstate = .stringlist → 1 ≤ cmds s.stack ∧
    ∃ b0, s.brackets = .right_bracket :: b0 ∧ (e = some [.left_cbracket] ∨ liveRcb b0 + 1 ≤ cmds s.stack)
  paren : rps s.brackets ≤ vars s.stack

/-- the part that ties `expected` to a variable-arity test on top of the stack -/
structure Top (s : PState) (e : Option (List TokKind)) : Prop where
  open_ : topVar s.stack = true → e = some [.left_parenthesis] → rps s.brackets + 1 ≤ vars s.stack
  topv : topVar s.stack = true → s.cstate = .arguments →
    (e = some [.left_parenthesis] ∨ e = some [.identifier] ∨ e = some [.comma, .right_parenthesis])

def Inv (s : PState) : Prop := Core s s.expected ∧ Top s s.expected

theorem Inv.init : Inv {} := by
  refine ⟨⟨trivial, ?_, ?_, ?_, ?_⟩, ⟨?_, ?_⟩⟩ <;> simp [liveRcb, noRp, cmds, rps, vars, topVar]

theorem Core.nonempty {s : PState} {e} (h : Core s e) (hc : s.cstate ≠ .none) : s.stack ≠ [] := by
  intro hs
  cases hcs : s.cstate with
  | none => exact hc hcs
  | arguments => have := h.cargs hcs; rw [hs] at this; simp [cmds] at this
  | stringlist => have := (h.cstrl hcs).1; rw [hs] at this; simp [cmds] at this

theorem getCommand_mem (T : Table) (ld : List Bytes) (ident : Bytes) (ce : Bool) (d : CmdDef)
    (h : getCommand T ld ident ce = .ok d) : d ∈ T := by
  unfold getCommand at h
  cases hl : T.lookup ident with
  | none => rw [hl] at h; simp at h
  | some d' =>
    rw [hl] at h
    simp only at h
    split at h
    · simp at h
    · simp only [Except.ok.injEq] at h
      subst h
      unfold Table.lookup Table.findKey at hl
      exact List.mem_of_find?_eq_some hl

end Safe
