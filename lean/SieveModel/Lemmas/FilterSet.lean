import SieveModel.Model.FilterSet
/-! Invariant of the filter list: unique names; enabled flag, `is_filter_disabled` and the
    `if false` wrapping always agree; wrapping depth ≤ 1. -/
namespace FS

/-- the content is exactly "the definition, wrapped once iff disabled" -/
def WFflt (f : Flt) : Prop :=
  f.content = (if f.enabled then .plain f.content.core else .wrapped (.plain f.content.core))

def Inv (fs : FS) : Prop := (fs.map (·.name)).Nodup ∧ ∀ f ∈ fs, WFflt f

theorem eq_of_name_eq (fs : FS) (h : (fs.map (·.name)).Nodup) (a b : Flt) (ha : a ∈ fs) (hb : b ∈ fs)
    (hn : a.name = b.name) : a = b := by
  induction fs with
  | nil => simp at ha
  | cons f rest ih =>
    simp only [List.map_cons, List.nodup_cons] at h
    simp only [List.mem_cons] at ha hb
    rcases ha with rfl | ha <;> rcases hb with rfl | hb
    · rfl
    · exact absurd (List.mem_map.mpr ⟨b, hb, hn.symm⟩) h.1
    · exact absurd (List.mem_map.mpr ⟨a, ha, hn⟩) h.1
    · exact ih h.2 ha hb

theorem mem_updateFirst (n : Bytes) (g : Flt → Flt) (fs : FS) (x : Flt) (h : x ∈ updateFirst n g fs) :
    x ∈ fs ∨ ∃ f0 ∈ fs, (f0.name == n) = true ∧ x = g f0 := by
  induction fs with
  | nil => simp [updateFirst] at h
  | cons f rest ih =>
    simp only [updateFirst] at h
    split at h
    · rename_i hn
      simp only [List.mem_cons] at h
      rcases h with rfl | h
      · exact Or.inr ⟨f, by simp, hn, rfl⟩
      · exact Or.inl (by simp [h])
    · simp only [List.mem_cons] at h
      rcases h with rfl | h
      · exact Or.inl (by simp)
      · rcases ih h with h1 | ⟨f0, hf0, hn, rfl⟩
        · exact Or.inl (by simp [h1])
        · exact Or.inr ⟨f0, by simp [hf0], hn, rfl⟩

theorem names_updateFirst_same (n : Bytes) (g : Flt → Flt) (fs : FS) (hg : ∀ f, (g f).name = f.name) :
    (updateFirst n g fs).map (·.name) = fs.map (·.name) := by
  induction fs with
  | nil => simp [updateFirst]
  | cons f rest ih =>
    simp only [updateFirst]
    split
    · simp [hg]
    · simp [ih]

theorem names_removeFirst_sublist (n : Bytes) (fs : FS) :
    ((removeFirst n fs).map (·.name)).Sublist (fs.map (·.name)) := by
  induction fs with
  | nil => simp [removeFirst]
  | cons f rest ih =>
    simp only [removeFirst]
    split
    · simp
    · simpa using ih

theorem mem_removeFirst (n : Bytes) (fs : FS) (x : Flt) (h : x ∈ removeFirst n fs) : x ∈ fs := by
  induction fs with
  | nil => simp [removeFirst] at h
  | cons f rest ih =>
    simp only [removeFirst] at h
    split at h
    · simp [h]
    · simp only [List.mem_cons] at h ⊢
      rcases h with rfl | h
      · exact Or.inl rfl
      · exact Or.inr (ih h)

theorem wf_wrap (f : Flt) (h : WFflt f) :
    WFflt { f with content := wrapIfNeeded f.content, enabled := false } := by
  unfold WFflt at h ⊢
  unfold wrapIfNeeded
  cases he : f.enabled
  · rw [he] at h; simp only [Bool.false_eq_true, if_false] at h
    rw [h]; simp [Content.isDisabled, Content.core]
  · rw [he] at h; simp only [if_true] at h
    rw [h]; simp [Content.isDisabled, Content.core]

/-- adding keeps the invariant; a duplicate name is refused and nothing changes -/
theorem addfilter_inv (fs : FS) (n : Bytes) (id : Nat) (h : Inv fs) : Inv (addfilter fs n id).2 := by
  unfold addfilter
  split
  · exact h
  · rename_i hex
    obtain ⟨hnd, hwf⟩ := h
    constructor
    · simp only [List.map_append, List.map_cons, List.map_nil]
      rw [List.nodup_append]
      refine ⟨hnd, by simp, ?_⟩
      intro a ha b hb
      simp only [List.mem_cons, List.not_mem_nil, or_false] at hb
      subst hb
      intro hab; subst hab
      simp only [filterExists, Bool.not_eq_true, List.any_eq_false] at hex
      obtain ⟨f, hf, rfl⟩ := List.mem_map.mp ha
      simpa using hex f hf
    · intro f hf
      simp only [List.mem_append, List.mem_cons, List.not_mem_nil, or_false] at hf
      rcases hf with hf | rfl
      · exact hwf f hf
      · simp [WFflt, Content.core]

theorem disablefilter_inv (fs : FS) (n : Bytes) (h : Inv fs) : Inv (disablefilter fs n).2 := by
  unfold disablefilter
  split
  · exact h
  · obtain ⟨hnd, hwf⟩ := h
    constructor
    · rw [names_updateFirst_same]; exact hnd; intro f; rfl
    · intro x hx
      rcases mem_updateFirst _ _ _ _ hx with h1 | ⟨f0, hf0, _, rfl⟩
      · exact hwf x h1
      · exact wf_wrap f0 (hwf f0 hf0)

theorem enablefilter_inv (fs : FS) (n : Bytes) (h : Inv fs) : Inv (enablefilter fs n).2 := by
  unfold enablefilter
  split
  · exact h
  · rename_i f hfind
    split
    · exact h
    · rename_i inner hun
      obtain ⟨hnd, hwf⟩ := h
      constructor
      · rw [names_updateFirst_same]; exact hnd; intro f; rfl
      · intro x hx
        rcases mem_updateFirst _ _ _ _ hx with h1 | ⟨f0, hf0, hn0, rfl⟩
        · exact hwf x h1
        · -- f0 is the first match, so it is f itself (names are unique)
          have hfmem : f ∈ fs := List.mem_of_find?_eq_some hfind
          have hfn : (f.name == n) = true := by simpa using List.find?_some hfind
          have heq : f0 = f := by
            have h1 : f0.name = f.name := by
              have a : f0.name = n := by simpa using hn0
              have b : f.name = n := by simpa using hfn
              rw [a, b]
            exact eq_of_name_eq fs hnd f0 f hf0 hfmem h1
          subst heq
          have hw := hwf f0 hf0
          unfold WFflt at hw ⊢
          cases he : f0.enabled
          · rw [he] at hw; simp only [Bool.false_eq_true, if_false] at hw
            rw [hw] at hun; simp [Content.unwrap] at hun
            subst hun; simp [Content.core]
          · rw [he] at hw; simp only [if_true] at hw
            rw [hw] at hun; simp [Content.unwrap] at hun

theorem removefilter_inv (fs : FS) (n : Bytes) (h : Inv fs) : Inv (removefilter fs n).2 := by
  unfold removefilter
  split
  · obtain ⟨hnd, hwf⟩ := h
    exact ⟨(names_removeFirst_sublist n fs).nodup hnd, fun x hx => hwf x (mem_removeFirst n fs x hx)⟩
  · exact h


theorem nodup_updateFirst_rename (old new : Bytes) (h : Flt → Content) (fs : FS)
    (hnd : (fs.map (·.name)).Nodup) (hnew : new = old ∨ new ∉ fs.map (·.name)) :
    ((updateFirst old (fun g => { g with name := new, content := h g }) fs).map (·.name)).Nodup := by
  induction fs with
  | nil => simp [updateFirst]
  | cons f rest ih =>
    simp only [List.map_cons, List.nodup_cons] at hnd
    simp only [updateFirst]
    split
    · rename_i hn
      have hfo : f.name = old := by simpa using hn
      simp only [List.map_cons, List.nodup_cons]
      refine ⟨?_, hnd.2⟩
      rcases hnew with rfl | hnew
      · rw [← hfo]; exact hnd.1
      · intro hmem; apply hnew; simp [hmem]
    · rename_i hn
      simp only [List.map_cons, List.nodup_cons]
      have hnew' : new = old ∨ new ∉ rest.map (·.name) := by
        rcases hnew with h | h
        · exact Or.inl h
        · right; intro hm; apply h; simp [hm]
      refine ⟨?_, ih hnd.2 hnew'⟩
      intro hmem
      obtain ⟨x, hx, hxn⟩ := List.mem_map.mp hmem
      rcases mem_updateFirst _ _ _ _ hx with h1 | ⟨f0, hf0, hn0, rfl⟩
      · exact hnd.1 (List.mem_map.mpr ⟨x, h1, hxn⟩)
      · simp only at hxn
        rcases hnew with rfl | hnew
        · have : f0.name = f.name := by
            have a : f0.name = new := by simpa using hn0
            rw [a, hxn]
          exact hnd.1 (List.mem_map.mpr ⟨f0, hf0, this⟩)
        · apply hnew; rw [hxn]; simp

/-- update / replace keep the invariant: position and enabled status are kept, a disabled filter
    stays wrapped exactly once -/
theorem install_inv (fs : FS) (old new : Bytes) (id : Nat) (h : Inv fs) :
    Inv (install fs old new (.plain id)).2 := by
  unfold install
  split
  · exact h
  · split
    · exact h
    · rename_i hcond
      obtain ⟨hnd, hwf⟩ := h
      have hnew : new = old ∨ new ∉ fs.map (·.name) := by
        by_cases hno : new = old
        · exact Or.inl hno
        · right
          intro hm
          apply hcond
          obtain ⟨x, hx, hxn⟩ := List.mem_map.mp hm
          have : filterExists fs new = true := by
            simp only [filterExists, List.any_eq_true]
            exact ⟨x, hx, by simp [hxn]⟩
          simp [this, hno]
      refine ⟨nodup_updateFirst_rename old new _ fs hnd hnew, ?_⟩
      intro x hx
      rcases mem_updateFirst _ _ _ _ hx with h1 | ⟨f0, _, _, rfl⟩
      · exact hwf x h1
      · unfold WFflt
        cases f0.enabled <;> simp [wrapIfNeeded, Content.isDisabled, Content.core]

theorem perm_cons_removeFirst (n : Bytes) (fs : FS) (f : Flt) (h : findFirst fs n = some f) :
    (f :: removeFirst n fs).Perm fs := by
  induction fs with
  | nil => simp [findFirst] at h
  | cons a rest ih =>
    simp only [findFirst, List.find?_cons] at h
    simp only [removeFirst]
    split at h
    · rename_i ha
      simp only [Option.some.injEq] at h; subst h
      simp [ha]
    · rename_i ha
      have : (a.name == n) = false := by simpa using ha
      simp only [this, Bool.false_eq_true, if_false]
      exact (List.Perm.swap a f _).trans ((ih h).cons a)

theorem length_removeFirst (n : Bytes) (fs : FS) (f : Flt) (h : findFirst fs n = some f) :
    (removeFirst n fs).length + 1 = fs.length := by
  have := (perm_cons_removeFirst n fs f h).length_eq
  simpa using this

theorem inv_of_perm (a b : FS) (hp : a.Perm b) (h : Inv b) : Inv a :=
  ⟨(hp.map (·.name)).nodup_iff.mpr h.1, fun x hx => h.2 x (hp.mem_iff.mp hx)⟩

theorem indexOf_lt (fs : FS) (n : Bytes) (i : Nat) (h : indexOf fs n = some i) : i < fs.length := by
  unfold indexOf at h
  have := List.findIdx?_eq_some_iff_findIdx_eq.mp h
  exact this.1

/-- a move is a permutation of the same filters: nothing is lost or duplicated, flags untouched -/
theorem movefilter_perm (fs : FS) (n : Bytes) (up : Bool) : (movefilter fs n up).2.Perm fs := by
  unfold movefilter
  split
  · rename_i i f hi hf
    have hlt := indexOf_lt fs n i hi
    have hlen := length_removeFirst n fs f hf
    split
    · split
      · exact List.Perm.refl _
      · rename_i h0
        have hi0 : i ≠ 0 := by simpa using h0
        exact (List.perm_insertIdx f _ (by omega)).trans (perm_cons_removeFirst n fs f hf)
    · split
      · exact List.Perm.refl _
      · rename_i hl
        have hil : i ≠ fs.length - 1 := by simpa using hl
        exact (List.perm_insertIdx f _ (by omega)).trans (perm_cons_removeFirst n fs f hf)
  · exact List.Perm.refl _

theorem movefilter_inv (fs : FS) (n : Bytes) (up : Bool) (h : Inv fs) : Inv (movefilter fs n up).2 :=
  inv_of_perm _ _ (movefilter_perm fs n up) h

end FS
