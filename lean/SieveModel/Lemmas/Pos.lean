import SieveModel.Model.Lexer
/-! Position arithmetic of `Lexer.curlineno` / `Lexer.curcolno` against a forward-scanning
    text-editor notion of (line, column). -/
namespace Lex

/-- editor position of byte offset `p`: start at `(l, c)`, a line feed moves to the next line -/
def posOf : Bytes → Nat → Nat × Nat → Nat × Nat
  | _, 0, lc => lc
  | [], _ + 1, lc => lc
  | ch :: cs, p + 1, (l, c) => if ch == 10 then posOf cs p (l + 1, 1) else posOf cs p (l, c + 1)

theorem count_take_le (c : UInt8) (b : Bytes) (p : Nat) : B.count c (b.take p) ≤ B.count c b := by
  unfold B.count
  have : (b.take p).Sublist b := List.take_sublist p b
  exact (this.filter _).length_le

theorem lineno_bounds (text : Bytes) (p : Nat) :
    1 ≤ lineno text p ∧ lineno text p ≤ 1 + B.count 10 text := by
  unfold lineno
  have := count_take_le 10 text p
  omega

/-- position just after the prefix `pre` -/
def after (pre : Bytes) : Nat × Nat := (B.count 10 pre + 1, pre.length + 1 - rfindNl1 pre)

theorem rfindNl1_le (b : Bytes) : rfindNl1 b ≤ b.length := by
  unfold rfindNl1; split <;> omega

theorem after_snoc_nl (pre : Bytes) : after (pre ++ [10]) = ((after pre).1 + 1, 1) := by
  simp [after, B.count, rfindNl1, List.filter_append, List.idxOf?_cons]

theorem after_snoc (pre : Bytes) (ch : UInt8) (h : ch ≠ 10) :
    after (pre ++ [ch]) = ((after pre).1, (after pre).2 + 1) := by
  have hf : List.filter (fun x => x == 10) [ch] = [] := by simp [h]
  have hne : (ch == 10) = false := by simpa using h
  simp only [after, B.count, rfindNl1, List.filter_append, hf, List.append_nil, List.length_append,
    List.length_cons, List.length_nil, List.reverse_append, List.reverse_cons, List.reverse_nil,
    List.nil_append, List.singleton_append, List.idxOf?_cons, hne, Prod.mk.injEq, true_and]
  have hle := rfindNl1_le pre
  unfold rfindNl1 at hle
  cases h2 : pre.reverse.idxOf? 10 with
  | none => simp
  | some i => simp [h2] at hle ⊢; omega

theorem posOf_spec (pre text : Bytes) (p : Nat) (hp : p ≤ text.length) :
    posOf text p (after pre) = after (pre ++ text.take p) := by
  induction text generalizing pre p with
  | nil => simp at hp; subst hp; simp [posOf]
  | cons ch cs ih =>
    cases p with
    | zero => simp [posOf]
    | succ p =>
      simp only [List.length_cons] at hp
      have hp' : p ≤ cs.length := by omega
      have key := ih (pre ++ [ch]) p hp'
      have e1 : pre ++ [ch] ++ cs.take p = pre ++ (ch :: cs).take (p + 1) := by simp
      rw [e1] at key
      rw [← key]
      by_cases h10 : ch = 10
      · subst h10
        rw [after_snoc_nl]
        simp [posOf, after]
      · rw [after_snoc pre ch h10]
        have hne : (ch == 10) = false := by simpa using h10
        simp [posOf, after, hne]

/-- C18 (arithmetic): the reported (line, column) of byte offset `p` is its editor position -/
theorem lineno_colno_eq_posOf (text : Bytes) (p : Nat) (_hp : p ≤ text.length) :
    (lineno text p, colno text p) = posOf text p (1, 1) := by
  have h := posOf_spec [] text p _hp
  have h0 : after [] = (1, 1) := by simp [after, B.count, rfindNl1]
  rw [h0] at h
  rw [h]
  simp [after, lineno, colno, List.length_take, Nat.min_eq_left _hp]

end Lex
