import SieveModel.Lemmas.Threading
import SieveModel.Lemmas.Invariant
/-!
# `StackThread` with the tokens in view

The same invariant scheme as `Lemmas/StackThread.lean` (a predicate per frame, a relation to the frame below, a
predicate on the result list), but the closure conditions also see **which token** made the machine act: a frame is
pushed for an identifier token that names its definition, a scalar argument is offered as the text of a string /
multi-line / number / tag token with the matching argument type.  `TokP` is any predicate the delivered tokens
satisfy (in the end: "is a token of the lexed script").
-/
namespace TokThread
open Machine Args ArgsSafe

/-- every item of a string list under construction is the text of a string token -/
def ItemsP (TokP : Tok → Prop) (l : List Bytes) : Prop := ∀ x ∈ l, ∃ tok, TokP tok ∧ tok.kind = .string ∧ tok.text = x

/-- what the parser offers to `check_next_arg` for a scalar or list token: the token's own text under the argument type of
    its kind; a bracketed list as a list of string-token texts -/
def Offered (TokP : Tok → Prop) (t : ArgType) (v : AVal) : Prop :=
  (∃ tok, TokP tok ∧ v = .str tok.text ∧
    (((tok.kind = .string ∨ tok.kind = .multiline) ∧ t = .string) ∨ (tok.kind = .number ∧ t = .number) ∨
      (tok.kind = .tag ∧ t = .tag))) ∨
  (t = .stringlist ∧ ∃ l, v = .strs l ∧ ItemsP TokP l)

/-- the identifier token a frame was pushed for -/
def Named (TokP : Tok → Prop) (T : Table) (d : CmdDef) : Prop :=
  ∃ tok, TokP tok ∧ tok.kind = .identifier ∧ T.lookup tok.text = some d

structure Closed (TokP : Tok → Prop) (T : Table) (FP : Frame → Prop) (R : CmdDef → Attach → Frame → Prop)
    (BP : CmdDef → Attach → List Node → Prop) (ResP : List Node → Prop) : Prop where
  nil : ResP []
  pushTop : ∀ d ∈ T, Named TokP T d → ∀ res, ResP res → d.kind ≠ .test → followOk d (lastName res) = true →
    FP { d := d, attach := .top } ∧ BP d .top res
  pushChild : ∀ d ∈ T, Named TokP T d → ∀ f : Frame, FP f → d.kind ≠ .test → f.d.acceptChildren = true →
    followOk d (lastName f.children) = true → FP { d := d, attach := .child } ∧ R d .child f
  pushTest : ∀ d ∈ T, Named TokP T d → ∀ (f : Frame) (ld : List Bytes) (st' : CState) (pl : Placement), FP f → d.kind = .test →
    checkNextArg f.d ld f.st .test (.test (.mk d.name [] [] [] [])) = .ok (some (st', pl)) →
    FP { f with st := st' } ∧ FP { d := d, attach := .place pl } ∧ R d (.place pl) { f with st := st' }
  value : ∀ (f : Frame) (ld : List Bytes) (t : ArgType) (v : AVal) (st' : CState) (pl : Placement),
    FP f → Offered TokP t v →
    checkNextArg f.d ld f.st t v = .ok (some (st', pl)) → FP { f with st := st' }
  dry : ∀ (f : Frame) (ld : List Bytes) (n : Node) (st' : CState) (pl : Placement), FP f →
    checkNextArg f.d ld f.st .test (.test n) (add := false) = .ok (some (st', pl)) → FP { f with st := st' }
  plug : ∀ p f : Frame, FP p → FP f → R f.d f.attach p → FP (plug p f.attach (Frame.toNode f))
  reassign : ∀ f f', FP f → reassign f = some f' → FP f'
  record : ∀ (f : Frame) (res : List Node) (c : List Bytes), FP f → BP f.d f.attach res → ResP res →
    ResP (res ++ [Frame.toNode f c])

variable {TokP : Tok → Prop} {T : Table} {FP : Frame → Prop} {R : CmdDef → Attach → Frame → Prop}
  {BP : CmdDef → Attach → List Node → Prop} {ResP : List Node → Prop}

/-- the stack invariant: every frame in `FP`, related to the frame below it; the bottom frame related to
    the result list -/
def StackP (FP : Frame → Prop) (R : CmdDef → Attach → Frame → Prop) (BP : CmdDef → Attach → List Node → Prop) :
    List Frame → List Node → Prop
  | [], _ => True
  | [f], res => FP f ∧ BP f.d f.attach res
  | g :: f :: r, res => FP g ∧ R g.d g.attach f ∧ StackP FP R BP (f :: r) res

def SP (TokP : Tok → Prop) (FP : Frame → Prop) (R : CmdDef → Attach → Frame → Prop) (BP : CmdDef → Attach → List Node → Prop)
    (ResP : List Node → Prop) (s : PState) : Prop :=
  StackP FP R BP s.stack s.result ∧ ResP s.result ∧ ItemsP TokP s.curlist

def KeepsP (TokP : Tok → Prop) (FP : Frame → Prop) (R : CmdDef → Attach → Frame → Prop) (BP : CmdDef → Attach → List Node → Prop)
    (ResP : List Node → Prop) (r : FnResult) : Prop :=
  match r with
  | .ret _ s' _ => SP TokP FP R BP ResP s'
  | _ => True

theorem keepsP_ofCmdErr (rew : Bool) (e : CmdErr) : KeepsP TokP FP R BP ResP (ofCmdErr rew e) := by
  cases e <;> trivial

theorem StackP.head {f : Frame} {r : List Frame} {res : List Node} (h : StackP FP R BP (f :: r) res) : FP f := by
  cases r with
  | nil => exact h.1
  | cons g r => exact h.1

/-- the top frame may be replaced by one with the same definition and attachment -/
theorem StackP.retop {f f' : Frame} {r : List Frame} {res : List Node} (h : StackP FP R BP (f :: r) res)
    (hf : FP f') (hd : f'.d = f.d) (ha : f'.attach = f.attach) : StackP FP R BP (f' :: r) res := by
  cases r with
  | nil => exact ⟨hf, by rw [hd, ha]; exact h.2⟩
  | cons g r => exact ⟨hf, by rw [hd, ha]; exact h.2.1, h.2.2⟩

theorem SP.fields {s s' : PState} (h : SP TokP FP R BP ResP s) (h1 : s'.stack = s.stack) (h2 : s'.result = s.result)
    (h3 : s'.curlist = s.curlist) : SP TokP FP R BP ResP s' := by
  unfold SP; rw [h1, h2, h3]; exact h

theorem withTop_P (s : PState) (f f' : Frame) (rest : List Frame) (hs : s.stack = f :: rest)
    (h : SP TokP FP R BP ResP s) (hf : FP f') (hd : f'.d = f.d) (ha : f'.attach = f.attach) :
    SP TokP FP R BP ResP (withTop s f') := by
  unfold withTop
  rw [hs]
  refine ⟨?_, h.2⟩
  have := h.1
  rw [hs] at this
  exact this.retop hf hd ha

/-- what `curCheck` did, in terms of `checkNextArg` on the top frame -/
theorem curCheck_true (s : PState) (t : ArgType) (v : AVal) (s' : PState) (pl : Placement)
    (h : curCheck s t v = .ok (true, s', pl)) :
    ∃ f rest st', s.stack = f :: rest ∧ checkNextArg f.d s.loaded f.st t v = .ok (some (st', pl)) ∧
      s' = withTop s { f with st := st' } := by
  unfold curCheck at h
  split at h
  · simp at h
  · rename_i f rest hst
    split at h
    · simp at h
    · simp at h
    · rename_i st' pl' hcna
      simp at h
      exact ⟨f, rest, st', hst, by rw [← h.2]; exact hcna, h.1.symm⟩

theorem curCheck_false (s : PState) (t : ArgType) (v : AVal) (s' : PState) (pl : Placement)
    (h : curCheck s t v = .ok (false, s', pl)) : s' = s := by
  unfold curCheck at h
  split at h
  · simp at h
  · split at h
    · simp at h
    · simp at h; exact h.1.symm
    · simp at h

theorem popBracket_P (s s1 : PState) (k : TokKind) (h : SP TokP FP R BP ResP s) (hp : popBracket s k = some s1) :
    SP TokP FP R BP ResP s1 := by
  unfold popBracket at hp
  split at hp
  · simp at hp
  · split at hp
    · simp at hp; rw [← hp]; exact h.fields rfl rfl rfl
    · simp at hp

theorem getCommand_lookup (T : Table) (ld : List Bytes) (ident : Bytes) (ce : Bool) (d : CmdDef)
    (h : getCommand T ld ident ce = .ok d) : T.lookup ident = some d := by
  unfold getCommand at h
  cases hl : T.lookup ident with
  | none => rw [hl] at h; simp at h
  | some d' =>
    rw [hl] at h
    simp only at h
    split at h
    · simp at h
    · simp at h; rw [h]

variable (C : Closed TokP T FP R BP ResP)
include C

theorem curCheck_P (s : PState) (h : SP TokP FP R BP ResP s) (t : ArgType) (v : AVal) (hc : Offered TokP t v)
    (b : Bool) (s' : PState) (pl : Placement)
    (hcc : curCheck s t v = .ok (b, s', pl)) : SP TokP FP R BP ResP s' := by
  cases b with
  | false => rw [curCheck_false s t v s' pl hcc]; exact h
  | true =>
    obtain ⟨f, rest, st', hst, hcna, rfl⟩ := curCheck_true s t v s' pl hcc
    have hf : FP f := by have := h.1; rw [hst] at this; exact this.head
    exact withTop_P s f _ rest hst h (C.value f s.loaded t v st' pl hf hc hcna) rfl rfl

theorem upLoop_P (res : List Node) (rest : List Frame) : ∀ (f : Frame), StackP FP R BP (f :: rest) res →
    StackP FP R BP (upLoop f rest).1 res := by
  induction rest with
  | nil => intro f _; simp [upLoop, StackP]
  | cons p r ih =>
    intro f h
    have hf : FP f := h.1
    have hp : StackP FP R BP (p :: r) res := h.2.2
    have hp' : FP (plug p f.attach (Frame.toNode f)) := C.plug p f hp.head hf h.2.1
    have hst : StackP FP R BP (plug p f.attach (Frame.toNode f) :: r) res :=
      hp.retop hp' (Safe.plug_d p _ _) (Safe.plug_attach p _ _)
    unfold upLoop
    simp only
    split
    · exact ih _ hst
    · exact hst

theorem up_P (s s' : PState) (h : SP TokP FP R BP ResP s) (hu : up s = .ok s') : SP TokP FP R BP ResP s' := by
  unfold up at hu
  split at hu
  · simp at hu
  · rename_i f rest hst
    simp at hu
    rw [← hu]
    have hS := h.1
    rw [hst] at hS
    cases rest with
    | nil =>
      refine ⟨by simp [upLoop, StackP], ?_, h.2.2⟩
      simp only [record]
      exact C.record f s.result s.comments hS.1 hS.2 h.2.1
    | cons p r =>
      refine ⟨?_, ?_⟩
      · simp only [record]
        exact upLoop_P C s.result (p :: r) f hS
      · simp only [record]
        exact h.2

theorem complLoop_P (ld : List Bytes) (res : List Node) (rest : List Frame) : ∀ (f : Frame),
    StackP FP R BP (f :: rest) res → ∀ (o : ComplOut), complLoop ld f rest = .ok o → StackP FP R BP o.stack res := by
  induction rest with
  | nil =>
    intro f h o ho
    simp [complLoop] at ho
    subst ho
    exact h
  | cons p r ih =>
    intro f h o ho
    have hf : FP f := h.1
    have hp : StackP FP R BP (p :: r) res := h.2.2
    have hp' : FP (plug p f.attach (Frame.toNode f)) := C.plug p f hp.head hf h.2.1
    have hst : StackP FP R BP (plug p f.attach (Frame.toNode f) :: r) res :=
      hp.retop hp' (Safe.plug_d p _ _) (Safe.plug_attach p _ _)
    unfold complLoop at ho
    simp only at ho
    split at ho
    · split at ho
      · split at ho
        · simp at ho; subst ho; exact hst
        · exact ih _ hst o ho
      · split at ho
        · simp at ho
        · simp at ho; subst ho; exact hst
        · rename_i st' pl hcna
          have hp'' : FP { plug p f.attach (Frame.toNode f) with st := st' } := C.dry _ ld _ st' pl hp' hcna
          have hst' : StackP FP R BP ({ plug p f.attach (Frame.toNode f) with st := st' } :: r) res :=
            hst.retop hp'' rfl rfl
          split at ho
          · simp at ho; subst ho; exact hst'
          · exact ih _ hst' o ho
    · exact ih _ hst o ho

theorem completion_P (s : PState) (h : SP TokP FP R BP ResP s) (ts b : Bool) (s' : PState)
    (hc : completion s ts = .ok (b, s')) : SP TokP FP R BP ResP s' := by
  unfold completion at hc
  split at hc
  · simp at hc
  · rename_i f rest hst
    split at hc
    · simp at hc; rw [← hc.2]; exact h
    · split at hc
      · simp at hc; rw [← hc.2]; split
        · exact h.fields rfl rfl rfl
        · exact h
      · split at hc
        · simp at hc
        · rename_i o ho
          simp at hc
          rw [← hc.2]
          refine ⟨?_, h.2⟩
          have hS := h.1
          rw [hst] at hS
          exact complLoop_P C s.loaded s.result rest f hS o ho

theorem keepsP_complThen (s : PState) (h : SP TokP FP R BP ResP s) (ts rew : Bool) :
    KeepsP TokP FP R BP ResP (complThen s ts rew) := by
  unfold complThen
  split
  · exact keepsP_ofCmdErr _ _
  · rename_i b s' hc
    exact completion_P C s h ts b s' hc

theorem keepsP_offer (s : PState) (h : SP TokP FP R BP ResP s) (t : ArgType) (v : AVal) (hc : Offered TokP t v) :
    KeepsP TokP FP R BP ResP (offer s t v) := by
  unfold offer
  split
  · exact keepsP_ofCmdErr _ _
  · rename_i b s' pl hcc
    exact curCheck_P C s h t v hc b s' pl hcc

theorem keepsP_tryReassign (s : PState) (h : SP TokP FP R BP ResP s) : KeepsP TokP FP R BP ResP (tryReassign s) := by
  unfold tryReassign
  split
  · trivial
  · rename_i f rest hst
    split
    · split
      · exact h
      · rename_i f' hre
        have hf : FP f := by have := h.1; rw [hst] at this; exact this.head
        have hda : f'.d = f.d ∧ f'.attach = f.attach := by
          unfold reassign at hre
          split at hre
          · split at hre
            · split at hre
              · simp at hre
              · simp at hre; subst hre; exact ⟨rfl, rfl⟩
            · simp at hre
          · simp at hre
        exact withTop_P s f f' rest hst h (C.reassign f f' hf hre) hda.1 hda.2
    · exact h

theorem keepsP_thenCompl (r : FnResult) (h : KeepsP TokP FP R BP ResP r) : KeepsP TokP FP R BP ResP (thenCompl r) := by
  unfold thenCompl
  split
  · rename_i s' rew
    exact keepsP_complThen C s' h false rew
  · exact h

theorem keepsP_argThenCompl (s : PState) (h : SP TokP FP R BP ResP s) (tok : Tok) (htok : TokP tok) :
    KeepsP TokP FP R BP ResP (argThenCompl s tok.kind tok.text) := by
  unfold argThenCompl
  apply keepsP_thenCompl C
  have hoff : ∀ t v, Offered TokP t v →
      KeepsP TokP FP R BP ResP (if (!Utf8.valid tok.text) = true then FnResult.err PErr.decodeError false else offer s t v) := by
    intro t v hc; split
    · trivial
    · exact keepsP_offer C s h t v hc
  unfold argumentFn
  cases hk : tok.kind with
  | string => exact hoff _ _ (Or.inl ⟨tok, htok, rfl, Or.inl ⟨Or.inl hk, rfl⟩⟩)
  | multiline => exact hoff _ _ (Or.inl ⟨tok, htok, rfl, Or.inl ⟨Or.inr hk, rfl⟩⟩)
  | number => exact keepsP_offer C s h _ _ (Or.inl ⟨tok, htok, rfl, Or.inr (Or.inl ⟨hk, rfl⟩)⟩)
  | tag => exact keepsP_offer C s h _ _ (Or.inl ⟨tok, htok, rfl, Or.inr (Or.inr ⟨hk, rfl⟩)⟩)
  | left_bracket => exact ⟨h.1, h.2.1, by intro x hx; simp [openList] at hx⟩
  | left_cbracket => exact keepsP_tryReassign C s h
  | comma => exact keepsP_tryReassign C s h
  | right_parenthesis => exact keepsP_tryReassign C s h
  | semicolon => exact h
  | right_bracket => exact h
  | left_parenthesis => exact h
  | right_cbracket => exact h
  | hash_comment => exact h
  | bracket_comment => exact h
  | identifier => exact h

theorem keepsP_pushTest (s : PState) (h : SP TokP FP R BP ResP s) (tok : Tok) (htok : TokP tok) (hk : tok.kind = .identifier) :
    KeepsP TokP FP R BP ResP (pushTest T s tok.text) := by
  unfold pushTest
  split
  · trivial
  · rename_i d hd
    have hdp : d ∈ T := Threading.getCommand_mem' T _ _ _ d hd
    have hnamed : Named TokP T d := ⟨tok, htok, hk, getCommand_lookup T _ _ _ d hd⟩
    split
    · trivial
    · rename_i hk'
      have hkind : d.kind = .test := by simpa using hk'
      split
      · exact keepsP_ofCmdErr _ _
      · rename_i s1 pl hcc
        rw [curCheck_false s _ _ s1 pl hcc]; exact h
      · rename_i s1 pl hcc
        obtain ⟨f, rest, st', hst, hcna, rfl⟩ := curCheck_true s _ _ s1 pl hcc
        have hS := h.1
        rw [hst] at hS
        obtain ⟨h1, h2, h3⟩ := C.pushTest d hdp hnamed f s.loaded st' pl hS.head hkind hcna
        apply keepsP_complThen C
        have hw : (withTop s { f with st := st' }).stack = { f with st := st' } :: rest := by
          unfold withTop; rw [hst]
        have hr : (withTop s { f with st := st' }).result = s.result := by
          unfold withTop; rw [hst]
        refine ⟨?_, ?_⟩
        · show StackP FP R BP ({ d := d, attach := .place pl } :: (withTop s { f with st := st' }).stack)
            (withTop s { f with st := st' }).result
          rw [hw, hr]
          exact ⟨h2, h3, hS.retop h1 rfl rfl⟩
        · have hcl : (withTop s { f with st := st' }).curlist = s.curlist := by
            unfold withTop; rw [hst]
          refine ⟨?_, ?_⟩
          · show ResP (withTop s { f with st := st' }).result
            rw [hr]; exact h.2.1
          · show ItemsP TokP (withTop s { f with st := st' }).curlist
            rw [hcl]; exact h.2.2

theorem keepsP_closeParen (s : PState) (h : SP TokP FP R BP ResP s) : KeepsP TokP FP R BP ResP (closeParen s) := by
  unfold closeParen
  split
  · trivial
  · rename_i s1 h1
    split
    · trivial
    · rename_i s2 h2
      exact up_P C s1 s2 (popBracket_P s s1 _ h h1) h2

theorem keepsP_argumentsFn (s : PState) (h : SP TokP FP R BP ResP s) (tok : Tok) (htok : TokP tok) :
    KeepsP TokP FP R BP ResP (argumentsFn T s tok.kind tok.text) := by
  unfold argumentsFn
  split
  · trivial
  · split
    · rename_i hk
      exact keepsP_pushTest C s h tok htok hk
    · split
      · exact h.fields rfl rfl rfl
      · exact keepsP_argThenCompl C s h tok htok
    · split
      · exact h.fields rfl rfl rfl
      · exact keepsP_argThenCompl C s h tok htok
    · split
      · exact keepsP_argThenCompl C s h tok htok
      · exact keepsP_closeParen C s h
    · exact keepsP_argThenCompl C s h tok htok

theorem keepsP_stringlistFn (s : PState) (h : SP TokP FP R BP ResP s) (tok : Tok) (htok : TokP tok) :
    KeepsP TokP FP R BP ResP (stringlistFn s tok.kind tok.text) := by
  unfold stringlistFn
  split
  · rename_i hk
    split
    · trivial
    · refine ⟨h.1, h.2.1, ?_⟩
      intro x hx
      simp only [List.mem_append, List.mem_singleton] at hx
      rcases hx with hx | rfl
      · exact h.2.2 x hx
      · exact ⟨tok, htok, hk, rfl⟩
  · exact h.fields rfl rfl rfl
  · split
    · trivial
    · rename_i s1 h1
      have hp := popBracket_P s s1 _ h h1
      split
      · exact keepsP_ofCmdErr _ _
      · rename_i s2 pl hcc
        exact curCheck_P C s1 hp .stringlist _ (Or.inr ⟨rfl, _, rfl, hp.2.2⟩) _ _ _ hcc
      · rename_i s2 pl hcc
        have h2 := curCheck_P C s1 hp .stringlist _ (Or.inr ⟨rfl, _, rfl, hp.2.2⟩) _ _ _ hcc
        exact keepsP_complThen C ⟨s2.result, s2.comments, s2.stack, .arguments, s2.curlist, s2.expected, s2.brackets, s2.loaded⟩
          (h2.fields rfl rfl rfl) true false
  · exact h

theorem keepsP_stateFn (s : PState) (h : SP TokP FP R BP ResP s) (tok : Tok) (htok : TokP tok) :
    KeepsP TokP FP R BP ResP (stateFn T s tok.kind tok.text) := by
  unfold stateFn
  split
  · exact keepsP_stringlistFn C s h tok htok
  · exact keepsP_argumentsFn C s h tok htok

theorem keepsP_startCommand (s : PState) (h : SP TokP FP R BP ResP s) (tok : Tok) (htok : TokP tok) :
    KeepsP TokP FP R BP ResP (startCommand T s tok.kind tok.text) := by
  unfold startCommand
  split
  · split
    · trivial
    · rename_i s1 h1
      split
      · trivial
      · rename_i s2 h2
        exact (up_P C s1 s2 (popBracket_P s s1 _ h h1) h2).fields rfl rfl rfl
  · split
    · exact h
    · rename_i hident
      have hk0 : tok.kind = .identifier := by simpa using hident
      split
      · trivial
      · rename_i d hd
        have hdp : d ∈ T := Threading.getCommand_mem' T _ _ _ d hd
        have hnamed : Named TokP T d := ⟨tok, htok, hk0, getCommand_lookup T _ _ _ d hd⟩
        split
        · trivial
        · rename_i hk
          have hkind : d.kind ≠ .test := by simpa using hk
          split
          · trivial
          · rename_i hfo
            have hfo' : followOk d (prevName (announce s d)) = true := by simpa using hfo
            have hst : (announce s d).stack = s.stack := by unfold announce; split <;> rfl
            have hre : (announce s d).result = s.result := by unfold announce; split <;> rfl
            have hcl : (announce s d).curlist = s.curlist := by unfold announce; split <;> rfl
            have ha : SP TokP FP R BP ResP (announce s d) := h.fields hst hre hcl
            unfold pushCommand
            split
            · rename_i hnil
              unfold prevName at hfo'
              rw [hnil] at hfo'
              simp only at hfo'
              obtain ⟨h1, h2⟩ := C.pushTop d hdp hnamed _ ha.2.1 hkind hfo'
              exact ⟨⟨h1, h2⟩, ha.2⟩
            · rename_i f rest hcons
              split
              · trivial
              · rename_i hac
                have hac' : f.d.acceptChildren = true := by simpa using hac
                unfold prevName at hfo'
                rw [hcons] at hfo'
                simp only at hfo'
                have hS := ha.1
                rw [hcons] at hS
                obtain ⟨h1, h2⟩ := C.pushChild d hdp hnamed f hS.head hkind hac' hfo'
                refine ⟨?_, ha.2⟩
                show StackP FP R BP ({ d := d, attach := .child } :: (announce s d).stack) (announce s d).result
                rw [hcons]
                exact ⟨h1, h2, hS⟩

theorem keepsP_closeCommand (s' : PState) (h : SP TokP FP R BP ResP s') (k : TokKind) (rew : Bool) :
    KeepsP TokP FP R BP ResP (closeCommand s' k rew) := by
  unfold closeCommand
  split
  · split
    · trivial
    · split
      · exact h.fields rfl rfl rfl
      · exact h
  · split
    · split
      · trivial
      · split
        · exact h
        · split
          · rename_i e _; cases e <;> trivial
          · rename_i s2 hc
            exact completion_P C { s' with cstate := .none } (h.fields rfl rfl rfl) _ _ _ hc
          · rename_i s2 hc
            have h2 := completion_P C { s' with cstate := .none } (h.fields rfl rfl rfl) _ _ _ hc
            split
            · trivial
            · rename_i g rest2 hst2
              simp only
              split
              · trivial
              · rename_i s4 hup
                exact up_P C { s2 with loaded := completeCb g s2.loaded } s4 (h2.fields rfl rfl rfl) hup
    · exact h

theorem keepsP_commandFn (s : PState) (h : SP TokP FP R BP ResP s) (tok : Tok) (htok : TokP tok) :
    KeepsP TokP FP R BP ResP (commandFn T s tok.kind tok.text) := by
  unfold commandFn
  split
  · exact keepsP_startCommand C s h tok htok
  · have hg := keepsP_stateFn C s h tok htok
    split
    · rename_i s' rew heq
      rw [heq] at hg
      exact keepsP_closeCommand C s' hg tok.kind rew
    · exact hg

theorem step_P (s : PState) (h : SP TokP FP R BP ResP s) (tok : Tok) (htok : TokP tok) (s' : PState)
    (hs : step T s tok = .ok s' ∨ step T s tok = .rewind s') : SP TokP FP R BP ResP s' := by
  unfold step at hs
  split at hs
  · rcases hs with hs | hs <;> simp at hs
    rw [← hs]; exact h.fields rfl rfl rfl
  · rcases hs with hs | hs <;> simp at hs
    rw [← hs]; exact h
  · unfold stepTok at hs
    split at hs
    · rcases hs with hs | hs <;> simp at hs
    · rename_i s1 hadm
      have h1 : SP TokP FP R BP ResP s1 := by
        unfold admitTok at hadm
        split at hadm
        · simp at hadm; subst hadm; exact h
        · split at hadm
          · simp at hadm; subst hadm; exact h.fields rfl rfl rfl
          · simp at hadm
      have hg := keepsP_commandFn C s1 h1 tok htok
      unfold ofFn at hs
      split at hs
      · rename_i s2 heq; rw [heq] at hg; rcases hs with hs | hs <;> simp at hs; subst hs; exact hg
      · rename_i s2 heq; rw [heq] at hg; rcases hs with hs | hs <;> simp at hs; subst hs; exact hg
      · rcases hs with hs | hs <;> simp at hs
      · rcases hs with hs | hs <;> simp at hs
      · rcases hs with hs | hs <;> simp at hs

theorem deliver_P (s : PState) (h : SP TokP FP R BP ResP s) (tok : Tok) (htok : TokP tok) (s' : PState)
    (hd : deliver T s tok = .ok s') : SP TokP FP R BP ResP s' := by
  unfold deliver at hd
  cases hst : step T s tok with
  | ok s1 => rw [hst] at hd; simp at hd; subst hd; exact step_P C s h tok htok s1 (Or.inl hst)
  | reject e r => rw [hst] at hd; simp at hd
  | crash w => rw [hst] at hd; simp at hd
  | rewind s1 =>
    rw [hst] at hd
    simp only at hd
    have h1 := step_P C s h tok htok s1 (Or.inr hst)
    cases hst2 : step T s1 tok with
    | ok s2 => rw [hst2] at hd; simp at hd; subst hd; exact step_P C s1 h1 tok htok s2 (Or.inl hst2)
    | reject e r => rw [hst2] at hd; simp at hd
    | crash w => rw [hst2] at hd; simp at hd
    | rewind s2 => rw [hst2] at hd; simp at hd

theorem feed_P (toks : List Tok) (htoks : ∀ tok ∈ toks, TokP tok) (s : PState) (n : Nat) (h : SP TokP FP R BP ResP s)
    (s' : PState) (m : Nat) (hf : feed T toks s n = .done s' m) : SP TokP FP R BP ResP s' := by
  induction toks generalizing s n with
  | nil => simp [feed] at hf; rw [← hf.1]; exact h
  | cons tok rest ih =>
    unfold feed at hf
    cases hd : deliver T s tok with
    | error o => rw [hd] at hf; simp at hf
    | ok s1 =>
      rw [hd] at hf
      exact ih (fun t ht => htoks t (List.mem_cons_of_mem _ ht)) s1 _
        (deliver_P C s h tok (htoks tok List.mem_cons_self) s1 hd) hf

/-- the result list of an accepted parse is in `ResP` -/
theorem accepted_result (text : Bytes) (prev : PState) (r : List Node)
    (htoks : ∀ lr, Lex.lex text = some lr → ∀ tok ∈ lr.toks, TokP tok)
    (h : parse T text prev = .accept r) : ResP r := by
  unfold parse at h
  split at h
  · simp at h
  · rename_i lr hl
    unfold run at h
    split at h
    · rename_i o ho
      subst h
      rcases feed_stop_located T lr.toks {} 0 _ ho with h1 | ⟨w, h1⟩ | ⟨tok, _, e, h1 | h1⟩ <;> simp at h1
    · rename_i s' m hfeed
      split at h
      · simp at h
      · unfold finish at h
        split at h
        · simp at h
        · split at h
          · simp at h
          · simp at h
            subst h
            have hsp := feed_P C lr.toks (htoks lr hl) {} 0 ⟨by simp [StackP], C.nil, by intro x hx; simp at hx⟩ s' m hfeed
            exact hsp.2.1

end TokThread
