import SieveModel.Model.Serialize
/-!
# When the serializer (`tosieve`) does not raise
-/
namespace Ser

theorem renderArgs_some_iff (T : Table) (i : Nat) (d : CmdDef) (e : Bool) (l : List Arg) :
    renderArgs T i d e l ≠ none ↔ ∀ a ∈ l, renderArg T i d e a ≠ none := by
  induction l with
  | nil => simp [renderArgs]
  | cons a rest ih =>
    rw [renderArgs]
    constructor
    · intro h x hx
      simp only [List.mem_cons] at hx
      cases ha : renderArg T i d e a with
      | none => rw [ha] at h; simp at h
      | some v =>
        cases hr : renderArgs T i d e rest with
        | none => rw [ha, hr] at h; simp at h
        | some vs =>
          rcases hx with rfl | hx
          · rw [ha]; simp
          · exact ih.mp (by rw [hr]; simp) x hx
    · intro h
      have h1 := h a (by simp)
      have h2 := ih.mpr (fun x hx => h x (by simp [hx]))
      cases ha : renderArg T i d e a with
      | none => exact absurd ha h1
      | some v =>
        cases hr : renderArgs T i d e rest with
        | none => exact absurd hr h2
        | some vs => simp

theorem nodes_some_iff (T : Table) (i : Nat) (l : List Node) :
    nodes T i l ≠ none ↔ ∀ n ∈ l, node T i n ≠ none := by
  induction l with
  | nil => simp [nodes]
  | cons a rest ih =>
    rw [nodes]
    constructor
    · intro h x hx
      simp only [List.mem_cons] at hx
      cases ha : node T i a with
      | none => rw [ha] at h; simp at h
      | some v =>
        cases hr : nodes T i rest with
        | none => rw [ha, hr] at h; simp at h
        | some vs =>
          rcases hx with rfl | hx
          · rw [ha]; simp
          · exact ih.mp (by rw [hr]; simp) x hx
    · intro h
      have h1 := h a (by simp)
      have h2 := ih.mpr (fun x hx => h x (by simp [hx]))
      cases ha : node T i a with
      | none => exact absurd ha h1
      | some v =>
        cases hr : nodes T i rest with
        | none => exact absurd hr h2
        | some vs => simp

theorem testsOut_some_iff (T : Table) (l : List Node) :
    testsOut T l ≠ none ↔ ∀ n ∈ l, node T 0 n ≠ none := by
  induction l with
  | nil => simp [testsOut]
  | cons a rest ih =>
    cases rest with
    | nil => simp [testsOut]
    | cons b r =>
      rw [testsOut]
      constructor
      · intro h x hx
        simp only [List.mem_cons] at hx
        cases ha : node T 0 a with
        | none => rw [ha] at h; simp at h
        | some v =>
          cases hr : testsOut T (b :: r) with
          | none => rw [ha, hr] at h; simp at h
          | some vs =>
            rcases hx with rfl | hx
            · rw [ha]; simp
            · exact ih.mp (by rw [hr]; simp) x (by simpa using hx)
      · intro h
        have h1 := h a (by simp)
        have h2 := ih.mpr (fun x hx => h x (by simp at hx ⊢; exact Or.inr hx))
        cases ha : node T 0 a with
        | none => exact absurd ha h1
        | some v =>
          cases hr : testsOut T (b :: r) with
          | none => exact absurd hr h2
          | some vs => simp

end Ser
