import SieveModel.Lemmas.Safe
/-!
# A generic invariant of the parser machine, threaded through every function once

For predicates `FP` on stack frames and `NP` on finished nodes that are closed under the five ways the
machine builds frames (`Closed`), every state reached from the initial one has all its frames in `FP`
and all its finished top-level commands in `NP`; in particular every node of an accepted result is in `NP`.
-/
namespace Threading
open Machine Args ArgsSafe

structure Closed (T : Table) (FP : Frame → Prop) (NP : Node → Prop) : Prop where
  fresh : ∀ d ∈ T, ∀ a, FP { d := d, attach := a }
  node : ∀ f c, FP f → NP (Frame.toNode f c)
  cna : ∀ (f : Frame) (ld : List Bytes) (t : ArgType) (v : AVal) (add ce : Bool) (st' : CState) (pl : Placement),
    FP f → Consistent t v → (∀ n, v = .test n → NP n) →
    checkNextArg f.d ld f.st t v add ce = .ok (some (st', pl)) → FP { f with st := st' }
  plug : ∀ p a n, FP p → NP n → FP (plug p a n)
  reassign : ∀ f f', FP f → reassign f = some f' → FP f'

variable {T : Table} {FP : Frame → Prop} {NP : Node → Prop}

/-- every frame of the stack is in `FP` and every finished top-level command in `NP` -/
def SP (FP : Frame → Prop) (NP : Node → Prop) (s : PState) : Prop := (∀ f ∈ s.stack, FP f) ∧ (∀ n ∈ s.result, NP n)

def KeepsP (FP : Frame → Prop) (NP : Node → Prop) (r : FnResult) : Prop :=
  match r with
  | .ret _ s' _ => SP FP NP s'
  | _ => True

theorem keepsP_ofCmdErr (rew : Bool) (e : CmdErr) : KeepsP FP NP (ofCmdErr rew e) := by
  cases e <;> trivial

theorem SP.fields {s s' : PState} (h : SP FP NP s) (h1 : s'.stack = s.stack) (h2 : s'.result = s.result) : SP FP NP s' :=
  ⟨by rw [h1]; exact h.1, by rw [h2]; exact h.2⟩

theorem withTop_P (s : PState) (f f' : Frame) (rest : List Frame) (hs : s.stack = f :: rest) (h : SP FP NP s)
    (hf : FP f') : SP FP NP (withTop s f') := by
  unfold withTop
  rw [hs]
  refine ⟨?_, h.2⟩
  intro g hg
  simp only [List.mem_cons] at hg
  rcases hg with rfl | hg
  · exact hf
  · exact h.1 g (by rw [hs]; simp [hg])

theorem getCommand_mem' (T : Table) (ld : List Bytes) (ident : Bytes) (ce : Bool) (d : CmdDef)
    (h : getCommand T ld ident ce = .ok d) : d ∈ T := by
  unfold getCommand at h
  cases hl : T.lookup ident with
  | none => rw [hl] at h; simp at h
  | some d' =>
    rw [hl] at h
    simp only at h
    split at h
    · simp at h
    · simp only [Except.ok.injEq] at h
      subst h
      unfold Table.lookup Table.findKey at hl
      exact List.mem_of_find?_eq_some hl

variable (C : Closed T FP NP)
include C

theorem curCheck_P (s : PState) (h : SP FP NP s) (t : ArgType) (v : AVal) (hc : Consistent t v)
    (hn : ∀ n, v = .test n → NP n) (b : Bool) (s' : PState) (pl : Placement)
    (hcc : curCheck s t v = .ok (b, s', pl)) : SP FP NP s' := by
  unfold curCheck at hcc
  split at hcc
  · simp at hcc
  · rename_i f rest hst
    split at hcc
    · simp at hcc
    · simp at hcc; rw [← hcc.2.1]; exact h
    · rename_i st' pl' hcna
      simp at hcc
      rw [← hcc.2.1]
      exact withTop_P s f _ rest hst h (C.cna f s.loaded t v true true st' pl' (h.1 f (by rw [hst]; simp)) hc hn hcna)

theorem upLoop_P (f : Frame) (rest : List Frame) (hf : FP f) (hr : ∀ g ∈ rest, FP g) :
    ∀ g ∈ (upLoop f rest).1, FP g := by
  induction rest generalizing f with
  | nil => intro g hg; simp [upLoop] at hg
  | cons p r ih =>
    have hp' : FP (plug p f.attach (Frame.toNode f)) := C.plug p _ _ (hr p (by simp)) (C.node f [] hf)
    have hr' : ∀ g ∈ r, FP g := fun g hg => hr g (by simp [hg])
    unfold upLoop
    simp only
    split
    · exact ih _ hp' hr'
    · intro g hg
      simp only [List.mem_cons] at hg
      rcases hg with rfl | hg
      · exact hp'
      · exact hr' g hg

theorem up_P (s s' : PState) (h : SP FP NP s) (hu : up s = .ok s') : SP FP NP s' := by
  unfold up at hu
  split at hu
  · simp at hu
  · rename_i f rest hst
    simp at hu
    rw [← hu]
    have hf : FP f := h.1 f (by rw [hst]; simp)
    have hr : ∀ g ∈ rest, FP g := fun g hg => h.1 g (by rw [hst]; simp [hg])
    refine ⟨upLoop_P C f rest hf hr, ?_⟩
    simp only
    unfold record
    split
    · intro n hn
      simp only [List.mem_append, List.mem_singleton] at hn
      rcases hn with hn | rfl
      · exact h.2 n hn
      · exact C.node f _ hf
    · exact h.2

theorem complLoop_P (ld : List Bytes) (f : Frame) (rest : List Frame) (hf : FP f)
    (hr : ∀ g ∈ rest, FP g) (o : ComplOut) (h : complLoop ld f rest = .ok o) : ∀ g ∈ o.stack, FP g := by
  induction rest generalizing f with
  | nil =>
    simp [complLoop] at h
    subst h
    intro g hg; simp at hg; subst hg; exact hf
  | cons p r ih =>
    have hp' : FP (plug p f.attach (Frame.toNode f)) := C.plug p _ _ (hr p (by simp)) (C.node f [] hf)
    have hr' : ∀ g ∈ r, FP g := fun g hg => hr g (by simp [hg])
    have stop : ∀ (q : Frame), FP q → ∀ g ∈ q :: r, FP g := by
      intro q hq g hg
      simp only [List.mem_cons] at hg
      rcases hg with rfl | hg
      · exact hq
      · exact hr' g hg
    unfold complLoop at h
    simp only at h
    split at h
    · split at h
      · split at h
        · simp at h; subst h; exact stop _ hp'
        · exact ih _ hp' hr' h
      · split at h
        · simp at h
        · simp at h; subst h; exact stop _ hp'
        · rename_i st' pl hcna
          have hp'' : FP { plug p f.attach (Frame.toNode f) with st := st' } :=
            C.cna _ ld .test _ false true st' pl hp' (by simp [Consistent]) (by intro n hn; injection hn with hn; subst hn; exact C.node f [] hf) hcna
          split at h
          · simp at h; subst h; exact stop _ hp''
          · exact ih _ hp'' hr' h
    · exact ih _ hp' hr' h

theorem completion_P (s : PState) (h : SP FP NP s) (ts b : Bool) (s' : PState)
    (hc : completion s ts = .ok (b, s')) : SP FP NP s' := by
  unfold completion at hc
  split at hc
  · simp at hc
  · rename_i f rest hst
    split at hc
    · simp at hc; rw [← hc.2]; exact h
    · split at hc
      · simp at hc; rw [← hc.2]; split
        · exact h.fields rfl rfl
        · exact h
      · split at hc
        · simp at hc
        · rename_i o ho
          simp at hc
          rw [← hc.2]
          refine ⟨?_, h.2⟩
          exact complLoop_P C s.loaded f rest (h.1 f (by rw [hst]; simp)) (fun g hg => h.1 g (by rw [hst]; simp [hg])) o ho

theorem keepsP_complThen (s : PState) (h : SP FP NP s) (ts rew : Bool) : KeepsP FP NP (complThen s ts rew) := by
  unfold complThen
  split
  · exact keepsP_ofCmdErr _ _
  · rename_i b s' hc
    exact completion_P C s h ts b s' hc

theorem popBracket_P (s s1 : PState) (k : TokKind) (h : SP FP NP s) (hp : popBracket s k = some s1) : SP FP NP s1 := by
  unfold popBracket at hp
  split at hp
  · simp at hp
  · split at hp
    · simp at hp; rw [← hp]; exact h.fields rfl rfl
    · simp at hp

theorem keepsP_offer (s : PState) (h : SP FP NP s) (t : ArgType) (v : AVal) (hc : Consistent t v)
    (hn : ∀ n, v = .test n → NP n) : KeepsP FP NP (offer s t v) := by
  unfold offer
  split
  · exact keepsP_ofCmdErr _ _
  · rename_i b s' pl hcc
    exact curCheck_P C s h t v hc hn b s' pl hcc

theorem keepsP_tryReassign (s : PState) (h : SP FP NP s) : KeepsP FP NP (tryReassign s) := by
  unfold tryReassign
  split
  · trivial
  · rename_i f rest hst
    split
    · split
      · exact h
      · rename_i f' hre
        exact withTop_P s f f' rest hst h (C.reassign f f' (h.1 f (by rw [hst]; simp)) hre)
    · exact h

theorem keepsP_thenCompl (r : FnResult) (h : KeepsP FP NP r) : KeepsP FP NP (thenCompl r) := by
  unfold thenCompl
  split
  · rename_i s' rew
    exact keepsP_complThen C s' h false rew
  · exact h

theorem keepsP_argThenCompl (s : PState) (h : SP FP NP s) (k : TokKind) (text : Bytes) :
    KeepsP FP NP (argThenCompl s k text) := by
  unfold argThenCompl
  apply keepsP_thenCompl C
  have hoff : ∀ t v, Consistent t v → (∀ n, v = .test n → NP n) →
      KeepsP FP NP (if (!Utf8.valid text) = true then FnResult.err PErr.decodeError false else offer s t v) := by
    intro t v hc hn; split
    · trivial
    · exact keepsP_offer C s h t v hc hn
  have nt : ∀ (b : Bytes) (n : Node), AVal.str b = .test n → NP n := by intro b n hh; cases hh
  cases k with
  | string => exact hoff _ _ (by simp [Consistent]) (nt _)
  | multiline => exact hoff _ _ (by simp [Consistent]) (nt _)
  | number => exact keepsP_offer C s h _ _ (by simp [Consistent]) (nt _)
  | tag => exact keepsP_offer C s h _ _ (by simp [Consistent]) (nt _)
  | left_bracket => exact h.fields rfl rfl
  | left_cbracket => exact keepsP_tryReassign C s h
  | comma => exact keepsP_tryReassign C s h
  | right_parenthesis => exact keepsP_tryReassign C s h
  | semicolon => exact h
  | right_bracket => exact h
  | left_parenthesis => exact h
  | right_cbracket => exact h
  | hash_comment => exact h
  | bracket_comment => exact h
  | identifier => exact h

theorem keepsP_pushTest (s : PState) (h : SP FP NP s) (text : Bytes) : KeepsP FP NP (pushTest T s text) := by
  unfold pushTest
  split
  · trivial
  · rename_i d hd
    have hdp : d ∈ T := getCommand_mem' T _ _ _ d hd
    have hph : NP (.mk d.name [] [] [] []) := C.node _ [] (C.fresh d hdp .top)
    split
    · trivial
    · split
      · exact keepsP_ofCmdErr _ _
      · rename_i s1 pl hcc
        exact curCheck_P C s h .test _ (by simp [Consistent]) (by intro n hn; injection hn with hn; subst hn; exact hph) _ _ _ hcc
      · rename_i s1 pl hcc
        have h1 := curCheck_P C s h .test _ (by simp [Consistent]) (by intro n hn; injection hn with hn; subst hn; exact hph) _ _ _ hcc
        apply keepsP_complThen C
        refine ⟨?_, h1.2⟩
        intro g hg
        simp only [List.mem_cons] at hg
        rcases hg with rfl | hg
        · exact C.fresh d hdp _
        · exact h1.1 g hg

theorem keepsP_closeParen (s : PState) (h : SP FP NP s) : KeepsP FP NP (closeParen s) := by
  unfold closeParen
  split
  · trivial
  · rename_i s1 h1
    split
    · trivial
    · rename_i s2 h2
      exact up_P C s1 s2 (popBracket_P C s s1 _ h h1) h2

theorem keepsP_argumentsFn (s : PState) (h : SP FP NP s) (k : TokKind) (text : Bytes) :
    KeepsP FP NP (argumentsFn T s k text) := by
  unfold argumentsFn
  split
  · trivial
  · split
    · exact keepsP_pushTest C s h text
    · split
      · exact h.fields rfl rfl
      · exact keepsP_argThenCompl C s h _ text
    · split
      · exact h.fields rfl rfl
      · exact keepsP_argThenCompl C s h _ text
    · split
      · exact keepsP_argThenCompl C s h _ text
      · exact keepsP_closeParen C s h
    · exact keepsP_argThenCompl C s h _ text

theorem keepsP_stringlistFn (s : PState) (h : SP FP NP s) (k : TokKind) (text : Bytes) :
    KeepsP FP NP (stringlistFn s k text) := by
  unfold stringlistFn
  split
  · split
    · trivial
    · exact h.fields rfl rfl
  · exact h.fields rfl rfl
  · split
    · trivial
    · rename_i s1 h1
      have hp := popBracket_P C s s1 _ h h1
      have nt : ∀ (n : Node), AVal.strs s1.curlist = .test n → NP n := by intro n hh; cases hh
      split
      · exact keepsP_ofCmdErr _ _
      · rename_i s2 pl hcc
        exact curCheck_P C s1 hp .stringlist _ (by simp [Consistent]) nt _ _ _ hcc
      · rename_i s2 pl hcc
        have h2 := curCheck_P C s1 hp .stringlist _ (by simp [Consistent]) nt _ _ _ hcc
        exact keepsP_complThen C ⟨s2.result, s2.comments, s2.stack, .arguments, s2.curlist, s2.expected, s2.brackets, s2.loaded⟩
          (h2.fields rfl rfl) true false
  · exact h

theorem keepsP_stateFn (s : PState) (h : SP FP NP s) (k : TokKind) (text : Bytes) :
    KeepsP FP NP (stateFn T s k text) := by
  unfold stateFn
  split
  · exact keepsP_stringlistFn C s h k text
  · exact keepsP_argumentsFn C s h k text

theorem keepsP_startCommand (s : PState) (h : SP FP NP s) (k : TokKind) (text : Bytes) :
    KeepsP FP NP (startCommand T s k text) := by
  unfold startCommand
  split
  · split
    · trivial
    · rename_i s1 h1
      split
      · trivial
      · rename_i s2 h2
        exact (up_P C s1 s2 (popBracket_P C s s1 _ h h1) h2).fields rfl rfl
  · split
    · exact h
    · split
      · trivial
      · rename_i d hd
        have hdp : d ∈ T := getCommand_mem' T _ _ _ d hd
        split
        · trivial
        · split
          · trivial
          · have ha : SP FP NP (announce s d) := by unfold announce; split <;> exact h.fields rfl rfl
            unfold pushCommand
            split
            · refine ⟨?_, ha.2⟩
              intro g hg; simp at hg; subst hg; exact C.fresh d hdp _
            · split
              · trivial
              · refine ⟨?_, ha.2⟩
                intro g hg
                simp only [List.mem_cons] at hg
                rcases hg with rfl | hg
                · exact C.fresh d hdp _
                · exact ha.1 g hg

theorem keepsP_closeCommand (s' : PState) (h : SP FP NP s') (k : TokKind) (rew : Bool) :
    KeepsP FP NP (closeCommand s' k rew) := by
  unfold closeCommand
  split
  · split
    · trivial
    · split
      · exact h.fields rfl rfl
      · exact h
  · split
    · split
      · trivial
      · split
        · exact h
        · split
          · rename_i e _; cases e <;> trivial
          · rename_i s2 hc
            exact completion_P C { s' with cstate := .none } (h.fields rfl rfl) _ _ _ hc
          · rename_i s2 hc
            have h2 := completion_P C { s' with cstate := .none } (h.fields rfl rfl) _ _ _ hc
            split
            · trivial
            · rename_i g rest2 hst2
              simp only
              split
              · trivial
              · rename_i s4 hup
                exact up_P C { s2 with loaded := completeCb g s2.loaded } s4 (h2.fields rfl rfl) hup
    · exact h

theorem keepsP_commandFn (s : PState) (h : SP FP NP s) (k : TokKind) (text : Bytes) :
    KeepsP FP NP (commandFn T s k text) := by
  unfold commandFn
  split
  · exact keepsP_startCommand C s h k text
  · have hg := keepsP_stateFn C s h k text
    split
    · rename_i s' rew heq
      rw [heq] at hg
      exact keepsP_closeCommand C s' hg k rew
    · exact hg

theorem step_P (s : PState) (h : SP FP NP s) (tok : Tok) (s' : PState)
    (hs : step T s tok = .ok s' ∨ step T s tok = .rewind s') : SP FP NP s' := by
  unfold step at hs
  split at hs
  · rcases hs with hs | hs <;> simp at hs
    rw [← hs]; exact h.fields rfl rfl
  · rcases hs with hs | hs <;> simp at hs
    rw [← hs]; exact h
  · unfold stepTok at hs
    split at hs
    · rcases hs with hs | hs <;> simp at hs
    · rename_i s1 hadm
      have h1 : SP FP NP s1 := by
        unfold admitTok at hadm
        split at hadm
        · simp at hadm; subst hadm; exact h
        · split at hadm
          · simp at hadm; subst hadm; exact h.fields rfl rfl
          · simp at hadm
      have hg := keepsP_commandFn C s1 h1 tok.kind tok.text
      unfold ofFn at hs
      split at hs
      · rename_i s2 heq; rw [heq] at hg; rcases hs with hs | hs <;> simp at hs; subst hs; exact hg
      · rename_i s2 heq; rw [heq] at hg; rcases hs with hs | hs <;> simp at hs; subst hs; exact hg
      · rcases hs with hs | hs <;> simp at hs
      · rcases hs with hs | hs <;> simp at hs
      · rcases hs with hs | hs <;> simp at hs

theorem deliver_P (s : PState) (h : SP FP NP s) (tok : Tok) (s' : PState)
    (hd : deliver T s tok = .ok s') : SP FP NP s' := by
  unfold deliver at hd
  cases hst : step T s tok with
  | ok s1 => rw [hst] at hd; simp at hd; subst hd; exact step_P C s h tok s1 (Or.inl hst)
  | reject e r => rw [hst] at hd; simp at hd
  | crash w => rw [hst] at hd; simp at hd
  | rewind s1 =>
    rw [hst] at hd
    simp only at hd
    have h1 := step_P C s h tok s1 (Or.inr hst)
    cases hst2 : step T s1 tok with
    | ok s2 => rw [hst2] at hd; simp at hd; subst hd; exact step_P C s1 h1 tok s2 (Or.inl hst2)
    | reject e r => rw [hst2] at hd; simp at hd
    | crash w => rw [hst2] at hd; simp at hd
    | rewind s2 => rw [hst2] at hd; simp at hd

theorem feed_P (toks : List Tok) (s : PState) (n : Nat) (h : SP FP NP s) (s' : PState) (m : Nat)
    (hf : feed T toks s n = .done s' m) : SP FP NP s' := by
  induction toks generalizing s n with
  | nil => simp [feed] at hf; rw [← hf.1]; exact h
  | cons tok rest ih =>
    unfold feed at hf
    cases hd : deliver T s tok with
    | error o => rw [hd] at hf; simp at hf
    | ok s1 =>
      rw [hd] at hf
      exact ih s1 _ (deliver_P C s h tok s1 hd) hf

/-- **every accepted script can be printed**: `tosieve` of the result never raises -/
theorem accepted_nodes (text : Bytes) (prev : PState) (r : List Node)
    (h : parse T text prev = .accept r) : ∀ n ∈ r, NP n := by
  unfold parse at h
  split at h
  · simp at h
  · rename_i lr hl
    unfold run at h
    split at h
    · rename_i o ho
      subst h
      -- a stop is a rejection, a crash or a hang, never an acceptance
      rcases feed_stop_located T lr.toks {} 0 _ ho with h1 | ⟨w, h1⟩ | ⟨tok, _, e, h1 | h1⟩ <;> simp at h1
    · rename_i s' m hfeed
      split at h
      · simp at h
      · unfold finish at h
        split at h
        · simp at h
        · split at h
          · simp at h
          · simp at h
            subst h
            have hsp := feed_P C lr.toks {} 0 ⟨by intro f hf; simp at hf, by intro n hn; simp at hn⟩ s' m hfeed
            exact hsp.2

end Threading
