import SieveModel.Model.Reader
/-! T-READ: the socket reader's results depend only on `buffer ++ stream`, never on the schedule. -/
namespace Reader

theorem cap_bounds (n : Nat) (sched : List Nat) (hn : 0 < n) : 0 < Net.cap n sched ∧ Net.cap n sched ≤ n := by
  unfold Net.cap
  split
  · omega
  · omega

theorem recv_spec (n : Nat) (net : Net) (chunk : Bytes) (net' : Net) (hn : 0 < n)
    (h : net.recv n = some (chunk, net')) :
    0 < chunk.length ∧ chunk.length ≤ n ∧ chunk ++ net'.stream = net.stream ∧ net'.later = net.later := by
  unfold Net.recv at h
  split at h
  · simp at h
  · rename_i hne
    simp only [Option.some.injEq, Prod.mk.injEq] at h
    obtain ⟨hc, hnet⟩ := h
    subst hc; subst hnet
    have hpos : 0 < net.stream.length := by
      cases hs : net.stream with
      | nil => simp [hs] at hne
      | cons _ _ => simp
    obtain ⟨h1, h2⟩ := cap_bounds n net.sched hn
    refine ⟨?_, ?_, by simp, rfl⟩
    · simp only [List.length_take]; omega
    · simp only [List.length_take]; omega

theorem recv_none (n : Nat) (net : Net) : net.recv n = none ↔ net.stream = [] := by
  unfold Net.recv
  constructor
  · intro h; split at h
    · rename_i he; simpa using he
    · simp at h
  · intro h; simp [h]

/-- characterisation of the block loop: it delivers exactly the next `size` bytes of the stream,
    or fails when the stream is shorter -/
theorem blockLoop_spec (fuel size : Nat) (acc : Bytes) (net : Net) (hf : size ≤ fuel) :
    (size ≤ net.stream.length →
      ∃ net', blockLoop fuel size acc net = .ok (acc ++ net.stream.take size, net') ∧
        net'.stream = net.stream.drop size ∧ net'.later = net.later) ∧
    (net.stream.length < size → blockLoop fuel size acc net = .error .error) := by
  induction fuel generalizing size acc net with
  | zero =>
    have : size = 0 := by omega
    subst this
    constructor
    · intro _; exact ⟨net, by simp [blockLoop], by simp, rfl⟩
    · intro h; omega
  | succ fuel ih =>
    cases size with
    | zero =>
      constructor
      · intro _; exact ⟨net, by simp [blockLoop], by simp, rfl⟩
      · intro h; omega
    | succ size =>
      simp only [blockLoop]
      cases hr : net.recv (size + 1) with
      | none =>
        have hs := (recv_none _ _).mp hr
        constructor
        · intro h; simp [hs] at h
        · intro _; rfl
      | some p =>
        obtain ⟨chunk, net'⟩ := p
        obtain ⟨hclen, hle, hcat, hlater⟩ := recv_spec _ _ _ _ (by omega) hr
        have hrem : size + 1 - chunk.length ≤ fuel := by omega
        obtain ⟨ih1, ih2⟩ := ih (size + 1 - chunk.length) (acc ++ chunk) net' hrem
        have hlen : net.stream.length = chunk.length + net'.stream.length := by
          rw [← hcat]; simp
        simp only
        constructor
        · intro h
          obtain ⟨net'', he, hs, hl⟩ := ih1 (by omega)
          refine ⟨net'', ?_, ?_, by rw [hl, hlater]⟩
          · rw [he, ← hcat, List.take_append, List.take_of_length_le hle, List.append_assoc]
          · rw [hs, ← hcat, List.drop_append, List.drop_of_length_le hle]
            simp
        · intro h
          exact ih2 (by omega)

end Reader

namespace Reader

/-- all bytes still to be consumed: what is buffered, then what the peer has sent -/
def pending (st : RState) : Bytes := st.buf ++ st.net.stream

/-- `__read_block(size)` returns exactly the next `size` pending bytes (however they arrive) or
    raises `Error` when fewer are pending -/
theorem readBlock_spec (size : Nat) (st : RState) :
    (size ≤ (pending st).length →
      ∃ st', readBlock size st = .ok ((pending st).take size, st') ∧ pending st' = (pending st).drop size ∧
        st'.errcode = st.errcode ∧ st'.errmsg = st.errmsg ∧ st'.net.later = st.net.later) ∧
    ((pending st).length < size → readBlock size st = .error .error) := by
  unfold readBlock pending
  simp only [List.length_append]
  by_cases hb : size ≤ st.buf.length
  · have hmin : min size st.buf.length = size := Nat.min_eq_left hb
    simp only [hmin, Nat.sub_self, blockLoop]
    constructor
    · intro _
      refine ⟨{ st with buf := st.buf.drop size }, ?_, ?_, rfl, rfl, rfl⟩
      · rw [List.take_append_of_le_length hb]
      · simp only
        rw [List.drop_append_of_le_length hb]
    · intro h; omega
  · have hb' : st.buf.length < size := Nat.lt_of_not_le hb
    have hmin : min size st.buf.length = st.buf.length := Nat.min_eq_right (Nat.le_of_lt hb')
    simp only [hmin, List.take_length, List.drop_length]
    obtain ⟨h1, h2⟩ := blockLoop_spec (size - st.buf.length) (size - st.buf.length) st.buf st.net (Nat.le_refl _)
    constructor
    · intro h
      obtain ⟨net', he, hs, hl⟩ := h1 (by omega)
      rw [he]
      refine ⟨{ st with buf := [], net := net' }, ?_, ?_, rfl, rfl, hl⟩
      · simp only
        rw [List.take_append, List.take_of_length_le (Nat.le_of_lt hb')]
      · simp only [List.nil_append, hs]
        rw [List.drop_append, List.drop_of_length_le (Nat.le_of_lt hb')]
        simp
    · intro h
      rw [h2 (by omega)]

end Reader

namespace Reader

theorem splitCRLF_append (a b l r : Bytes) (h : splitCRLF a = some (l, r)) :
    splitCRLF (a ++ b) = some (l, r ++ b) := by
  induction a generalizing l r with
  | nil => simp [splitCRLF] at h
  | cons c rest ih =>
    simp only [splitCRLF, List.cons_append] at h ⊢
    by_cases hc : (c == 13 && rest.head? == some 10) = true
    · simp only [hc, if_true, Option.some.injEq, Prod.mk.injEq] at h
      obtain ⟨rfl, rfl⟩ := h
      have hne : rest ≠ [] := by
        intro hn; subst hn; simp at hc
      have h1 : (rest ++ b).head? = some 10 := by
        cases rest with
        | nil => exact absurd rfl hne
        | cons x xs => simp only [Bool.and_eq_true] at hc; simpa using hc.2
      have h2 : (rest ++ b).tail = rest.tail ++ b := by
        cases rest with
        | nil => exact absurd rfl hne
        | cons x xs => simp
      simp only [Bool.and_eq_true] at hc
      simp [hc.1, h1, h2]
    · simp only [hc, Bool.false_eq_true, if_false] at h
      have hc' : (c == 13 && (rest ++ b).head? == some 10) = false ∨ splitCRLF rest = none := by
        cases hs : splitCRLF rest with
        | none => exact Or.inr rfl
        | some p => 
          left
          cases rest with
          | nil => simp [splitCRLF] at hs
          | cons x xs => simpa using hc
      cases hs : splitCRLF rest with
      | none => simp [hs] at h
      | some p =>
        obtain ⟨a', b'⟩ := p
        simp only [hs, Option.some.injEq, Prod.mk.injEq] at h
        obtain ⟨rfl, rfl⟩ := h
        rcases hc' with hc' | hc'
        · rw [if_neg (by rw [hc']; simp), ih a' b' hs]
        · simp [hs] at hc'

end Reader

namespace Reader

/-- `__read_line`'s loop returns the bytes before the first CRLF of the pending bytes and leaves
    what follows it, whatever the segmentation; no CRLF pending ⇒ `Error` -/
theorem rawLine_spec (fuel : Nat) (st : RState) (hf : st.net.stream.length < fuel) :
    (∀ l r, splitCRLF (pending st) = some (l, r) →
      ∃ st', rawLine fuel st = .ok (l, st') ∧ pending st' = r ∧
        st'.errcode = st.errcode ∧ st'.errmsg = st.errmsg ∧ st'.net.later = st.net.later) ∧
    (splitCRLF (pending st) = none → rawLine fuel st = .error .error) := by
  induction fuel generalizing st with
  | zero => omega
  | succ fuel ih =>
    simp only [rawLine]
    cases hb : splitCRLF st.buf with
    | some p =>
      obtain ⟨l0, r0⟩ := p
      have happ := splitCRLF_append st.buf st.net.stream l0 r0 hb
      constructor
      · intro l r h
        unfold pending at h
        rw [happ] at h
        simp only [Option.some.injEq, Prod.mk.injEq] at h
        obtain ⟨rfl, rfl⟩ := h
        exact ⟨{ st with buf := r0 }, rfl, rfl, rfl, rfl, rfl⟩
      · intro h
        unfold pending at h
        rw [happ] at h
        simp at h
    | none =>
      simp only
      cases hr : st.net.recv readSize with
      | none =>
        have hs := (recv_none _ _).mp hr
        constructor
        · intro l r h
          unfold pending at h
          rw [hs, List.append_nil, hb] at h
          simp at h
        · intro _; rfl
      | some p =>
        obtain ⟨chunk, net'⟩ := p
        obtain ⟨hclen, _, hcat, hlater⟩ := recv_spec _ _ _ _ (by decide) hr
        have hlen : st.net.stream.length = chunk.length + net'.stream.length := by
          rw [← hcat]; simp
        have hpend : pending { st with buf := st.buf ++ chunk, net := net' } = pending st := by
          simp only [pending, List.append_assoc, hcat]
        obtain ⟨ih1, ih2⟩ := ih { st with buf := st.buf ++ chunk, net := net' } (by simp only; omega)
        rw [hpend] at ih1 ih2
        constructor
        · intro l r h
          obtain ⟨st', he, hp, h1, h2, h3⟩ := ih1 l r h
          exact ⟨st', he, hp, h1, h2, by rw [h3]; exact hlater⟩
        · intro h
          exact ih2 h

end Reader

namespace Reader

/-- two reader states that differ only in how the pending bytes are split between buffer and
    socket (and in the recv schedule) -/
def Same (a b : RState) : Prop :=
  pending a = pending b ∧ a.errcode = b.errcode ∧ a.errmsg = b.errmsg ∧ a.net.later = b.net.later

theorem Same.refl (a : RState) : Same a a := ⟨rfl, rfl, rfl, rfl⟩

/-- results that agree on everything observable: value or error class, and the state up to `Same` -/
def RelRes {α : Type} (x y : Except RErr (α × RState)) : Prop :=
  match x, y with
  | .error e1, .error e2 => e1 = e2
  | .ok (a, s1), .ok (b, s2) => a = b ∧ Same s1 s2
  | _, _ => False

theorem readBlock_congr (n : Nat) (a b : RState) (h : Same a b) :
    RelRes (readBlock n a) (readBlock n b) := by
  obtain ⟨hp, hc, hm, hl⟩ := h
  obtain ⟨a1, a2⟩ := readBlock_spec n a
  obtain ⟨b1, b2⟩ := readBlock_spec n b
  by_cases hle : n ≤ (pending a).length
  · obtain ⟨sa, ha, hpa, hca, hma, hla⟩ := a1 hle
    obtain ⟨sb, hb, hpb, hcb, hmb, hlb⟩ := b1 (by rw [← hp]; exact hle)
    rw [ha, hb]
    refine ⟨by rw [hp], ?_, ?_, ?_, ?_⟩
    · rw [hpa, hpb, hp]
    · rw [hca, hcb, hc]
    · rw [hma, hmb, hm]
    · rw [hla, hlb, hl]
  · have hlt : (pending a).length < n := Nat.lt_of_not_le hle
    rw [a2 hlt, b2 (by rw [← hp]; exact hlt)]
    exact rfl

theorem rawLine_congr (fa fb : Nat) (a b : RState) (h : Same a b)
    (hfa : a.net.stream.length < fa) (hfb : b.net.stream.length < fb) :
    RelRes (rawLine fa a) (rawLine fb b) := by
  obtain ⟨hp, hc, hm, hl⟩ := h
  obtain ⟨a1, a2⟩ := rawLine_spec fa a hfa
  obtain ⟨b1, b2⟩ := rawLine_spec fb b hfb
  cases hs : splitCRLF (pending a) with
  | none =>
    rw [a2 hs, b2 (by rw [← hp]; exact hs)]
    exact rfl
  | some p =>
    obtain ⟨l, r⟩ := p
    obtain ⟨sa, ha, hpa, hca, hma, hla⟩ := a1 l r hs
    obtain ⟨sb, hb, hpb, hcb, hmb, hlb⟩ := b1 l r (by rw [← hp]; exact hs)
    rw [ha, hb]
    exact ⟨rfl, by rw [hpa, hpb], by rw [hca, hcb, hc], by rw [hma, hmb, hm], by rw [hla, hlb, hl]⟩

end Reader

namespace Reader

def RelSt (x y : Except RErr RState) : Prop :=
  match x, y with
  | .error e1, .error e2 => e1 = e2
  | .ok s1, .ok s2 => Same s1 s2
  | _, _ => False

theorem Same.with_err (a b : RState) (h : Same a b) (c m : Bytes) :
    Same { a with errcode := c, errmsg := m } { b with errcode := c, errmsg := m } := by
  obtain ⟨hp, _, _, hl⟩ := h
  exact ⟨hp, rfl, rfl, hl⟩

theorem parseError_congr (text : Option Bytes) (a b : RState) (h : Same a b) :
    RelSt (parseError text a) (parseError text b) := by
  unfold parseError
  cases text with
  | none => exact Same.with_err a b h [] []
  | some t =>
    simp only
    cases hs : sizeMatch (splitCode t).2 with
    | some n =>
      simp only
      have hr := readBlock_congr (n + 2) _ _ (Same.with_err a b h (splitCode t).1 [])
      revert hr
      cases readBlock (n + 2) { a with errcode := (splitCode t).1, errmsg := [] } with
      | error e1 =>
        cases readBlock (n + 2) { b with errcode := (splitCode t).1, errmsg := [] } with
        | error e2 => intro hr; exact hr
        | ok p2 => intro hr; exact hr.elim
      | ok p1 =>
        cases readBlock (n + 2) { b with errcode := (splitCode t).1, errmsg := [] } with
        | error e2 => intro hr; exact hr.elim
        | ok p2 =>
          obtain ⟨b1, s1⟩ := p1
          obtain ⟨b2, s2⟩ := p2
          intro hr
          obtain ⟨hb, hp, hc, _, hl⟩ := hr
          subst hb
          exact ⟨hp, hc, rfl, hl⟩
    | none =>
      simp only
      cases textMatch (splitCode t).2 with
      | some body => exact Same.with_err a b h _ _
      | none =>
        simp only
        split
        · exact Same.with_err a b h _ _
        · exact rfl

theorem readLine_congr (a b : RState) (h : Same a b) : RelRes (readLine a) (readLine b) := by
  unfold readLine
  have hr := rawLine_congr (a.net.stream.length + 1) (b.net.stream.length + 1) a b h (by omega) (by omega)
  revert hr
  cases rawLine (a.net.stream.length + 1) a with
  | error e1 =>
    cases rawLine (b.net.stream.length + 1) b with
    | error e2 => intro hr; exact hr
    | ok p2 => intro hr; exact hr.elim
  | ok p1 =>
    cases rawLine (b.net.stream.length + 1) b with
    | error e2 => intro hr; exact hr.elim
    | ok p2 =>
      obtain ⟨l1, s1⟩ := p1
      obtain ⟨l2, s2⟩ := p2
      intro hr
      obtain ⟨hl, hs⟩ := hr
      subst hl
      simp only
      split
      · exact ⟨rfl, hs⟩
      · cases sizeMatch l1 with
        | some n => exact ⟨rfl, hs⟩
        | none =>
          simp only
          cases hm : respMatch l1 with
          | none => exact ⟨rfl, hs⟩
          | some p =>
            obtain ⟨status, d⟩ := p
            cases status with
            | BYE => exact rfl
            | NO =>
              simp only
              have hp := parseError_congr d s1 s2 hs
              revert hp
              cases parseError d s1 with
              | error e1 =>
                cases parseError d s2 with
                | error e2 => intro hp; exact hp
                | ok _ => intro hp; exact hp.elim
              | ok t1 =>
                cases parseError d s2 with
                | error _ => intro hp; exact hp.elim
                | ok t2 => intro hp; exact ⟨rfl, hp⟩
            | OK =>
              simp only
              cases d.bind trailingSize with
              | none => exact ⟨rfl, hs⟩
              | some n =>
                simp only
                have hb := readBlock_congr (n + 2) s1 s2 hs
                revert hb
                cases readBlock (n + 2) s1 with
                | error e1 =>
                  cases readBlock (n + 2) s2 with
                  | error e2 => intro hb; exact hb
                  | ok _ => intro hb; exact hb.elim
                | ok q1 =>
                  cases readBlock (n + 2) s2 with
                  | error _ => intro hb; exact hb.elim
                  | ok q2 =>
                    obtain ⟨_, t1⟩ := q1
                    obtain ⟨_, t2⟩ := q2
                    intro hb; exact ⟨rfl, hb.2⟩

end Reader

namespace Reader

theorem respLoop_congr (nbl : Option Nat) (fuel : Nat) (resp : Bytes) (cpt : Nat) (a b : RState)
    (h : Same a b) : RelRes (respLoop nbl fuel resp cpt a) (respLoop nbl fuel resp cpt b) := by
  induction fuel generalizing resp cpt a b with
  | zero => exact rfl
  | succ fuel ih =>
    simp only [respLoop]
    have hr := readLine_congr a b h
    revert hr
    cases readLine a with
    | error e1 =>
      cases readLine b with
      | error e2 => intro hr; exact hr
      | ok _ => intro hr; exact hr.elim
    | ok p1 =>
      cases readLine b with
      | error _ => intro hr; exact hr.elim
      | ok p2 =>
        obtain ⟨ev1, s1⟩ := p1
        obtain ⟨ev2, s2⟩ := p2
        intro hr
        obtain ⟨hev, hs⟩ := hr
        subst hev
        cases ev1 with
        | response code data => exact ⟨rfl, hs⟩
        | line l =>
          simp only
          split
          · exact ih resp cpt s1 s2 hs
          · split
            · exact ⟨rfl, hs⟩
            · exact ih _ _ s1 s2 hs
        | literal n =>
          simp only
          have hb := readBlock_congr n s1 s2 hs
          revert hb
          cases readBlock n s1 with
          | error e1 =>
            cases readBlock n s2 with
            | error e2 => intro hb; exact hb
            | ok _ => intro hb; exact hb.elim
          | ok q1 =>
            cases readBlock n s2 with
            | error _ => intro hb; exact hb.elim
            | ok q2 =>
              obtain ⟨b1, t1⟩ := q1
              obtain ⟨b2, t2⟩ := q2
              intro hb
              obtain ⟨hbb, ht⟩ := hb
              subst hbb
              simp only
              split
              · exact ih _ _ t1 t2 ht
              · have hl := readLine_congr t1 t2 ht
                revert hl
                cases readLine t1 with
                | error e1 =>
                  cases readLine t2 with
                  | error e2 => intro hl; exact hl
                  | ok _ => intro hl; exact hl.elim
                | ok r1 =>
                  cases readLine t2 with
                  | error _ => intro hl; exact hl.elim
                  | ok r2 =>
                    obtain ⟨e1, u1⟩ := r1
                    obtain ⟨e2, u2⟩ := r2
                    intro hl
                    obtain ⟨he, hu⟩ := hl
                    subst he
                    cases e1 with
                    | line l => exact ih _ _ u1 u2 hu
                    | literal _ => exact rfl
                    | response _ _ => exact rfl

theorem pending_length (a b : RState) (h : Same a b) :
    a.buf.length + a.net.stream.length = b.buf.length + b.net.stream.length := by
  have := congrArg List.length h.1
  simpa [pending] using this

/-- T-READ: a whole reply is read identically from any two states with the same pending bytes -/
theorem readResponse_congr (nbl : Option Nat) (a b : RState) (h : Same a b) :
    RelRes (readResponse nbl a) (readResponse nbl b) := by
  unfold readResponse
  rw [pending_length a b h]
  exact respLoop_congr nbl _ [] 0 a b h

end Reader
