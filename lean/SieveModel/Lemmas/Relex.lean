import SieveModel.Lemmas.Lex
/-!
# Reading a token again

A token the lexer produced is read as the same token — same kind, same length — when it stands in front of other text,
provided that text begins with a byte that cannot continue it: anything for punctuation and quoted strings, a byte that
is neither a word byte nor `:` for identifiers, tags and numbers, a line feed (or the end) for a multi-line block.
From that: a byte string that is such tokens woven with white space (`SWeave`) lexes without error to exactly those
tokens (`lex_of_sweave`) — the converse of `Lex.lex_weave`.
-/
namespace Lex

/-- a byte that ends an identifier, a tag or a number and does not start a `text:` block with what precedes -/
def sepOK (c : UInt8) : Bool := !B.isWord c && c != 58

/-- nothing, or a separator byte first -/
def HeadSep (rest : Bytes) : Prop := ∀ c r, rest = c :: r → sepOK c = true

/-- nothing, or a line feed first -/
def HeadLF (rest : Bytes) : Prop := ∀ c r, rest = c :: r → c = 10

/-- what may follow a token of kind `k` without changing how it is read -/
def Sep (k : TokKind) (rest : Bytes) : Prop :=
  match k with
  | .identifier | .tag | .number => HeadSep rest
  | .multiline | .hash_comment => HeadLF rest
  | _ => True

theorem spanLen_stable (p : UInt8 → Bool) (t rest : Bytes) (hr : ∀ c r, rest = c :: r → p c = false) :
    spanLen p (t.take (spanLen p t) ++ rest) = spanLen p t := by
  induction t with
  | nil =>
    cases rest with
    | nil => simp [spanLen]
    | cons c r => simp [spanLen, hr c r rfl]
  | cons x xs ih =>
    by_cases hx : p x = true
    · simp only [spanLen, hx, if_true, List.take_succ_cons, List.cons_append]
      rw [ih]
    · simp only [spanLen, hx]
      cases rest with
      | nil => simp [spanLen]
      | cons c r => simp [spanLen, hr c r rfl]

theorem stringEnd_stable (t : Bytes) (n : Nat) (h : stringEnd t = some n) (rest : Bytes) :
    stringEnd (t.take n ++ rest) = some n := by
  fun_induction stringEnd t generalizing n with
  | case1 => simp at h
  | case2 => simp at h; subst h; simp [stringEnd]
  | case3 c rest' hc => simp at h
  | case4 c rest' hc ih =>
    simp only [Option.map_eq_some_iff] at h
    obtain ⟨m, hm, rfl⟩ := h
    have := ih m hm
    simp only [List.take_succ_cons, List.cons_append]
    rw [stringEnd]
    · simp [hc, this]
  | case5 => simp at h
  | case6 x rest' h1 h2 h3 ih =>
    simp only [Option.map_eq_some_iff] at h
    obtain ⟨m, hm, rfl⟩ := h
    have := ih m hm
    have hx34 : x ≠ 34 := by intro hx; subst hx; exact h1 rfl
    have hx92 : x ≠ 92 := by
      intro hx
      cases rest' with
      | nil => exact h3 hx rfl
      | cons c r => exact h2 c r hx rfl
    simp only [List.take_succ_cons, List.cons_append]
    rw [stringEnd.eq_def]
    split
    · simp_all
    · simp_all
    · simp_all
    · simp_all
    · simp_all

theorem closeComment_stable (t : Bytes) (n : Nat) (h : closeComment t = some n) (rest : Bytes) :
    closeComment (t.take n ++ rest) = some n := by
  fun_induction closeComment t generalizing n with
  | case1 tl => simp at h; subst h; simp [closeComment]
  | case2 x rest' hno ih =>
    simp only [Option.map_eq_some_iff] at h
    obtain ⟨m, hm, rfl⟩ := h
    have ihm := ih m hm
    simp only [List.take_succ_cons, List.cons_append]
    rw [closeComment.eq_def]
    split
    · rename_i tl heq
      simp only [List.cons.injEq] at heq
      obtain ⟨rfl, heq2⟩ := heq
      -- the original did not start with `*/`: the byte after `*` is the same here (m ≥ 1)
      exfalso
      cases rest' with
      | nil => simp [closeComment] at hm
      | cons y ys =>
        cases m with
        | zero =>
          have := closeComment_le _ _ hm
          have hpos : 0 < 0 := by
            -- closeComment returns at least 2
            cases hy : closeComment (y :: ys) with
            | none => rw [hy] at hm; simp at hm
            | some k =>
              rw [hy] at hm
              injection hm with hm
              subst hm
              unfold closeComment at hy
              split at hy
              · simp at hy
              · simp only [Option.map_eq_some_iff] at hy; obtain ⟨_, _, h0⟩ := hy; omega
              · simp at hy
          omega
        | succ m =>
          simp only [List.take_succ_cons, List.cons_append, List.cons.injEq] at heq2
          exact hno ys rfl (by rw [heq2.1])
    · rename_i heq
      simp only [List.cons.injEq] at heq
      obtain ⟨rfl, rfl⟩ := heq
      simp [ihm]
    · rename_i heq; simp at heq
  | case3 => simp at h

theorem multilineEnd_stable (u : Bytes) (acc n : Nat) (h : multilineEnd u acc = some n) (rest : Bytes) (hr : HeadLF rest) :
    multilineEnd (u.take (n - acc) ++ rest) acc = some n := by
  fun_induction multilineEnd u acc generalizing n with
  | case1 a acc ha =>
    simp at h; subst h
    have : acc + 2 - acc = 2 := by omega
    rw [this]
    cases rest with
    | nil => simp [multilineEnd, ha]
    | cons c r => have := hr c r rfl; subst this; simp [multilineEnd, ha]
  | case2 a acc ha tl =>
    simp at h; subst h
    have : acc + 2 - acc = 2 := by omega
    rw [this]
    cases rest with
    | nil => simp [multilineEnd, ha]
    | cons c r => have := hr c r rfl; subst this; simp [multilineEnd, ha]
  | case3 a acc ha =>
    simp at h; subst h
    have : acc + 3 - acc = 3 := by omega
    rw [this]
    cases rest with
    | nil => simp [multilineEnd, ha]
    | cons c r => have := hr c r rfl; subst this; simp [multilineEnd, ha]
  | case4 a acc ha tl =>
    simp at h; subst h
    have : acc + 3 - acc = 3 := by omega
    rw [this]
    cases rest with
    | nil => simp [multilineEnd, ha]
    | cons c r => have := hr c r rfl; subst this; simp [multilineEnd, ha]
  | case5 a rest' acc ha h1 h2 h3 h4 ih =>
    have hb := multilineEnd_bounds _ _ _ h
    obtain ⟨d, rfl⟩ : ∃ d, n = acc + 3 + d := ⟨n - acc - 3, by omega⟩
    have ih' := ih _ h
    have e1 : acc + 3 + d - (acc + 1) = (d + 1) + 1 := by omega
    have e2 : acc + 3 + d - acc = (d + 1) + 1 + 1 := by omega
    rw [e1] at ih'
    rw [e2]
    simp only [List.take_succ_cons, List.cons_append] at ih' ⊢
    cases rest' with
    | nil => exact absurd rfl h1
    | cons r0 tl =>
      simp only [List.take_succ_cons, List.cons_append] at ih' ⊢
      unfold multilineEnd
      simp only [ha, if_true]
      split
      · rename_i heq; simp at heq
      · rename_i tail heq
        simp only [List.cons.injEq] at heq
        exact absurd (by rw [heq.1]) (h2 tl)
      · rename_i heq
        simp only [List.cons.injEq, List.append_eq_nil_iff] at heq
        obtain ⟨rfl, h5, rfl⟩ := heq
        cases d with
        | zero => rfl
        | succ d =>
          cases tl with
          | nil => exact absurd rfl h3
          | cons y tl => simp at h5
      · rename_i tail heq
        simp only [List.cons.injEq] at heq
        obtain ⟨rfl, h5⟩ := heq
        cases d with
        | zero => rfl
        | succ d =>
          cases tl with
          | nil => exact absurd rfl h3
          | cons y tl =>
            simp only [List.take_succ_cons, List.cons_append, List.cons.injEq] at h5
            exact absurd (by rw [h5.1]) (h4 tl)
      · exact ih'
  | case6 a rest' acc ha ih =>
    have hb := multilineEnd_bounds _ _ _ h
    obtain ⟨d, rfl⟩ : ∃ d, n = acc + 3 + d := ⟨n - acc - 3, by omega⟩
    have ih' := ih _ h
    have e1 : acc + 3 + d - (acc + 1) = (d + 1) + 1 := by omega
    have e2 : acc + 3 + d - acc = (d + 1) + 1 + 1 := by omega
    rw [e1] at ih'
    rw [e2]
    simp only [List.take_succ_cons, List.cons_append] at ih' ⊢
    unfold multilineEnd
    simp only [ha]
    exact ih'
  | case7 x b rest' acc hb ih =>
    have hbd := multilineEnd_bounds _ _ _ h
    obtain ⟨d, rfl⟩ : ∃ d, n = acc + 3 + d := ⟨n - acc - 3, by omega⟩
    have ih' := ih _ h
    have e1 : acc + 3 + d - (acc + 1) = (d + 1) + 1 := by omega
    have e2 : acc + 3 + d - acc = (d + 1) + 1 + 1 := by omega
    rw [e1] at ih'
    rw [e2]
    simp only [List.take_succ_cons, List.cons_append] at ih' ⊢
    unfold multilineEnd
    split
    · rename_i heq
      simp only [List.cons.injEq] at heq
      exact absurd heq.2.1 (fun hh => hb hh)
    · rename_i heq
      simp only [List.cons.injEq] at heq
      obtain ⟨_, rfl, rfl⟩ := heq
      exact ih'
    · rename_i _ hno2
      exact (hno2 _ _ _ rfl).elim
  | case8 => simp at h

theorem isText_iff (t : Bytes) : isText t = true ↔ ∃ r, t = 116 :: 101 :: 120 :: 116 :: 58 :: r := by
  unfold isText
  split
  · simp
  · rename_i hno
    simp only [Bool.false_eq_true, false_iff, not_exists]
    intro r hr
    exact hno r hr

theorem sepOK_not_word (c : UInt8) (h : sepOK c = true) : B.isWord c = false := by
  simp [sepOK] at h; simp [h.1]

theorem sepOK_not_colon (c : UInt8) (h : sepOK c = true) : c ≠ 58 := by
  simp [sepOK] at h; exact h.2

/-- word bytes followed by a separator never begin with `text:` -/
theorem isText_word_sep (w rest : Bytes) (hw : ∀ x ∈ w, B.isWord x = true) (hne : w ≠ []) (hr : HeadSep rest) :
    isText (w ++ rest) = false := by
  cases hc : isText (w ++ rest) with
  | false => rfl
  | true =>
    exfalso
    obtain ⟨r, hr'⟩ := (isText_iff _).mp hc
    rcases w with _ | ⟨a, _ | ⟨b, _ | ⟨c, _ | ⟨d, _ | ⟨e, w⟩⟩⟩⟩⟩
    · exact hne rfl
    all_goals (rcases rest with _ | ⟨x, rest⟩)
    all_goals (simp only [List.cons_append, List.nil_append, List.cons.injEq, List.append_nil] at hr')
    · simp at hr'
    · have := hr x rest rfl; rw [hr'.2.1] at this; exact absurd this (by decide)
    · simp at hr'
    · have := hr x rest rfl; rw [hr'.2.2.1] at this; exact absurd this (by decide)
    · simp at hr'
    · have := hr x rest rfl; rw [hr'.2.2.2.1] at this; exact absurd this (by decide)
    · simp at hr'
    · have := hr x rest rfl; rw [hr'.2.2.2.2.1] at this; exact absurd this (by decide)
    · have := hw e (by simp); rw [hr'.2.2.2.2.1] at this; exact absurd this (by decide)
    · have := hw e (by simp); rw [hr'.2.2.2.2.1] at this; exact absurd this (by decide)

/-- the size suffixes of a number -/
def isSuffix (s : UInt8) : Bool := s == 75 || s == 77 || s == 71 || s == 107 || s == 109 || s == 103

theorem isSuffix_word (s : UInt8) (h : isSuffix s = true) : B.isWord s = true ∧ B.isDigit s = false := by
  simp only [isSuffix, Bool.or_eq_true, beq_iff_eq] at h
  rcases h with ((((rfl | rfl) | rfl) | rfl) | rfl) | rfl <;> decide

theorem not_digit_of_not_word (x : UInt8) (h : B.isWord x = false) : B.isDigit x = false := by
  simp only [B.isWord, Bool.or_eq_false_iff] at h; exact h.2

theorem take_succ_of_drop (l : Bytes) (m : Nat) (s : UInt8) (tail : Bytes) (h : l.drop m = s :: tail) :
    l.take (m + 1) = l.take m ++ [s] := by
  induction l generalizing m with
  | nil => simp at h
  | cons x xs ih =>
    cases m with
    | zero => simp at h; simp [h.1]
    | succ m => simp at h; simp [ih m h]

theorem drop_take_append (l rest : Bytes) (m : Nat) (hm : m ≤ l.length) : (l.take m ++ rest).drop m = rest := by
  have : (l.take m).length = m := by simp [hm]
  exact List.drop_left' this

theorem take_one_add (c : UInt8) (l : Bytes) (m : Nat) : (c :: l).take (1 + m) = c :: l.take m := by
  rw [Nat.add_comm]; rfl

theorem take_add_one' (c : UInt8) (l : Bytes) (m : Nat) : (c :: l).take (m + 1) = c :: l.take m := rfl

/-- **a token is read again as the same token** in front of any text that begins with a separator for its kind -/
theorem one_stable (t : Bytes) (k : TokKind) (n : Nat) (h : one t = some (k, n))
    (rest : Bytes) (hs : Sep k rest) : one (t.take n ++ rest) = some (k, n) := by
  unfold one at h
  split at h
  · simp at h
  · rename_i c rest0
    split at h
    · rename_i k' hk'
      simp only [Option.some.injEq, Prod.mk.injEq] at h
      obtain ⟨rfl, rfl⟩ := h
      simp [one, hk']
    · rename_i hsing
      split at h
      · rename_i hc
        simp only [Option.some.injEq, Prod.mk.injEq] at h
        obtain ⟨rfl, rfl⟩ := h
        rw [take_one_add]
        simp only [List.cons_append]
        unfold one
        simp only [hsing, hc, if_true]
        rw [spanLen_stable]
        intro x r hx
        have := hs x r hx
        subst this
        rfl
      · rename_i hc35
        split at h
        · -- '/'
          rename_i hc47
          split at h
          · rename_i r2
            simp only [Option.map_eq_some_iff] at h
            obtain ⟨m, hm, h2⟩ := h
            simp only [Prod.mk.injEq] at h2
            obtain ⟨rfl, rfl⟩ := h2
            have e : (c :: 42 :: r2).take (m + 2) = c :: 42 :: r2.take m := rfl
            rw [e]
            simp only [List.cons_append]
            unfold one
            simp only [hsing, hc35, hc47, if_true, closeComment_stable _ _ hm]
            simp
          · simp at h
        · rename_i hc47
          split at h
          · -- string
            rename_i hc34
            simp only [Option.map_eq_some_iff] at h
            obtain ⟨m, hm, h2⟩ := h
            simp only [Prod.mk.injEq] at h2
            obtain ⟨rfl, rfl⟩ := h2
            rw [take_add_one']
            simp only [List.cons_append]
            unfold one
            simp only [hsing, hc35, hc47, hc34, if_true, stringEnd_stable _ _ hm]
            simp
          · rename_i hc34
            split at h
            · -- identifier or multi-line block
              rename_i halpha
              have hwordc : B.isWord c = true := by simp [B.isWord, halpha]
              have hidw : ∀ x ∈ (c :: rest0).take (1 + spanLen B.isWord rest0), B.isWord x = true := by
                rw [take_one_add]
                intro x hx
                simp only [List.mem_cons] at hx
                rcases hx with rfl | hx
                · exact hwordc
                · exact take_spanLen_all _ _ x hx
              split at h
              · rename_i htext
                split at h
                · rename_i m hm
                  simp only [Option.some.injEq, Prod.mk.injEq] at h
                  obtain ⟨rfl, rfl⟩ := h
                  obtain ⟨r, hr⟩ := (isText_iff _).mp htext
                  simp only [List.cons.injEq] at hr
                  obtain ⟨rfl, rfl⟩ := hr
                  have hm' : multilineEnd r 5 = some m := by simpa using hm
                  have hb := multilineEnd_bounds _ _ _ hm'
                  obtain ⟨j, rfl⟩ : ∃ j, m = j + 5 := ⟨m - 5, by omega⟩
                  have hst := multilineEnd_stable r 5 (j + 5) hm' rest hs
                  have e5 : j + 5 - 5 = j := by omega
                  rw [e5] at hst
                  show one (116 :: 101 :: 120 :: 116 :: 58 :: (List.take j r ++ rest)) = _
                  unfold one
                  simp [single, B.isAlpha_, B.isLower, B.isUpper, isText, hst]
                · rename_i hm
                  simp only [Option.some.injEq, Prod.mk.injEq] at h
                  obtain ⟨rfl, rfl⟩ := h
                  have hf := isText_word_sep _ rest hidw (by rw [take_one_add]; simp) hs
                  rw [take_one_add] at hf ⊢
                  simp only [List.cons_append] at hf ⊢
                  unfold one
                  simp only [hsing, hc35, hc47, hc34, halpha, hf, if_true]
                  rw [spanLen_stable]
                  · simp
                  · intro x r hx; exact sepOK_not_word x (hs x r hx)
              · rename_i htext
                simp only [Option.some.injEq, Prod.mk.injEq] at h
                obtain ⟨rfl, rfl⟩ := h
                have hf := isText_word_sep _ rest hidw (by rw [take_one_add]; simp) hs
                rw [take_one_add] at hf ⊢
                simp only [List.cons_append] at hf ⊢
                unfold one
                simp only [hsing, hc35, hc47, hc34, halpha, hf, if_true]
                rw [spanLen_stable]
                · simp
                · intro x r hx; exact sepOK_not_word x (hs x r hx)
            · rename_i halpha
              split at h
              · -- tag
                rename_i hc58
                split at h
                · rename_i d r2
                  split at h
                  · rename_i hd
                    simp only [Option.some.injEq, Prod.mk.injEq] at h
                    obtain ⟨rfl, rfl⟩ := h
                    have e : (c :: d :: r2).take (2 + spanLen B.isWord r2) = c :: d :: r2.take (spanLen B.isWord r2) := by
                      rw [Nat.add_comm]; rfl
                    rw [e]
                    simp only [List.cons_append]
                    unfold one
                    simp only [hsing, hc35, hc47, hc34, halpha, hc58, hd, if_true]
                    rw [spanLen_stable]
                    · simp
                    · intro x r hx; exact sepOK_not_word x (hs x r hx)
                  · simp at h
                · simp at h
              · rename_i hc58
                split at h
                · -- number
                  rename_i hdig
                  dsimp only at h
                  have hle := spanLen_le B.isDigit rest0
                  split at h
                  · rename_i s tl heq
                    split at h
                    · rename_i hsuf
                      simp only [Option.some.injEq, Prod.mk.injEq] at h
                      obtain ⟨rfl, rfl⟩ := h
                      have hsw := isSuffix_word s hsuf
                      have e : (c :: rest0).take (spanLen B.isDigit rest0 + 2) =
                          c :: (rest0.take (spanLen B.isDigit rest0) ++ [s]) := by
                        rw [← take_succ_of_drop _ _ _ _ heq]; rfl
                      rw [e]
                      simp only [List.cons_append, List.append_assoc, List.nil_append]
                      have hsp : spanLen B.isDigit (rest0.take (spanLen B.isDigit rest0) ++ s :: rest) = spanLen B.isDigit rest0 :=
                        spanLen_stable _ _ _ (by intro x r hx; simp only [List.cons.injEq] at hx; rw [← hx.1]; exact hsw.2)
                      unfold one
                      simp only [hsing, hc35, hc47, hc34, halpha, hc58, hdig, if_true, hsp, drop_take_append _ _ _ hle]
                      simp [hsuf]
                    · rename_i hsuf
                      simp only [Option.some.injEq, Prod.mk.injEq] at h
                      obtain ⟨rfl, rfl⟩ := h
                      rw [take_add_one']
                      simp only [List.cons_append]
                      have hsp : spanLen B.isDigit (rest0.take (spanLen B.isDigit rest0) ++ rest) = spanLen B.isDigit rest0 :=
                        spanLen_stable _ _ _ (by intro x r hx; exact not_digit_of_not_word x (sepOK_not_word x (hs x r hx)))
                      unfold one
                      simp only [hsing, hc35, hc47, hc34, halpha, hc58, hdig, if_true, hsp, drop_take_append _ _ _ hle]
                      cases rest with
                      | nil => rfl
                      | cons x r =>
                        have hx := sepOK_not_word x (hs x r rfl)
                        have : isSuffix x = false := by
                          cases hsx : isSuffix x with
                          | false => rfl
                          | true => rw [(isSuffix_word x hsx).1] at hx; simp at hx
                        simp only [isSuffix] at this
                        simp [this]
                  · rename_i heq
                    simp only [Option.some.injEq, Prod.mk.injEq] at h
                    obtain ⟨rfl, rfl⟩ := h
                    rw [take_add_one']
                    simp only [List.cons_append]
                    have hsp : spanLen B.isDigit (rest0.take (spanLen B.isDigit rest0) ++ rest) = spanLen B.isDigit rest0 :=
                      spanLen_stable _ _ _ (by intro x r hx; exact not_digit_of_not_word x (sepOK_not_word x (hs x r hx)))
                    unfold one
                    simp only [hsing, hc35, hc47, hc34, halpha, hc58, hdig, if_true, hsp, drop_take_append _ _ _ hle]
                    cases rest with
                    | nil => rfl
                    | cons x r =>
                      have hx := sepOK_not_word x (hs x r rfl)
                      have : isSuffix x = false := by
                        cases hsx : isSuffix x with
                        | false => rfl
                        | true => rw [(isSuffix_word x hsx).1] at hx; simp at hx
                      simp only [isSuffix] at this
                      simp [this]
                · simp at h

theorem one_ws_none (c : UInt8) (rest0 : Bytes) (h : B.isWs c = true) : one (c :: rest0) = none := by
  simp only [B.isWs, Bool.or_eq_true, beq_iff_eq] at h
  rcases h with ((((rfl | rfl) | rfl) | rfl) | rfl) | rfl <;>
    simp [one, single, B.isAlpha_, B.isUpper, B.isLower, B.isDigit]

theorem one_head_not_ws (t : Bytes) (k : TokKind) (n : Nat) (h : one t = some (k, n)) :
    ∃ c r, t = c :: r ∧ B.isWs c = false := by
  cases t with
  | nil => simp [one] at h
  | cons c r =>
    refine ⟨c, r, rfl, ?_⟩
    cases hw : B.isWs c with
    | false => rfl
    | true => rw [one_ws_none c r hw] at h; simp at h

theorem spanLen_all (p : UInt8 → Bool) (w u : Bytes) (hw : ∀ c ∈ w, p c = true) (hu : ∀ c r, u = c :: r → p c = false) :
    spanLen p (w ++ u) = w.length := by
  induction w with
  | nil =>
    cases u with
    | nil => simp [spanLen]
    | cons c r => simp [spanLen, hu c r rfl]
  | cons x xs ih =>
    simp only [List.cons_append, spanLen, hw x (by simp), if_true, List.length_cons]
    rw [ih (fun c hc => hw c (by simp [hc]))]

/-- a token kind with its text -/
abbrev KT := TokKind × Bytes

def kt (t : Tok) : KT := (t.kind, t.text)

/-- the text alone is read as one token of that kind -/
def Genuine (x : KT) : Prop := one x.2 = some (x.1, x.2.length)

/-- `text` is these tokens in order, white space between them, each followed by something that cannot continue it -/
inductive SWeave : List KT → Bytes → Prop
  | nil (ws : Bytes) (h : ∀ c ∈ ws, B.isWs c = true) : SWeave [] ws
  | cons (ws : Bytes) (h : ∀ c ∈ ws, B.isWs c = true) (k : TokKind) (txt : Bytes) (ks : List KT) (rest : Bytes)
      (hg : Genuine (k, txt)) (hsep : Sep k rest) (hr : SWeave ks rest) : SWeave ((k, txt) :: ks) (ws ++ txt ++ rest)

theorem SWeave.prepend {ks : List KT} {x : Bytes} (h : SWeave ks x) (w : Bytes) (hw : ∀ c ∈ w, B.isWs c = true) :
    SWeave ks (w ++ x) := by
  cases h with
  | nil ws hws =>
    apply SWeave.nil
    intro c hc
    simp only [List.mem_append] at hc
    rcases hc with hc | hc
    · exact hw c hc
    · exact hws c hc
  | cons ws hws k txt ks rest hg hsep hr =>
    have : w ++ (ws ++ txt ++ rest) = (w ++ ws) ++ txt ++ rest := by simp [List.append_assoc]
    rw [this]
    apply SWeave.cons _ _ k txt ks rest hg hsep hr
    intro c hc
    simp only [List.mem_append] at hc
    rcases hc with hc | hc
    · exact hw c hc
    · exact hws c hc

/-- one step of the scan loop over a token in front of a separator -/
theorem scan_tok (fuel : Nat) (k : TokKind) (txt rest : Bytes) (pos : Nat) (acc : List Tok) (hg : Genuine (k, txt))
    (hsep : Sep k rest) :
    scan (fuel + 1) (txt ++ rest) pos acc = scan fuel rest (pos + txt.length) (⟨k, pos, txt⟩ :: acc) := by
  obtain ⟨c, r, rfl, hc⟩ := one_head_not_ws _ _ _ hg
  have hst := one_stable _ _ _ hg rest hsep
  rw [List.take_length] at hst
  simp only [List.cons_append] at hst ⊢
  simp only [scan, hc, Bool.false_eq_true, if_false, hst]
  have e1 : (c :: (r ++ rest)).drop (c :: r).length = rest := by
    have : c :: (r ++ rest) = (c :: r) ++ rest := rfl
    rw [this, List.drop_left]
  have e2 : (c :: (r ++ rest)).take (c :: r).length = c :: r := by
    have : c :: (r ++ rest) = (c :: r) ++ rest := rfl
    rw [this, List.take_left]
  rw [e1, e2]

/-- one step of the scan loop over a run of white space -/
theorem scan_ws (fuel : Nat) (w u : Bytes) (pos : Nat) (acc : List Tok) (hne : w ≠ []) (hw : ∀ c ∈ w, B.isWs c = true)
    (hu : ∀ c r, u = c :: r → B.isWs c = false) :
    scan (fuel + 1) (w ++ u) pos acc = scan fuel u (pos + w.length) acc := by
  cases w with
  | nil => exact absurd rfl hne
  | cons x xs =>
    have hsp := spanLen_all B.isWs (x :: xs) u hw hu
    simp only [List.cons_append] at hsp ⊢
    simp only [scan, hw x (by simp), if_true, hsp]
    have : x :: (xs ++ u) = (x :: xs) ++ u := rfl
    rw [this, List.drop_left]

theorem scan_sweave (ks : List KT) (t : Bytes) (h : SWeave ks t) : ∀ (fuel pos : Nat) (acc : List Tok), t.length < fuel →
    ∃ r, scan fuel t pos acc = some r ∧ r.err = none ∧ r.toks.map kt = acc.reverse.map kt ++ ks := by
  induction h with
  | nil ws hws =>
    intro fuel pos acc hf
    cases ws with
    | nil =>
      cases fuel with
      | zero => omega
      | succ fuel => exact ⟨⟨acc.reverse, none, pos⟩, by simp [scan], rfl, by simp⟩
    | cons x xs =>
      cases fuel with
      | zero => omega
      | succ fuel =>
        have := scan_ws fuel (x :: xs) [] pos acc (by simp) hws (by intro c r h; simp at h)
        rw [List.append_nil] at this
        rw [this]
        cases fuel with
        | zero => simp at hf
        | succ fuel => exact ⟨⟨acc.reverse, none, pos + (x :: xs).length⟩, by simp [scan], rfl, by simp⟩
  | cons ws hws k txt ks rest hg hsep hr ih =>
    intro fuel pos acc hf
    obtain ⟨c, r, hcr, hc⟩ := one_head_not_ws _ _ _ hg
    have hlen : 1 ≤ txt.length := by
      have : (k, txt).2 = txt := rfl
      rw [this] at hcr; rw [hcr]; simp
    simp only [List.length_append] at hf
    have key : ∀ (fuel pos : Nat) (acc : List Tok), txt.length + rest.length < fuel →
        ∃ r', scan fuel (txt ++ rest) pos acc = some r' ∧ r'.err = none ∧ r'.toks.map kt = acc.reverse.map kt ++ (k, txt) :: ks := by
      intro fuel pos acc hf
      cases fuel with
      | zero => omega
      | succ fuel =>
        rw [scan_tok fuel k txt rest pos acc hg hsep]
        obtain ⟨r', h1, h2, h3⟩ := ih fuel (pos + txt.length) (⟨k, pos, txt⟩ :: acc) (by omega)
        exact ⟨r', h1, h2, by rw [h3]; simp [kt]⟩
    cases ws with
    | nil => simpa using key fuel pos acc (by omega)
    | cons x xs =>
      cases fuel with
      | zero => omega
      | succ fuel =>
        have hu : ∀ c' r', txt ++ rest = c' :: r' → B.isWs c' = false := by
          intro c' r' h
          have : (k, txt).2 = txt := rfl
          rw [this] at hcr
          rw [hcr] at h
          simp only [List.cons_append, List.cons.injEq] at h
          rw [← h.1]; exact hc
        have := scan_ws fuel (x :: xs) (txt ++ rest) pos acc (by simp) hws hu
        rw [List.append_assoc, this]
        simp only [List.length_cons] at hf
        exact key fuel _ acc (by omega)

/-- **such a weave lexes, without error, to exactly its tokens** -/
theorem lex_of_sweave (ks : List KT) (t : Bytes) (h : SWeave ks t) :
    ∃ r, lex t = some r ∧ r.err = none ∧ r.toks.map kt = ks := by
  obtain ⟨r, h1, h2, h3⟩ := scan_sweave ks t h (t.length + 1) 0 [] (by omega)
  exact ⟨r, h1, h2, by simpa using h3⟩

theorem sep_nil (k : TokKind) : Sep k [] := by
  cases k <;> simp [Sep, HeadSep, HeadLF]

/-- every token the lexer produces is read as itself when it stands alone -/
def GTok (tok : Tok) : Prop := Genuine (kt tok)

theorem scan_genuine : ∀ (fuel : Nat) (t : Bytes) (pos : Nat) (acc : List Tok) (r : Result),
    (∀ tok ∈ acc, GTok tok) → scan fuel t pos acc = some r → ∀ tok ∈ r.toks, GTok tok := by
  intro fuel
  induction fuel with
  | zero => intro t pos acc r _ h; simp [scan] at h
  | succ fuel ih =>
    intro t pos acc r hacc h
    unfold scan at h
    cases t with
    | nil =>
      simp at h
      subst h
      intro tok htok
      exact hacc tok (by simpa using htok)
    | cons c rest =>
      simp only at h
      split at h
      · exact ih _ _ acc r hacc h
      · split at h
        · simp at h
          subst h
          intro tok htok
          exact hacc tok (by simpa using htok)
        · rename_i k n hone
          have hb := one_bounds (c :: rest) k n hone
          apply ih _ _ _ r ?_ h
          intro tok htok
          simp only [List.mem_cons] at htok
          rcases htok with rfl | htok
          · have hst := one_stable _ _ _ hone [] (sep_nil k)
            rw [List.append_nil] at hst
            show one ((c :: rest).take n) = some (k, ((c :: rest).take n).length)
            simp only [List.length_take]
            rw [Nat.min_eq_left hb.2]
            exact hst
          · exact hacc tok htok

theorem lex_genuine (text : Bytes) (r : Result) (h : lex text = some r) : ∀ tok ∈ r.toks, GTok tok :=
  scan_genuine _ text 0 [] r (by intro tok ht; simp at ht) h

end Lex
