import SieveModel.Model.Bytes
/-!
# S3 — strict server-side decoder for ManageSieve commands (RFC 5804 §4 ABNF)

`command = command-name *(SP argument) CRLF`, `argument = number / quoted / literal-c2s`.
Quoted strings admit only the escapes `\\` and `\"` and no CR, LF or NUL; a literal is
`{` digits `+}` CRLF followed by exactly that many octets.  Independent of the client model.
-/
namespace Rfc5804

inductive SArg where
  | str (v : Bytes)
  | num (n : Nat)
  deriving DecidableEq, Repr

/-- after the opening quote: the decoded value and what follows the closing quote -/
def quotedTail : Bytes → Option (Bytes × Bytes)
  | [] => none
  | c :: rest =>
    if c == 34 then some ([], rest)
    else if c == 92 then
      match rest with
      | d :: rest' =>
        if d == 92 || d == 34 then
          match quotedTail rest' with
          | some (v, r) => some (d :: v, r)
          | none => none
        else none
      | [] => none
    else if c == 13 || c == 10 || c == 0 then none
    else
      match quotedTail rest with
      | some (v, r) => some (c :: v, r)
      | none => none

def digitsLen : Bytes → Nat
  | [] => 0
  | c :: rest => if B.isDigit c then digitsLen rest + 1 else 0

/-- `{n+}` CRLF then exactly `n` octets -/
def literalTail (t : Bytes) : Option (Bytes × Bytes) :=
  let k := digitsLen t
  if k == 0 then none else
  match t.drop k with
  | 43 :: 125 :: 13 :: 10 :: body =>
    let n := B.decToNat (t.take k)
    if n ≤ body.length then some (body.take n, body.drop n) else none
  | _ => none

/-- one argument at the head of the input -/
def arg (t : Bytes) : Option (SArg × Bytes) :=
  match t with
  | [] => none
  | c :: rest =>
    if c == 34 then (quotedTail rest).map (fun (v, r) => (.str v, r))
    else if c == 123 then (literalTail rest).map (fun (v, r) => (.str v, r))
    else if B.isDigit c then
      let k := digitsLen t
      some (.num (B.decToNat (t.take k)), t.drop k)
    else none

/-- `*(SP argument) CRLF` -/
def args : Nat → Bytes → Option (List SArg × Bytes)
  | 0, _ => none
  | fuel + 1, t =>
    match t with
    | 13 :: 10 :: rest => some ([], rest)
    | 32 :: rest =>
      match arg rest with
      | some (a, r) =>
        match args fuel r with
        | some (as, r') => some (a :: as, r')
        | none => none
      | none => none
    | _ => none

def isAlpha (c : UInt8) : Bool := B.isUpper c || B.isLower c

/-- one command: (verb, arguments, rest) -/
def command (t : Bytes) : Option (Bytes × List SArg × Bytes) :=
  let verb := t.takeWhile isAlpha
  if verb.isEmpty then none else
  match args (t.length + 1) (t.dropWhile isAlpha) with
  | some (as, r) => some (verb, as, r)
  | none => none

end Rfc5804
