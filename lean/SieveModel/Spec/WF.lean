import SieveModel.Model.Table
import SieveModel.Model.Utf8
/-!
# S1 — the supported Sieve language as an independent recogniser

RFC 5228 §8.2 (`commands = *command; command = identifier arguments (";" / block);
arguments = *argument [test / test-list]`) restricted by a command table.  Recursive descent over
the token list; it shares *only* the table data types with the model of the parser — not the
argument interpreter, not the push-down machine.

Three verdicts: `valid` (the property says the parser must accept), `invalid` (must reject),
`outside` (the script's only irregularities are the ones the property excludes: omitted trailing
required arguments, a repeated optional tag, an unknown extension name in `require`).
-/
namespace Spec

inductive Verdict | valid | outside | invalid
  deriving DecidableEq, Repr, Inhabited

def Verdict.join : Verdict → Verdict → Verdict
  | .invalid, _ => .invalid
  | _, .invalid => .invalid
  | .outside, _ => .outside
  | _, .outside => .outside
  | .valid, .valid => .valid

def Verdict.name : Verdict → String
  | .valid => "valid" | .outside => "outside" | .invalid => "invalid"

/-- extension names the frozen language knows (RFC registry subset supported) -/
def knownExtensions : List Bytes :=
  [sb "fileinto", sb "reject", sb "envelope", sb "body", sb "vacation", sb "vacation-seconds", sb "date",
   sb "relational", sb "regex", sb "copy", sb "mailbox", sb "imap4flags", sb "variables"]

/-- extension names a table itself refers to (custom commands may bring their own) -/
def tableExtensions (T : Table) : List Bytes :=
  T.flatMap (fun d => d.extension.toList ++ d.args.flatMap (fun a => a.extension.toList ++ a.extValues.map (·.2)))

def isStrTok (k : TokKind) : Bool := k == .string || k == .multiline

/-- `string *("," string) "]"` after the opening bracket; returns the items and the rest -/
def strListTail : List Tok → Option (List Bytes × List Tok)
  | a :: rest =>
    if a.kind == .string then
      match rest with
      | b :: rest' =>
        if b.kind == .right_bracket then some ([a.text], rest')
        else if b.kind == .comma then
          match strListTail rest' with
          | some (items, r) => some (a.text :: items, r)
          | none => none
        else none
      | [] => none
    else none
  | [] => none

/-- one positional value: what it is and what follows -/
inductive PVal
  | str (raw : Bytes) | num (raw : Bytes) | list (items : List Bytes) | tag (raw : Bytes)
  deriving DecidableEq, Repr

/-- read one value token (string, multi-line, number, tag or bracketed list); `none` = not a value;
    `some none` = malformed list -/
def takeVal : List Tok → Option (Option (PVal × List Tok))
  | a :: rest =>
    if isStrTok a.kind then some (some (.str a.text, rest))
    else if a.kind == .number then some (some (.num a.text, rest))
    else if a.kind == .tag then some (some (.tag a.text, rest))
    else if a.kind == .left_bracket then
      match strListTail rest with
      | some (items, r) => some (some (.list items, r))
      | none => some none
    else none
  | [] => none

/-- does a slot's declared type list admit this value (string is also a one-element string list) -/
def admits (types : List ArgType) : PVal → Bool
  | .str _ => decide (ArgType.string ∈ types) || decide (ArgType.stringlist ∈ types)
  | .num _ => decide (ArgType.number ∈ types)
  | .list _ => decide (ArgType.stringlist ∈ types)
  | .tag _ => decide (ArgType.tag ∈ types)

def slotValues (a : ArgDef) : List Bytes := (a.values.getD []) ++ a.extValues.map (·.1)

def valueOk (a : ArgDef) : PVal → Bool
  | .tag raw => a.values.isNone && a.extValues.isEmpty || decide (B.lower raw ∈ slotValues a)
  | .str raw => a.values.isNone && a.extValues.isEmpty || decide (B.lower raw ∈ slotValues a)
  | _ => a.values.isNone && a.extValues.isEmpty

/-- parameter of a tag: admitted type and (exact) value -/
def paramOk (e : ExtraDef) : PVal → Bool
  | .str raw =>
    (decide (ArgType.string ∈ e.types) || (e.typeIsStr && decide (ArgType.stringlist ∈ e.types)))
      && (match e.values with | some vs => decide (raw ∈ vs) | none => true)
  | .num raw => decide (ArgType.number ∈ e.types) && (match e.values with | some vs => decide (raw ∈ vs) | none => true)
  | .list _ => decide (ArgType.stringlist ∈ e.types) && e.values.isNone
  | .tag _ => false

def optionalTagSlot (d : CmdDef) (lowTag : Bytes) : Option ArgDef :=
  d.args.find? (fun a => !a.required && decide (ArgType.tag ∈ a.types) && decide (lowTag ∈ slotValues a))

def extOfTag (a : ArgDef) (lowTag : Bytes) : Option Bytes :=
  match (a.extValues.find? (fun p => p.1 == lowTag)) with
  | some (_, e) => some e
  | none => a.extension

/-- phase 1: optional tags in any order. Returns verdict so far, used slot names, rest. -/
def tagsPhase (d : CmdDef) (loaded : List Bytes) : Nat → List Tok → List String → Verdict → Verdict × List Tok
  | 0, toks, _, v => (v, toks)
  | fuel + 1, toks, used, v =>
    match toks with
    | a :: rest =>
      if a.kind == .tag then
        match optionalTagSlot d (B.lower a.text) with
        | none => (v, toks)
        | some slot =>
          let v1 := if decide (slot.name ∈ used) then v.join .outside else v
          let v2 := match extOfTag slot (B.lower a.text) with
            | some e => if decide (e ∈ loaded) then v1 else .invalid
            | none => v1
          let wantsParam := match slot.extra with
            | none => false
            | some e => match e.validFor with
              | none => true
              | some vf => decide (B.lower a.text ∈ vf)
          if wantsParam then
            match slot.extra, takeVal rest with
            | some e, some (some (pv, rest')) =>
              if paramOk e pv then tagsPhase d loaded fuel rest' (slot.name :: used) v2
              else (.invalid, rest')
            | some _, none => (v2.join .outside, rest)   -- the argument list ends here: omitted trailing argument
            | _, _ => (.invalid, rest)
          else tagsPhase d loaded fuel rest (slot.name :: used) v2
      else (v, toks)
    | [] => (v, toks)

/-- collect the positional values that follow -/
def positionals : Nat → List Tok → List PVal → Option (List PVal × List Tok)
  | 0, toks, acc => some (acc.reverse, toks)
  | fuel + 1, toks, acc =>
    match takeVal toks with
    | none => some (acc.reverse, toks)
    | some none => none
    | some (some (pv, rest)) => positionals fuel rest (pv :: acc)

def zipOk : List ArgDef → List PVal → Bool
  | [], [] => true
  | a :: as, v :: vs => admits a.types v && valueOk a v && zipOk as vs
  | _, _ => false

/-- assign positional values RFC-style: the last `r` to the required slots, the ones before to the
    optional positional slots -/
def positionalVerdict (d : CmdDef) (vals : List PVal) : Verdict :=
  let optPos := d.args.filter (fun a => !a.required && !decide (ArgType.tag ∈ a.types))
  let req := d.args.filter (fun a => a.required && !decide (ArgType.test ∈ a.types) && !decide (ArgType.testlist ∈ a.types))
  let n := vals.length
  if n < req.length then
    -- omitted trailing required arguments: the given ones must fit the leading slots
    (if zipOk (req.take n) vals then .outside else .invalid)
  else if n > req.length + optPos.length then .invalid
  else
    let k := n - req.length
    if zipOk (optPos.take k) (vals.take k) && zipOk req (vals.drop k) then .valid else .invalid

def testSlot (d : CmdDef) : Option ArgType :=
  if d.args.any (fun a => a.required && a.types == [.testlist]) then some .testlist
  else if d.args.any (fun a => a.required && decide (ArgType.test ∈ a.types)) then some .test
  else none

mutual
/-- arguments of command/test `d`, including its test or test list -/
def arguments (T : Table) (loaded : List Bytes) : Nat → CmdDef → List Tok → Verdict × List Tok
  | 0, _, toks => (.invalid, toks)
  | fuel + 1, d, toks =>
    let (v1, r1) := tagsPhase d loaded (toks.length + 1) toks [] .valid
    match positionals (r1.length + 1) r1 [] with
    | none => (.invalid, r1)
    | some (vals, r2) =>
      let v2 := v1.join (positionalVerdict d vals)
      match testSlot d with
      | none => (v2, r2)
      | some .test =>
        let (v3, r3) := test T loaded fuel r2
        (v2.join v3, r3)
      | some _ =>
        match r2 with
        | a :: r3 =>
          if a.kind == .left_parenthesis then
            let (v3, r4) := testList T loaded fuel r3
            (v2.join v3, r4)
          else (.invalid, r2)
        | [] => (.invalid, r2)

/-- `test = identifier arguments` -/
def test (T : Table) (loaded : List Bytes) : Nat → List Tok → Verdict × List Tok
  | 0, toks => (.invalid, toks)
  | fuel + 1, toks =>
    match toks with
    | a :: rest =>
      if a.kind == .identifier then
        match T.lookup a.text with
        | none => (.invalid, rest)
        | some d =>
          if d.kind != .test then (.invalid, rest)
          else
            let vext := match d.extension with
              | some e => if decide (e ∈ loaded) then Verdict.valid else .invalid
              | none => .valid
            let (v, r) := arguments T loaded fuel d rest
            (vext.join v, r)
      else (.invalid, toks)
    | [] => (.invalid, toks)

/-- `test *("," test) ")"` -/
def testList (T : Table) (loaded : List Bytes) : Nat → List Tok → Verdict × List Tok
  | 0, toks => (.invalid, toks)
  | fuel + 1, toks =>
    let (v, r) := test T loaded fuel toks
    match r with
    | a :: r' =>
      if a.kind == .right_parenthesis then (v, r')
      else if a.kind == .comma then
        let (v2, r2) := testList T loaded fuel r'
        (v.join v2, r2)
      else (.invalid, r)
    | [] => (.invalid, r)
end

/-- names given to `require` (unquoted) -/
def requireNames (toks : List Tok) : List Bytes :=
  (toks.filter (fun t => t.kind == .string)).map (fun t => B.stripC 34 t.text)

mutual
/-- `commands = *command` up to (not including) a closing brace or the end.
    Returns verdict, loaded extensions afterwards, rest. `prev` = name of the previous sibling. -/
def commands (T : Table) : Nat → List Bytes → Option Bytes → List Tok → Verdict × List Bytes × List Tok
  | 0, loaded, _, toks => (.invalid, loaded, toks)
  | fuel + 1, loaded, prev, toks =>
    match toks with
    | [] => (.valid, loaded, [])
    | a :: _ =>
      if a.kind == .right_cbracket then (.valid, loaded, toks)
      else
        let (v, loaded', name, rest) := command T fuel loaded prev toks
        if v == .invalid then (.invalid, loaded', rest)
        else
          let (v2, loaded'', rest') := commands T fuel loaded' name rest
          (v.join v2, loaded'', rest')

/-- `command = identifier arguments (";" / block)` -/
def command (T : Table) : Nat → List Bytes → Option Bytes → List Tok → Verdict × List Bytes × Option Bytes × List Tok
  | 0, loaded, _, toks => (.invalid, loaded, none, toks)
  | fuel + 1, loaded, prev, toks =>
    match toks with
    | a :: rest =>
      if a.kind != .identifier then (.invalid, loaded, none, rest) else
      match T.lookup a.text with
      | none => (.invalid, loaded, none, rest)
      | some d =>
        if d.kind == .test then (.invalid, loaded, none, rest) else
        let vext := match d.extension with
          | some e => if decide (e ∈ loaded) then Verdict.valid else .invalid
          | none => .valid
        let vfollow := match d.mustFollow with
          | none => Verdict.valid
          | some names => match prev with
            | some p => if decide (p ∈ names) then .valid else .invalid
            | none => .invalid
        let (va, r1) := arguments T loaded (2 * rest.length + 2) d rest
        let v := (vext.join vfollow).join va
        if d.acceptChildren then
          match r1 with
          | b :: r2 =>
            if b.kind == .left_cbracket then
              let (vb, loaded', r3) := commands T fuel loaded none r2
              match r3 with
              | c :: r4 =>
                if c.kind == .right_cbracket then (v.join vb, loaded', some d.name, r4)
                else (.invalid, loaded', none, r3)
              | [] => (.invalid, loaded', none, [])
            else (.invalid, loaded, none, r1)
          | [] => (.invalid, loaded, none, [])
        else
          match r1 with
          | b :: r2 =>
            if b.kind == .semicolon then
              if d.special == .require then
                let consumed := rest.take (rest.length - r1.length)
                let names := requireNames consumed
                let vk := if names.all (fun n => decide (n ∈ knownExtensions) || decide (n ∈ tableExtensions T))
                          then Verdict.valid else .outside
                (v.join vk, names.foldl (fun acc n => if decide (n ∈ acc) then acc else acc ++ [n]) loaded, some d.name, r2)
              else (v, loaded, some d.name, r2)
            else (.invalid, loaded, none, r1)
          | [] => (.invalid, loaded, none, [])
    | [] => (.invalid, loaded, none, [])
end

def stripComments (toks : List Tok) : List Tok :=
  toks.filter (fun t => t.kind != .hash_comment && t.kind != .bracket_comment)

/-- the recogniser on a (comment-free) token list -/
def wf (T : Table) (toks : List Tok) : Verdict :=
  if toks.any (fun t => isStrTok t.kind && !Utf8.valid t.text) then .invalid else
  let (v, _, rest) := commands T (toks.length + 1) [] none toks
  if v == .invalid then .invalid else if rest.isEmpty then v else .invalid

/-- on bytes: a lexical error is invalid -/
def wfBytes (T : Table) (text : Bytes) : Verdict :=
  match Lex.lex text with
  | none => .invalid
  | some r => if r.err.isSome then .invalid else wf T (stripComments r.toks)

end Spec
