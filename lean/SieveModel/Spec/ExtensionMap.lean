import SieveModel.Model.Table
/-! FROZEN extension map (rendered from /verif/spec/extension_map.json, hand-written from the RFCs; NOT derived from /repo). -/
namespace Spec

/-- command name ↦ extension it belongs to -/
def commandExt : List (Bytes × Bytes) := [(sb "addflag", sb "imap4flags"), (sb "body", sb "body"), (sb "currentdate", sb "date"), (sb "date", sb "date"), (sb "envelope", sb "envelope"), (sb "fileinto", sb "fileinto"), (sb "hasflag", sb "imap4flags"), (sb "reject", sb "reject"), (sb "removeflag", sb "imap4flags"), (sb "set", sb "variables"), (sb "setflag", sb "imap4flags"), (sb "vacation", sb "vacation")]

/-- (command, tag value, extension) -/
def tagExt : List (Bytes × Bytes × Bytes) := [(sb "fileinto", sb ":copy", sb "copy"),
  (sb "redirect", sb ":copy", sb "copy"),
  (sb "fileinto", sb ":create", sb "mailbox"),
  (sb "fileinto", sb ":flags", sb "imap4flags"),
  (sb "keep", sb ":flags", sb "imap4flags"),
  (sb "vacation", sb ":seconds", sb "vacation-seconds"),
  (sb "address", sb ":count", sb "relational"),
  (sb "address", sb ":value", sb "relational"),
  (sb "address", sb ":regex", sb "regex"),
  (sb "envelope", sb ":count", sb "relational"),
  (sb "envelope", sb ":value", sb "relational"),
  (sb "envelope", sb ":regex", sb "regex"),
  (sb "header", sb ":count", sb "relational"),
  (sb "header", sb ":value", sb "relational"),
  (sb "header", sb ":regex", sb "regex"),
  (sb "body", sb ":count", sb "relational"),
  (sb "body", sb ":value", sb "relational"),
  (sb "body", sb ":regex", sb "regex"),
  (sb "hasflag", sb ":count", sb "relational"),
  (sb "hasflag", sb ":value", sb "relational"),
  (sb "hasflag", sb ":regex", sb "regex"),
  (sb "date", sb ":count", sb "relational"),
  (sb "date", sb ":value", sb "relational"),
  (sb "date", sb ":regex", sb "regex"),
  (sb "currentdate", sb ":count", sb "relational"),
  (sb "currentdate", sb ":value", sb "relational"),
  (sb "currentdate", sb ":regex", sb "regex")]

/-- the slot of `d` that accepts tag `t` binds it to extension `e` -/
def slotBinds (a : ArgDef) (t e : Bytes) : Bool :=
  ((match a.values with | some vs => decide (t ∈ vs) | none => false) && a.extension == some e) ||
  decide ((t, e) ∈ a.extValues)

/-- every frozen (construct, extension) pair is present in the table with that extension -/
def ExtCovered (T : Table) : Bool :=
  commandExt.all (fun (c, e) => T.any (fun d => d.name == c && d.extension == some e)) &&
  tagExt.all (fun (c, t, e) => T.any (fun d => d.name == c && d.args.any (fun a => slotBinds a t e)))

end Spec
