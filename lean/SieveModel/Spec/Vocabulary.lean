import SieveModel.Model.Table
/-! FROZEN vocabulary (rendered from /verif/spec/vocabulary.json, hand-written from the RFCs; NOT derived from /repo). -/
namespace Spec

/-- the commands of the supported language and the role each plays -/
def vocabulary : List (Bytes × Kind) := [(sb "require", .control), (sb "if", .control), (sb "elsif", .control), (sb "else", .control), (sb "set", .control), (sb "stop", .action), (sb "keep", .action), (sb "discard", .action), (sb "fileinto", .action), (sb "redirect", .action), (sb "reject", .action), (sb "setflag", .action), (sb "addflag", .action), (sb "removeflag", .action), (sb "vacation", .action), (sb "address", .test), (sb "allof", .test), (sb "anyof", .test), (sb "envelope", .test), (sb "exists", .test), (sb "false", .test), (sb "header", .test), (sb "not", .test), (sb "size", .test), (sb "true", .test), (sb "body", .test), (sb "hasflag", .test), (sb "date", .test), (sb "currentdate", .test)]

/-- every definition of the table is a word of the vocabulary, in its role -/
def SpeaksOnly (T : Table) : Bool := T.all (fun d => decide ((d.name, d.kind) ∈ vocabulary))

/-- the tags each command admits (commands not listed admit none) -/
def tagVocabulary : List (Bytes × List Bytes) := [(sb "address", [sb ":comparator", sb ":all", sb ":localpart", sb ":domain", sb ":is", sb ":contains", sb ":matches", sb ":count", sb ":value", sb ":regex"]), (sb "body", [sb ":comparator", sb ":raw", sb ":content", sb ":text", sb ":is", sb ":contains", sb ":matches", sb ":count", sb ":value", sb ":regex"]), (sb "currentdate", [sb ":zone", sb ":comparator", sb ":is", sb ":contains", sb ":matches", sb ":count", sb ":value", sb ":regex"]), (sb "date", [sb ":zone", sb ":originalzone", sb ":comparator", sb ":is", sb ":contains", sb ":matches", sb ":count", sb ":value", sb ":regex"]), (sb "envelope", [sb ":comparator", sb ":all", sb ":localpart", sb ":domain", sb ":is", sb ":contains", sb ":matches", sb ":count", sb ":value", sb ":regex"]), (sb "fileinto", [sb ":copy", sb ":create", sb ":flags"]), (sb "hasflag", [sb ":comparator", sb ":is", sb ":contains", sb ":matches", sb ":count", sb ":value", sb ":regex"]), (sb "header", [sb ":comparator", sb ":is", sb ":contains", sb ":matches", sb ":count", sb ":value", sb ":regex"]), (sb "keep", [sb ":flags"]), (sb "redirect", [sb ":copy"]), (sb "size", [sb ":over", sb ":under"]), (sb "vacation", [sb ":days", sb ":seconds", sb ":subject", sb ":from", sb ":addresses", sb ":mime", sb ":handle"])]

def tagsOf (d : CmdDef) : List Bytes :=
  d.args.flatMap (fun a => if decide (ArgType.tag ∈ a.types) then (a.values.getD []) ++ a.extValues.map (·.1) else [])

def frozenTags (n : Bytes) : List Bytes := ((tagVocabulary.find? (fun p => p.1 == n)).map (·.2)).getD []

/-- every definition admits exactly the tags the frozen vocabulary gives its command -/
def TagsExactly (T : Table) : Bool :=
  T.all (fun d => (tagsOf d).all (fun t => decide (t ∈ frozenTags d.name)) && (frozenTags d.name).all (fun t => decide (t ∈ tagsOf d)))

/-- every word of the vocabulary has a definition -/
def SpeaksAll (T : Table) : Bool := vocabulary.all (fun (n, k) => T.any (fun d => d.name == n && d.kind == k))

end Spec
