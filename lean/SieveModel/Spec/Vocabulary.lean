import SieveModel.Model.Table
/-! FROZEN vocabulary (rendered from /verif/spec/vocabulary.json, hand-written from the RFCs; NOT derived from /repo). -/
namespace Spec

/-- the commands of the supported language and the role each plays -/
def vocabulary : List (Bytes × Kind) := [(sb "require", .control), (sb "if", .control), (sb "elsif", .control), (sb "else", .control), (sb "set", .control), (sb "stop", .action), (sb "keep", .action), (sb "discard", .action), (sb "fileinto", .action), (sb "redirect", .action), (sb "reject", .action), (sb "setflag", .action), (sb "addflag", .action), (sb "removeflag", .action), (sb "vacation", .action), (sb "address", .test), (sb "allof", .test), (sb "anyof", .test), (sb "envelope", .test), (sb "exists", .test), (sb "false", .test), (sb "header", .test), (sb "not", .test), (sb "size", .test), (sb "true", .test), (sb "body", .test), (sb "hasflag", .test), (sb "date", .test), (sb "currentdate", .test)]

/-- every definition of the table is a word of the vocabulary, in its role -/
def SpeaksOnly (T : Table) : Bool := T.all (fun d => decide ((d.name, d.kind) ∈ vocabulary))

/-- every word of the vocabulary has a definition -/
def SpeaksAll (T : Table) : Bool := vocabulary.all (fun (n, k) => T.any (fun d => d.name == n && d.kind == k))

end Spec
