import SieveModel.Model.Table
import SieveModel.Model.Args
/-! FROZEN vocabulary (rendered from /verif/spec/vocabulary.json, hand-written from the RFCs; NOT derived from /repo). -/
namespace Spec

/-- the commands of the supported language and the role each plays -/
def vocabulary : List (Bytes × Kind) := [(sb "require", .control), (sb "if", .control), (sb "elsif", .control), (sb "else", .control), (sb "set", .control), (sb "stop", .action), (sb "keep", .action), (sb "discard", .action), (sb "fileinto", .action), (sb "redirect", .action), (sb "reject", .action), (sb "setflag", .action), (sb "addflag", .action), (sb "removeflag", .action), (sb "vacation", .action), (sb "address", .test), (sb "allof", .test), (sb "anyof", .test), (sb "envelope", .test), (sb "exists", .test), (sb "false", .test), (sb "header", .test), (sb "not", .test), (sb "size", .test), (sb "true", .test), (sb "body", .test), (sb "hasflag", .test), (sb "date", .test), (sb "currentdate", .test)]

/-- every definition of the table is a word of the vocabulary, in its role -/
def SpeaksOnly (T : Table) : Bool := T.all (fun d => decide ((d.name, d.kind) ∈ vocabulary))

/-- the tags each command admits (commands not listed admit none) -/
def tagVocabulary : List (Bytes × List Bytes) := [(sb "address", [sb ":comparator", sb ":all", sb ":localpart", sb ":domain", sb ":is", sb ":contains", sb ":matches", sb ":count", sb ":value", sb ":regex"]), (sb "body", [sb ":comparator", sb ":raw", sb ":content", sb ":text", sb ":is", sb ":contains", sb ":matches", sb ":count", sb ":value", sb ":regex"]), (sb "currentdate", [sb ":zone", sb ":comparator", sb ":is", sb ":contains", sb ":matches", sb ":count", sb ":value", sb ":regex"]), (sb "date", [sb ":zone", sb ":originalzone", sb ":comparator", sb ":is", sb ":contains", sb ":matches", sb ":count", sb ":value", sb ":regex"]), (sb "envelope", [sb ":comparator", sb ":all", sb ":localpart", sb ":domain", sb ":is", sb ":contains", sb ":matches", sb ":count", sb ":value", sb ":regex"]), (sb "fileinto", [sb ":copy", sb ":create", sb ":flags"]), (sb "hasflag", [sb ":comparator", sb ":is", sb ":contains", sb ":matches", sb ":count", sb ":value", sb ":regex"]), (sb "header", [sb ":comparator", sb ":is", sb ":contains", sb ":matches", sb ":count", sb ":value", sb ":regex"]), (sb "keep", [sb ":flags"]), (sb "redirect", [sb ":copy"]), (sb "size", [sb ":over", sb ":under"]), (sb "vacation", [sb ":days", sb ":seconds", sb ":subject", sb ":from", sb ":addresses", sb ":mime", sb ":handle"])]

def tagsOf (d : CmdDef) : List Bytes :=
  d.args.flatMap (fun a => if decide (ArgType.tag ∈ a.types) then (a.values.getD []) ++ a.extValues.map (·.1) else [])

def frozenTags (n : Bytes) : List Bytes := ((tagVocabulary.find? (fun p => p.1 == n)).map (·.2)).getD []

/-- every definition admits exactly the tags the frozen vocabulary gives its command -/
def TagsExactly (T : Table) : Bool :=
  T.all (fun d => (tagsOf d).all (fun t => decide (t ∈ frozenTags d.name)) && (frozenTags d.name).all (fun t => decide (t ∈ tagsOf d)))

/-- the parameter each tag takes: (tag, admitted kinds, closed value set if any); a tag not listed takes none -/
def tagParams : List (Bytes × List ArgType × Option (List Bytes)) := [(sb ":addresses", [.string, .stringlist], none), (sb ":comparator", [.string], some [sb "\"i;octet\"", sb "\"i;ascii-casemap\""]), (sb ":content", [.string, .stringlist], none), (sb ":count", [.string], some [sb "\"gt\"", sb "\"ge\"", sb "\"lt\"", sb "\"le\"", sb "\"eq\"", sb "\"ne\""]), (sb ":days", [.number], none), (sb ":flags", [.string, .stringlist], none), (sb ":from", [.string], none), (sb ":handle", [.string], none), (sb ":seconds", [.number], none), (sb ":subject", [.string], none), (sb ":value", [.string], some [sb "\"gt\"", sb "\"ge\"", sb "\"lt\"", sb "\"le\"", sb "\"eq\"", sb "\"ne\""]), (sb ":zone", [.string], none)]

def frozenParam (t : Bytes) : Option (List ArgType × Option (List Bytes)) := (tagParams.find? (fun p => p.1 == t)).map (·.2)

/-- what the definition gives tag `t` of slot `a` as parameter: `none` = no parameter -/
def paramOf (a : ArgDef) (t : Bytes) : Option ExtraDef :=
  match a.extra with
  | none => none
  | some e => match e.validFor with | none => some e | some vf => if decide (t ∈ vf) then some e else none

def sameSet (a b : List Bytes) : Bool := a.all (fun x => decide (x ∈ b)) && b.all (fun x => decide (x ∈ a))

/-- the parameter of every tag of every definition is the frozen one: same kinds admitted, same closed value set -/
def ParamsExactly (T : Table) : Bool :=
  T.all (fun d => d.args.all (fun a => !decide (ArgType.tag ∈ a.types) ||
    ((a.values.getD []) ++ a.extValues.map (·.1)).all (fun t =>
      match paramOf a t, frozenParam t with
      | none, none => true
      | some e, some (kinds, vals) =>
        [ArgType.string, ArgType.number, ArgType.stringlist].all (fun k => Args.atypeIn k e == decide (k ∈ kinds)) &&
        (match e.values, vals with | none, none => true | some x, some y => sameSet x y | _, _ => false)
      | _, _ => false)))

/-- every word of the vocabulary has a definition -/
def SpeaksAll (T : Table) : Bool := vocabulary.all (fun (n, k) => T.any (fun d => d.name == n && d.kind == k))

end Spec
