import SieveModel.Model.Bytes
import SieveModel.Model.Lexer
