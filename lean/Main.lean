import SieveModel.Model.Bytes
import SieveModel.Model.Lexer
/-! Line-protocol driver: one request per line on stdin, one answer per line on stdout. -/

def lexAnswer (t : Bytes) : String :=
  match Lex.lex t with
  | none => "fuel"
  | some r =>
    let toks := ",".intercalate (r.toks.map fun k => s!"{k.kind.name}:{k.pos}:{k.text.length}")
    match r.err with
    | none => s!"ok {toks} end={r.endPos}"
    | some (p, tok) => s!"err {toks} at={p} tok={B.toHex tok}"

def answer (line : String) : String :=
  match line.splitOn " " with
  | ["lex", h] => lexAnswer (B.ofHex h)
  | ["lex"] => lexAnswer []
  | _ => "bad-request"

partial def loop (h : IO.FS.Stream) (out : IO.FS.Stream) : IO Unit := do
  let line ← h.getLine
  if line.isEmpty then return ()
  let l := (line.dropRightWhile (· == '\n'))
  out.putStrLn (answer l)
  loop h out

def main : IO Unit := do
  let out ← IO.getStdout
  loop (← IO.getStdin) out
  out.flush
