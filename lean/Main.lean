import SieveModel.Model.Show
import SieveModel.Model.TableCodec
import SieveModel.Generated.Tables
/-! Line-protocol driver: one request per line on stdin, one answer per line on stdout. -/

structure DState where
  table : Table := Generated.builtinTable

def lexAnswer (t : Bytes) : String :=
  match Lex.lex t with
  | none => "fuel"
  | some r =>
    let toks := ",".intercalate (r.toks.map fun k => s!"{k.kind.name}:{k.pos}:{k.text.length}")
    match r.err with
    | none => s!"ok {toks} end={r.endPos}"
    | some (p, tok) => s!"err {toks} at={p} tok={B.toHex tok}"

def hexArg (l : List String) : Bytes := match l with | [h] => B.ofHex h | _ => []

def answer (st : DState) (line : String) : DState × String :=
  match line.splitOn " " with
  | "lex" :: rest => (st, lexAnswer (hexArg rest))
  | "parse" :: rest =>
    let t := hexArg rest
    (st, Show.outcome t (Machine.parse st.table t))
  | ["table-reset"] => ({ st with table := Generated.builtinTable }, "ok")
  | ["table-clear"] => ({ st with table := [] }, "ok")
  | "table-add" :: fs =>
    match TableCodec.defOf fs with
    | some d => ({ st with table := st.table.register d }, "ok")
    | none => (st, "bad-def")
  | _ => (st, "bad-request")

partial def loop (h : IO.FS.Stream) (out : IO.FS.Stream) (st : DState) : IO Unit := do
  let line ← h.getLine
  if line.isEmpty then return ()
  let l := if line.endsWith "\n" then (line.dropEnd 1).toString else line
  let (st', a) := answer st l
  out.putStrLn a
  loop h out st'

def main : IO Unit := do
  let out ← IO.getStdout
  loop (← IO.getStdin) out {}
  out.flush
