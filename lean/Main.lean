import SieveModel.Model.Show
import SieveModel.Model.TableCodec
import SieveModel.Generated.Tables
import SieveModel.Model.Client
import SieveModel.Spec.WF
import SieveModel.Model.Serialize
import SieveModel.Model.FilterSet
import SieveModel.Spec.Rfc5804
import SieveModel.Model.Safety
import SieveModel.Model.ToList
import SieveModel.Model.Factory
import SieveModel.Model.Readback
import SieveModel.Model.Rename
import SieveModel.Spec.FrozenTable
/-! Line-protocol driver: one request per line on stdin, one answer per line on stdout. -/

structure DState where
  table : Table := Generated.builtinTable
  /-- the table the independent recogniser judges with: the frozen one (plus whatever a test registers on purpose) -/
  spec : Table := Spec.frozenTable
  client : Client := { r := { buf := [], net := { stream := [], sched := [] } } }
  fs : FS := []
  matchExt : List (Bytes × Bytes) := []
  argExt : List (Bytes × Bytes) := []

def kv (fs : List String) (k : String) : String := TableCodec.field fs k
def kvBytes (fs : List String) (k : String) : Bytes :=
  let v := kv fs k
  if v == "-" || v == "e" then [] else B.ofHex v
def kvOptBytes (fs : List String) (k : String) : Option Bytes :=
  let v := kv fs k
  if v == "-" then none else if v == "e" then some [] else some (B.ofHex v)
def kvLater (fs : List String) : List Bytes :=
  let v := kv fs "later"
  if v == "-" then [] else (v.splitOn ";").map (fun h => if h == "e" then [] else B.ofHex h)
def kvSched (fs : List String) : List Nat :=
  let v := kv fs "sched"
  if v == "-" || v == "e" then [] else (v.splitOn ",").map String.toNat!

def showErr : RErr → String
  | .error => "error"
  | .crash w => "crash " ++ ((w.splitOn ":").headD w)

def showWrites (ws : List (Bool × Bytes)) : String :=
  ",".intercalate (ws.map fun (t, b) => (if t then "t:" else "p:") ++ B.toHex b)

def showBool (b : Bool) : String := if b then "b1" else "b0"
def hexOr (b : Bytes) : String := if b.isEmpty then "e" else B.toHex b

def showRes {α} (f : α → String) (before : Client) (r : Client.Res α) : DState → DState × String := fun st =>
  let (res, c) := r
  let newWrites := c.writes.drop (if c.writes.length ≥ before.writes.length then before.writes.length else 0)
  let tail := s!" writes={showWrites newWrites} auth={showBool c.authenticated}"
  match res with
  | .error e => ({ st with client := c }, s!"res={showErr e}" ++ tail)
  | .ok v => ({ st with client := c },
      s!"res={f v}" ++ tail ++ s!" errcode={hexOr c.r.errcode} errmsg={hexOr c.r.errmsg} left={hexOr (c.r.buf ++ c.r.net.stream)}")

def showOptBytes : Option Bytes → String
  | none => "none"
  | some b => "s:" ++ hexOr b

def showListing : Option (Option Bytes × List Bytes) → String
  | none => "none"
  | some (a, l) => "ls:" ++ (match a with | none => "-" | some x => hexOr x) ++ ":" ++ ",".intercalate (l.map hexOr)

def contentDepth : Content → Nat
  | .plain _ => 0
  | .wrapped c => contentDepth c + 1

def showFS (fs : FS) : String :=
  ",".intercalate (fs.map fun f => s!"{hexOr f.name}:{if f.enabled then 1 else 0}:{contentDepth f.content}:{f.content.core}")

def showFRes : FRes → String
  | .ret b => if b then "b1" else "b0"
  | .exists_ => "exists"
  | .crash => "crash"

def argBytes (s : String) : Bytes := if s == "e" || s == "-" then [] else B.ofHex s

def fsOp (st : DState) (args : List String) : DState × String :=
  let fin (r : FRes × FS) : DState × String := ({ st with fs := r.2 }, s!"res={showFRes r.1} state={showFS r.2}")
  match args with
  | ["new"] => ({ st with fs := [] }, "res=ok state=")
  | ["add", n, id] => fin (FS.addfilter st.fs (argBytes n) id.toNat!)
  | ["update", o, n, id] => fin (FS.updatefilter st.fs (argBytes o) (argBytes n) id.toNat!)
  | ["replace", o, n, id] => fin (FS.replacefilter st.fs (argBytes o) (.plain id.toNat!) (if n == "-" then none else some (argBytes n)))
  | ["replacefrom", o, m] =>
    match FS.getfilter st.fs (argBytes m) with
    | some (some c) => fin (FS.replacefilter st.fs (argBytes o) c none)
    | some none => (st, s!"res=none state={showFS st.fs}")
    | none => (st, s!"res=crash state={showFS st.fs}")
  | ["remove", n] => fin (FS.removefilter st.fs (argBytes n))
  | ["enable", n] => fin (FS.enablefilter st.fs (argBytes n))
  | ["disable", n] => fin (FS.disablefilter st.fs (argBytes n))
  | ["move", n, d] => fin (FS.movefilter st.fs (argBytes n) (d == "up"))
  | ["isdis", n] => (st, s!"res={showBool (FS.isFilterDisabled st.fs (argBytes n))} state={showFS st.fs}")
  | ["get", n] =>
    let r := match FS.getfilter st.fs (argBytes n) with
      | none => "crash"
      | some none => "none"
      | some (some c) => s!"c:{contentDepth c}:{c.core}"
    (st, s!"res={r} state={showFS st.fs}")
  | _ => (st, "bad-fs-op")

/-! factory construction: `fcfg match=k:v,k:v arg=k:v,…` sets the two dictionaries; `fb gl=… reqs=… mt=… conds=… acts=…` builds one filter -/
def hexB (h : String) : Bytes := if h == "e" || h == "-" || h == "" then [] else B.ofHex h
def hexList (v : String) : List Bytes := if v == "-" || v == "" then [] else (v.splitOn ",").map hexB
def pairList (v : String) : List (Bytes × Bytes) :=
  if v == "-" || v == "" then [] else (v.splitOn ",").map (fun kv => match kv.splitOn ":" with
    | [k, x] => (hexB k, hexB x)
    | _ => ([], []))
/-- one item: `s<hex>` | `n<dec>` | `l<hex>+<hex>…` (`l` alone: empty list) -/
def valOf (t : String) : Factory.Val :=
  let body := (t.drop 1).toString
  if t.startsWith "n" then .n body.toNat!
  else if t.startsWith "l" then .l (if body == "" then [] else (body.splitOn "+").map hexB)
  else .s (hexB body)
/-- tuples separated by `|`, items by `;`; `-` = no tuple -/
def tuplesOf (v : String) : List (List Factory.Val) :=
  if v == "-" || v == "" then [] else (v.splitOn "|").map (fun t => if t == "_" then [] else (t.splitOn ";").map valOf)
def showFErr : Factory.Err → String
  | .cmd (.badValue a) => s!"badValue {a}"
  | .cmd (.badArgument c) => s!"badArgument {B.toHex c}"
  | .cmd (.extNotLoaded e) => s!"extNotLoaded {B.toHex e}"
  | .cmd (.crash _) => "crash"
  | .parse e => Show.perr e
  | .crash _ => "crash"
  | .unmodelled => "unmodelled"
def factoryOp (st : DState) (fs : List String) : String :=
  let cfg : Factory.Cfg := { T := st.table, matchExt := st.matchExt, argExt := st.argExt, gl := hexList (kv fs "gl") }
  let (reqs, r) := Factory.createFilter cfg (hexList (kv fs "reqs")) (tuplesOf (kv fs "conds")) (tuplesOf (kv fs "acts")) (hexB (kv fs "mt"))
  "reqs=" ++ ",".intercalate (reqs.map hexOr) ++ " res=" ++ (match r with
    | .ok n => "ok " ++ Show.node n ++ " ser=" ++ (match Ser.node st.table 0 n with | some b => hexOr b | none => "crash")
    | .error e => "err " ++ showFErr e)

/-! build, read back, render, parse, load, read back again: `fbr <fields of fb> name=… desc=… npre=… dpre=…` -/
def showRVal : Readback.RVal → String
  | .s b => "s" ++ hexOr b
  | .l items => "l" ++ "+".intercalate (items.map hexOr)
def showTuples (r : Readback.R (List (List Readback.RVal))) : String :=
  match r with
  | .ok ts => if ts.isEmpty then "-" else "|".intercalate (ts.map fun t => if t.isEmpty then "_" else ";".intercalate (t.map showRVal))
  | .error _ => "crash"
def showReadback (T : Table) (n : Node) : String :=
  "conds=" ++ showTuples (Readback.conditions T n) ++ " acts=" ++ showTuples (Readback.actions T n) ++
    " mt=" ++ (match Readback.matchtype T n with | some b => hexOr b | none => "none")
def factoryRoundTrip (st : DState) (fs : List String) : String :=
  let cfg : Factory.Cfg := { T := st.table, matchExt := st.matchExt, argExt := st.argExt, gl := hexList (kv fs "gl") }
  let (reqs, r) := Factory.createFilter cfg (hexList (kv fs "reqs")) (tuplesOf (kv fs "conds")) (tuplesOf (kv fs "acts")) (hexB (kv fs "mt"))
  match r with
  | .error e => "err " ++ showFErr e
  | .ok n =>
    let direct := showReadback st.table n
    let name := hexB (kv fs "name")
    let desc := hexB (kv fs "desc")
    let npre := hexB (kv fs "npre")
    let dpre := hexB (kv fs "dpre")
    -- `FiltersSet.tosieve`: the require command, then marker comments and the filter
    let reqText : Option Bytes :=
      if reqs.isEmpty then some []
      else (Ser.node st.table 0 (.mk (sb "require") [.strs "capabilities" reqs] [] [] [])).map (· ++ [10])
    let text : Option Bytes := match reqText, Ser.node st.table 0 n with
      | some rq, some body => some (rq ++ npre ++ name ++ [10] ++ (if desc.isEmpty then [] else dpre ++ desc ++ [10]) ++ body)
      | _, _ => none
    match text with
    | none => "direct " ++ direct ++ " text=crash"
    | some t =>
      let reloaded := match Machine.parse st.table t with
        | .accept res =>
          let (rq, loaded) := Readback.load npre dpre res 1 [] []
          (match loaded with
           | [l] => (match Readback.filterBody l with
              | some b => "name=" ++ hexOr l.name ++ " desc=" ++ hexOr l.description ++ " enabled=" ++ showBool l.enabled ++
                  " reqs=" ++ ",".intercalate (rq.map hexOr) ++ " " ++ showReadback st.table b
              | none => "nobody")
           | _ => s!"filters={loaded.length}")
        | _ => "rejected"
      "direct " ++ direct ++ " text=" ++ hexOr t ++ " reloaded " ++ reloaded

def clientOp (st : DState) (fs : List String) : DState × String :=
  let c0 := st.client
  -- optional new server bytes / schedule for this operation
  let c : Client :=
    let c1 := match kvOptBytes fs "stream" with
      | some b => { c0 with r := { c0.r with net := { c0.r.net with stream := c0.r.net.stream ++ b } } }
      | none => c0
    let c2 := if kv fs "sched" == "-" then c1 else { c1 with r := { c1.r with net := { c1.r.net with sched := kvSched fs } } }
    if kv fs "later" == "-" then c2 else { c2 with r := { c2.r with net := { c2.r.net with later := kvLater fs } } }
  match kv fs "op" with
  | "new" => ({ st with client := { r := { buf := [], net := { stream := [], sched := [] } } } }, "ok")
  | "connect" =>
    let env : ConnEnv := { tcpOk := kv fs "tcp" != "0", tlsOk := kv fs "tlsok" != "0" }
    let net : Net := { stream := kvBytes fs "stream", sched := kvSched fs, later := kvLater fs }
    showRes showBool { c0 with writes := [] }
      (Client.connect c0 env net (kvBytes fs "login") (kvBytes fs "pw") (kvBytes fs "authz")
        (kv fs "starttls" == "1") (kvOptBytes fs "mech")) st
  | "havespace" => showRes showBool c (Client.havespace c (kvBytes fs "a") (kv fs "n").toNat!) st
  | "putscript" => showRes showBool c (Client.putscript c (kvBytes fs "a") (kvBytes fs "b")) st
  | "deletescript" => showRes showBool c (Client.deletescript c (kvBytes fs "a")) st
  | "setactive" => showRes showBool c (Client.setactive c (kvBytes fs "a")) st
  | "checkscript" => showRes showBool c (Client.checkscript c (kvBytes fs "a")) st
  | "renamescript" => showRes showBool c (Client.renamescript c (kvBytes fs "a") (kvBytes fs "b")) st
  | "getscript" => showRes showOptBytes c (Client.getscript c (kvBytes fs "a")) st
  | "listscripts" => showRes showListing c (Client.listscripts c) st
  | "capability" => showRes showOptBytes c (Client.capability c) st
  | "logout" => showRes (fun _ => "none") c (Client.logout c) st
  | _ => (st, "bad-op")

def lexAnswer (t : Bytes) : String :=
  match Lex.lex t with
  | none => "fuel"
  | some r =>
    let toks := ",".intercalate (r.toks.map fun k => s!"{k.kind.name}:{k.pos}:{k.text.length}")
    match r.err with
    | none => s!"ok {toks} end={r.endPos}"
    | some (p, tok) => s!"err {toks} at={p} tok={B.toHex tok}"

def hexArg (l : List String) : Bytes := match l with | [h] => B.ofHex h | _ => []

/-- `ren old= new= active= scripts=n:c;… faults=LIST:NO,…` — the abstract emulated rename (Model/Rename.lean) -/
def renameOp (fs : List String) : String :=
  let hx (v : String) : Bytes := if v == "e" || v == "-" then [] else B.ofHex v
  let scripts : List (Bytes × Bytes) :=
    let v := kv fs "scripts"
    if v == "-" then [] else (v.splitOn ";").filterMap fun e =>
      match e.splitOn ":" with
      | [n, c] => some (hx n, hx c)
      | _ => none
  let faults : List (String × String) :=
    let v := kv fs "faults"
    if v == "-" then [] else (v.splitOn ",").filterMap fun e =>
      match e.splitOn ":" with
      | [a, b] => some (a, b)
      | _ => none
  let faultOf (k : String) : Rename.Fault :=
    match faults.find? (fun p => p.1 == k) with
    | some (_, "NO") => .no
    | some (_, "BYE") => .bye
    | some (_, "SILENT") => .silent
    | some (_, "LOST") => .lost
    | _ => .none
  let plan : Rename.Step → Rename.Fault
    | .list => faultOf "LISTSCRIPTS" | .get => faultOf "GETSCRIPT" | .put => faultOf "PUTSCRIPT"
    | .setactive => faultOf "SETACTIVE" | .delete => faultOf "DELETESCRIPT"
  let (s', r) := Rename.run id plan ⟨scripts, kvOptBytes fs "active"⟩ (kvBytes fs "old") (kvBytes fs "new")
  let rs := match r with | .true => "b1" | .false => "b0" | .error => "error"
  let sc := ";".intercalate (s'.scripts.map fun p => hexOr p.1 ++ ":" ++ hexOr p.2)
  s!"res={rs} active={match s'.active with | none => "-" | some a => hexOr a} scripts={if sc.isEmpty then "-" else sc}"

def answer (st : DState) (line : String) : DState × String :=
  match line.splitOn " " with
  | "lex" :: rest => (st, lexAnswer (hexArg rest))
  | "parse" :: rest =>
    let t := hexArg rest
    (st, Show.outcome t (Machine.parse st.table t))
  | "parse-spec" :: rest =>
    -- the parser model run on the FROZEN command table of the specification (not on the table read from the code)
    let t := hexArg rest
    (st, Show.outcome t (Machine.parse st.spec t))
  | "ser" :: rest =>
    let t := hexArg rest
    match Machine.parse st.table t with
    | .accept r => (st, match Ser.script st.table r with | some b => "ok " ++ hexOr b | none => "crash")
    | _ => (st, "notaccepted")
  | "dec" :: rest =>
    -- strict RFC 5804 decoder on a whole write: one command, nothing left
    let showArg : Rfc5804.SArg → String
      | .str v => "s:" ++ hexOr v
      | .num n => s!"n:{n}"
    (st, match Rfc5804.command (hexArg rest) with
      | some (verb, as, r) => if r.isEmpty then s!"ok {hexOr verb} " ++ ",".intercalate (as.map showArg) else "trailing"
      | none => "bad")
  | "wf" :: rest => (st, (Spec.wfBytes st.spec (hexArg rest)).name)
  | ["tolist", h, u] =>
    -- tools.to_list on a rendered list (bytes of its UTF-8 form): pieces, hex, comma-separated
    (st, ",".intercalate ((ToList.toList (B.ofHex h) (u == "1")).map hexOr))
  | ["tolist", u] => (st, ",".intercalate ((ToList.toList [] (u == "1")).map hexOr))
  | ["table-reset"] => ({ st with table := Generated.builtinTable, spec := Spec.frozenTable }, "ok")
  | ["table-clear"] => ({ st with table := [], spec := [] }, "ok")
  | ["table-live-clear"] => ({ st with table := [] }, "ok")
  | "table-live-add" :: fs =>
    match TableCodec.defOf fs with
    | some d => ({ st with table := st.table.register d }, "ok")
    | none => (st, "bad-def")
  | ["table-safe"] =>
    -- the hypothesis of C02.parse_always_verdict on the table held by the driver: names of the definitions that fail it
    (st, match (st.table.filter (fun d => !Safe.cmdSafe d)).map (fun d => B.toHex d.name) with
      | [] => "safe"
      | l => "notsafe " ++ ",".intercalate l)
  | "table-add" :: fs =>
    match TableCodec.defOf fs with
    | some d => ({ st with table := st.table.register d, spec := st.spec.register d }, "ok")
    | none => (st, "bad-def")
  | "fcfg" :: fs => ({ st with matchExt := pairList (kv fs "match"), argExt := pairList (kv fs "arg") }, "ok")
  | "fb" :: fs => (st, factoryOp st fs)
  | "fbr" :: fs => (st, factoryRoundTrip st fs)
  | "c" :: fs => clientOp st fs
  | "fs" :: args => fsOp st args
  | "ren" :: fs => (st, renameOp fs)
  | _ => (st, "bad-request")

partial def loop (h : IO.FS.Stream) (out : IO.FS.Stream) (st : DState) : IO Unit := do
  let line ← h.getLine
  if line.isEmpty then return ()
  let l := if line.endsWith "\n" then (line.dropEnd 1).toString else line
  let (st', a) := answer st l
  out.putStrLn a
  loop h out st'

def main : IO Unit := do
  let out ← IO.getStdout
  loop (← IO.getStdin) out {}
  out.flush
